SPECIFICATION Spec
CONSTANTS
  B = 4
  N = 2
INVARIANTS Arith Logic Shifts Division DivisionUnique Exponent Ternary
CHECK_DEADLOCK FALSE
