------------------------------ MODULE DisasmTrace ------------------------------
(***************************************************************************)
(* Trace acceptor for observations of the real disassembler (C10).         *)
(* Two record shapes:                                                      *)
(*  "whole"  one short input with the per-offset entries the code built;   *)
(*           checked against Disasm!Disassemble(code).                     *)
(*  "sbegin" / "sbyte"* / "send"  one long input streamed byte by byte;    *)
(*           every "sbyte" is one ReadOp / ReadImm step of Disasm.tla and  *)
(*           "send" one EndComplete / EndTruncated step.                   *)
(* The acceptor is total on well-formed records; the listed property is    *)
(* the conjunction of the named invariants over `chk`.                     *)
(***************************************************************************)
EXTENDS Disasm, Json, IOUtils

Rec == ndJsonDeserialize(IOEnv.TRACE)

VARIABLES l,      \* next record
          chk,    \* verdicts on the record just consumed
          obs,    \* observed kinds of the streamed input so far
          viol    \* records on which a named invariant failed (first 25), for the report

AllGood == [total |-> TRUE, oneper |-> TRUE, roundtrip |-> TRUE, classes |-> TRUE]

(* Does the real entry (kind letter, encoded length) fit the model's entry? *)
KindOK(k, b, o, enc) ==
    CASE k = "push"     -> o = "P" /\ enc = PushLen(b) + 1
      [] k = "imm"      -> o = "N" /\ enc = 0
      [] k = "jumpdest" -> o = "J" /\ enc = 1
      [] k = "op"       -> o = "O" /\ enc = 1
      [] k = "invalid"  -> o = "I" /\ enc = 1
      [] k = "trunc"    -> o # "J"          \* tolerated somehow, but never a jump target
      [] OTHER          -> FALSE

Returned(e) == e.ok /\ "panic" \notin DOMAIN e

WholeVerdict(e) ==
    LET d == Disassemble(e.code).out IN
    [total     |-> Returned(e),
     oneper    |-> Returned(e) => (e.n = Len(e.code) /\ Len(e.kinds) = Len(e.code)),
     roundtrip |-> Returned(e) => e.rt,
     classes   |-> (Returned(e) /\ e.n = Len(e.code) /\ Len(e.kinds) = Len(e.code)) =>
                      \A i \in 1..Len(d) : KindOK(d[i].k, d[i].b, e.kinds[i], e.enc[i])]

Reset == code' = << >> /\ pending' = 0 /\ pushAt' = 0 /\ out' = << >> /\ status' = "reading"

StreamClasses ==
    \A i \in 1..Len(out') : KindOK(out'[i].k, out'[i].b, obs[i].k, obs[i].enc)

Step(e) ==
    CASE e.ev = "begin" -> UNCHANGED <<vars, chk, obs>>
      [] e.ev = "whole" -> /\ chk' = WholeVerdict(e)
                           /\ UNCHANGED <<vars, obs>>
      [] e.ev = "sbegin" -> /\ Reset
                            /\ obs' = << >>
                            /\ chk' = [AllGood EXCEPT !.total = Returned(e),
                                                      !.oneper = Returned(e) => e.n = e.len,
                                                      !.roundtrip = Returned(e) => e.rt]
      [] e.ev = "sbyte" -> /\ (ReadOp(e.b) \/ ReadImm(e.b))
                           /\ obs' = Append(obs, [k |-> e.k, enc |-> e.enc])
                           /\ chk' = AllGood
      \* At an instruction boundary the already-read prefix no longer influences the
      \* machine (pending = 0), so the acceptor may check and forget it: this keeps the
      \* state small on 24 KiB inputs.  Only enabled at a boundary.
      [] e.ev = "sflush" -> /\ pending = 0 /\ status = "reading"
                            /\ chk' = [AllGood EXCEPT !.classes =
                                          (Len(obs) = Len(out)) /\
                                          \A i \in 1..Len(out) : KindOK(out[i].k, out[i].b, obs[i].k, obs[i].enc)]
                            /\ code' = << >> /\ out' = << >> /\ obs' = << >> /\ pushAt' = 0
                            /\ UNCHANGED <<pending, status>>
      [] e.ev = "send" -> /\ IF Len(code) = 0 THEN UNCHANGED vars ELSE (EndComplete \/ EndTruncated)
                          /\ chk' = [AllGood EXCEPT !.classes = (Len(obs) = Len(out')) /\ StreamClasses]
                          /\ UNCHANGED obs

Inv_C10_Total      == chk.total
Inv_C10_OnePerByte == chk.oneper
Inv_C10_RoundTrip  == chk.roundtrip
Inv_C10_Classes    == chk.classes

(* Names of the invariants that fail in the successor state. *)
Failing(c) == (IF c.total THEN {} ELSE {"Inv_C10_Total"})
         \cup (IF c.oneper THEN {} ELSE {"Inv_C10_OnePerByte"})
         \cup (IF c.roundtrip THEN {} ELSE {"Inv_C10_RoundTrip"})
         \cup (IF c.classes THEN {} ELSE {"Inv_C10_Classes"})

TraceInit == Init /\ l = 1 /\ chk = AllGood /\ obs = << >> /\ viol = << >> /\ TLCSet(1, << >>)

TraceNext == /\ l <= Len(Rec) /\ Step(Rec[l]) /\ l' = l + 1
             /\ viol' = IF Failing(chk') # {} /\ Len(SelectSeq(viol, LAMBDA v : v.inv = Failing(chk'))) < 8
                        THEN Append(viol, [at |-> l, inv |-> Failing(chk')]) ELSE viol
             /\ TLCSet(1, viol')

TraceSpec == TraceInit /\ [][TraceNext]_<<vars, l, chk, obs, viol>>

(* The run is accepted iff every record was consumed and no named invariant *)
(* failed in any state; the failing records are reported by name.           *)
Matched == TLCGet("stats").diameter - 1
TraceAccepted ==
    /\ PrintT(<<"TRACE", ToJson([matched |-> Matched, records |-> Len(Rec), viol |-> TLCGet(1)])>>)
    /\ Matched = Len(Rec)
    /\ TLCGet(1) = << >>
================================================================================
