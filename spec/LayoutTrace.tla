------------------------------ MODULE LayoutTrace ------------------------------
(* Acceptor for layout-level observations of the real pipeline                *)
(* (C04, C05, C06, C11, C12).                                                  *)
EXTENDS Idioms, Json, IOUtils

INSTANCE SlotFlow
Code == INSTANCE Cfg

Rec == ndJsonDeserialize(IOEnv.TRACE)

VARIABLES l, viol, cnt

Ok(e) == e.res = "ok"

LayoutVerdictOn(e) ==
         (IF Sorted(e.entries) THEN {} ELSE {"Inv_C12_Sorted"})
         \cup (IF \A x \in ToSet(e.entries) : InSlot(x) THEN {}
               \* the known way this fails: a sub-word taken of a sub-word beyond the inner one's width
               ELSE IF e.keys.nested_masks THEN {"Inv_C12_InSlot/nested-subword"} ELSE {"Inv_C12_InSlot"})
         \cup (LET failing == {i \in 1..Len(e.vars) : ~Expected(e.vars[i], e.entries)} IN
               IF failing = {} THEN {}
               \* the known way this fails: fields of a packed variable that are only ever written, through a left shift
               ELSE IF \A i \in failing : /\ e.vars[i].kind = "packed"
                                           /\ \A f \in MissingFields(e.vars[i], e.entries) : WriteOnlyShifted(e.vars[i], f)
                    THEN {"Inv_C04_Expected/packed-write-only"}
               \* ... or a write-only field at bit 0 whose source is shifted down before it is masked
               ELSE IF \A i \in failing : /\ e.vars[i].kind = "packed"
                                           /\ \A f \in MissingFields(e.vars[i], e.entries) :
                                                  WriteOnlyShifted(e.vars[i], f) \/ PreShiftedLow(e.vars[i], f)
                    THEN {"Inv_C04_Expected/preshifted-low-field"}
               ELSE {"Inv_C04_Expected"})
         \cup (IF NoPhantom(e.entries, e.keys) THEN {}
               ELSE IF OnlyInValue(e.entries, e.keys) THEN {"Inv_C05_NoPhantom/value-operand"} ELSE {"Inv_C05_NoPhantom"})
         \cup (IF NoMissed(e.entries, e.keys) THEN {} ELSE {"Inv_C06_NoMissed"})
         \* code none of whose storage instructions the EVM can possibly execute (Cfg.tla) has an empty layout,
         \* whatever the tool itself executed
         \cup (IF "code" \in DOMAIN e /\ e.entries # << >> /\ Code!StorageReach(e.code) = {}
               THEN {"Inv_C05_NoPhantom/dead-storage"} ELSE {})

(* A record carries the layout of the staged run and, when it differs, the layout the one-call entry point *)
(* returned for the same input (entries_analyze): both are layouts of this program and are judged alike.    *)
LayoutVerdict(e0) ==
    IF ~Ok(e0) THEN {}
    ELSE UNION {LayoutVerdictOn([e0 EXCEPT !.entries = es]) :
                  es \in {e0.entries} \cup (IF "entries_analyze" \in DOMAIN e0 THEN {e0.entries_analyze} ELSE {})}

Sigma(e, s) == LET m == {p \in ToSet(e.sigma) : p[1] = s} IN
               IF m = {} THEN s ELSE (CHOOSE p \in m : TRUE)[2]

Verdict(e) ==
    CASE e.ev = "layout" -> LayoutVerdict(e)
      (* C11: the layout of two independent fragments behind a dispatcher is the union of their layouts *)
      [] e.ev = "compose" ->
           IF \A i \in 1..3 : e.res[i] = "ok"
           THEN (IF AsSet(e.ab) = AsSet(e.a) \cup AsSet(e.b) THEN {} ELSE {"Inv_C11_Union"})
           ELSE IF e.res[1] = "ok" /\ e.res[2] = "ok" THEN {"Inv_C11_Union"} ELSE {}
      (* C11: renumbering the slot constants renumbers the entries and changes nothing else *)
      [] e.ev = "rename" ->
           IF e.res[1] = "ok" /\ e.res[2] = "ok"
           THEN (IF {[slot |-> Sigma(e, x.slot), offset |-> x.offset, type |-> x.type] : x \in AsSet(e.p)} = AsSet(e.q)
                 THEN {} ELSE {"Inv_C11_Rename"})
           ELSE IF e.res[1] # e.res[2] THEN {"Inv_C11_Rename"} ELSE {}
      [] OTHER -> {}

Init == l = 1 /\ viol = << >> /\ cnt = [layouts |-> 0, ok |-> 0, bad |-> 0] /\ TLCSet(1, << >>) /\ TLCSet(2, cnt)

Next ==
    /\ l <= Len(Rec)
    /\ l' = l + 1
    /\ LET e == Rec[l]  f == Verdict(e) IN
       /\ viol' = IF f # {} /\ Len(SelectSeq(viol, LAMBDA v : v.inv = f)) < 6
                  THEN Append(viol, [at |-> l, inv |-> f]) ELSE viol
       /\ cnt' = [layouts |-> cnt.layouts + (IF e.ev = "layout" THEN 1 ELSE 0),
                  ok |-> cnt.ok + (IF e.ev = "layout" /\ e.res = "ok" THEN 1 ELSE 0),
                  bad |-> cnt.bad + (IF f # {} THEN 1 ELSE 0)]
    /\ TLCSet(1, viol') /\ TLCSet(2, cnt')

TraceSpec == Init /\ [][Next]_<<l, viol, cnt>>

Matched == TLCGet("stats").diameter - 1
TraceAccepted ==
    /\ PrintT(<<"TRACE", ToJson([matched |-> Matched, records |-> Len(Rec), viol |-> TLCGet(1), cnt |-> TLCGet(2)])>>)
    /\ Matched = Len(Rec)
    /\ TLCGet(1) = << >>
================================================================================
