---------------------------------- MODULE Word ----------------------------------
(***************************************************************************)
(* EVM words as little-endian sequences of N limbs in base B (B a power of *)
(* two; B = 256, N = 32 for the 256-bit machine).  TLC integers are 32 bit, *)
(* so everything is limb arithmetic; WordMC checks these operators against *)
(* native arithmetic modulo B^N for small (B, N), exhaustively.            *)
(*                                                                         *)
(* Semantics are those of the EVM yellow paper: wrap-around arithmetic,    *)
(* x / 0 = 0, x % 0 = 0, SDIV(MIN, -1) = MIN, shifts by >= the word size   *)
(* give 0 (or all ones for SAR of a negative value).                       *)
(***************************************************************************)
EXTENDS Integers, Sequences, Bitwise, TLC

CONSTANTS B, N

Bits == N * (CHOOSE k \in 1..16 : 2 ^ k = B)       \* the word size in bits
LimbBits == CHOOSE k \in 1..16 : 2 ^ k = B

Zero == [i \in 1..N |-> 0]
One  == [i \in 1..N |-> IF i = 1 THEN 1 ELSE 0]
Ones == [i \in 1..N |-> B - 1]
IsWord(w) == Len(w) = N /\ \A i \in 1..N : w[i] \in 0..(B - 1)

(* small naturals (< 2^30) to words and back (back only when it fits) *)
RECURSIVE FromNatRec(_, _)
FromNatRec(x, i) == IF i > N THEN << >> ELSE <<x % B>> \o FromNatRec(x \div B, i + 1)
FromNat(x) == FromNatRec(x, 1)

(* the value of a word if it is below 2^24, else -1 *)
SmallVal(w) ==
    LET k == 24 \div LimbBits IN
    IF \A i \in (k + 1)..N : w[i] = 0
    THEN LET RECURSIVE V(_) V(i) == IF i = 0 THEN 0 ELSE w[i] + B * V(i - 1) IN
         LET RECURSIVE U(_) U(i) == IF i > k \/ i > N THEN 0 ELSE w[i] + B * U(i + 1) IN U(1)
    ELSE -1

------------------------------------------------------------------------------
(* addition / subtraction modulo B^n on sequences of equal length *)
RECURSIVE AddRec(_, _, _, _)
AddRec(a, b, i, c) == IF i > Len(a) THEN << >>
                      ELSE LET s == a[i] + b[i] + c IN <<s % B>> \o AddRec(a, b, i + 1, s \div B)
AddW(a, b) == AddRec(a, b, 1, 0)

RECURSIVE SubRec(_, _, _, _)
SubRec(a, b, i, br) == IF i > Len(a) THEN << >>
                       ELSE LET d == a[i] - b[i] - br IN
                            IF d < 0 THEN <<d + B>> \o SubRec(a, b, i + 1, 1)
                            ELSE <<d>> \o SubRec(a, b, i + 1, 0)
SubW(a, b) == SubRec(a, b, 1, 0)
NegW(a) == SubW([i \in 1..Len(a) |-> 0], a)

(* unsigned comparison, from the most significant limb down *)
RECURSIVE LtRec(_, _, _)
LtRec(a, b, i) == IF i = 0 THEN FALSE
                  ELSE IF a[i] < b[i] THEN TRUE ELSE IF a[i] > b[i] THEN FALSE ELSE LtRec(a, b, i - 1)
LtW(a, b) == LtRec(a, b, Len(a))
LeW(a, b) == a = b \/ LtW(a, b)

IsNeg(a) == a[N] >= B \div 2
SLtW(a, b) == IF IsNeg(a) = IsNeg(b) THEN LtW(a, b) ELSE IsNeg(a)

Bool(p) == IF p THEN One ELSE Zero

(* full product: Len(a) + Len(b) limbs, column by column *)
RECURSIVE ColSum(_, _, _, _)
ColSum(a, b, k, i) ==      \* sum of a[i] * b[k + 1 - i] over valid i
    IF i > Len(a) \/ i > k THEN 0
    ELSE (IF k + 1 - i <= Len(b) THEN a[i] * b[k + 1 - i] ELSE 0) + ColSum(a, b, k, i + 1)
RECURSIVE MulRec(_, _, _, _)
MulRec(a, b, k, c) == IF k > Len(a) + Len(b) THEN << >>
                      ELSE LET s == ColSum(a, b, k, 1) + c IN <<s % B>> \o MulRec(a, b, k + 1, s \div B)
MulFull(a, b) == MulRec(a, b, 1, 0)
Low(w)  == SubSeq(w, 1, N)
High(w) == SubSeq(w, N + 1, 2 * N)
MulW(a, b) == Low(MulFull(a, b))

(* bitwise *)
AndW(a, b) == [i \in 1..N |-> a[i] & b[i]]
OrW(a, b)  == [i \in 1..N |-> a[i] | b[i]]
XorW(a, b) == [i \in 1..N |-> a[i] ^^ b[i]]
NotW(a)    == [i \in 1..N |-> (B - 1) - a[i]]

(* shifts by a natural number of bits *)
Pow2(k) == 2 ^ k
BitAtW(w, k) == (w[(k \div LimbBits) + 1] \div Pow2(k % LimbBits)) % 2
ShlN(a, n) ==
    IF n >= Bits THEN Zero
    ELSE LET q == n \div LimbBits  r == n % LimbBits IN
         [i \in 1..N |->
            LET lo == IF i - q >= 1 THEN (a[i - q] * Pow2(r)) % B ELSE 0
                hi == IF i - q - 1 >= 1 THEN (a[i - q - 1] * Pow2(r)) \div B ELSE 0
            IN lo + hi]
ShrFill(a, n, fill) ==     \* fill = 0 or B - 1: what comes in from the top
    IF n >= Bits THEN [i \in 1..N |-> fill]
    ELSE LET q == n \div LimbBits  r == n % LimbBits
             at(j) == IF j <= N THEN a[j] ELSE fill IN
         [i \in 1..N |-> (at(i + q) \div Pow2(r)) + ((at(i + q + 1) * Pow2(LimbBits - r)) % B)]
ShrN(a, n) == ShrFill(a, n, 0)
SarN(a, n) == ShrFill(a, n, IF IsNeg(a) THEN B - 1 ELSE 0)

(* shift amounts are words: anything that does not fit a small natural is >= the word size *)
ShAmt(s) == LET v == SmallVal(s) IN IF v < 0 \/ v >= Bits THEN Bits ELSE v
ShlW(s, a) == ShlN(a, ShAmt(s))
ShrW(s, a) == ShrN(a, ShAmt(s))
SarW(s, a) == SarN(a, ShAmt(s))

------------------------------------------------------------------------------
(* Division family as *relations*: the quotient q is supplied (by the        *)
(* implementation or by a scratch calculator) and checked, not computed.     *)
Ext(a) == a \o [i \in 1..N |-> 0]
IsDivMod(a, b, q, r) ==          \* b # 0, a = q * b + r, r < b
    /\ LtW(r, b)
    /\ AddRec(MulFull(q, b), Ext(r), 1, 0) = Ext(a)

DivOK(a, b, q) == IF b = Zero THEN q = Zero ELSE LET r == SubW(a, MulW(q, b)) IN IsDivMod(a, b, q, r)
ModOK(a, b, q, r) == IF b = Zero THEN r = Zero ELSE IsDivMod(a, b, q, r)

Abs(a) == IF IsNeg(a) THEN NegW(a) ELSE a
(* SDIV truncates towards zero: the magnitude of q is |a| div |b| (as an unsigned word, so that   *)
(* MIN / -1 = MIN works out) and q is negative exactly when the operand signs differ.            *)
SDivOK(a, b, q) ==
    IF b = Zero THEN q = Zero
    ELSE LET m == IF IsNeg(a) # IsNeg(b) THEN NegW(q) ELSE q IN DivOK(Abs(a), Abs(b), m)
(* SMOD: the remainder has the sign of the dividend; qabs = |a| div |b| is the hint *)
SModOK(a, b, qabs, r) ==
    IF b = Zero THEN r = Zero
    ELSE LET ra == IF IsNeg(a) THEN NegW(r) ELSE r IN IsDivMod(Abs(a), Abs(b), qabs, ra)

(* ADDMOD / MULMOD are taken over the unbounded sum / product: (a + b) mod n, (a * b) mod n,  *)
(* with x mod 0 = 0.  q is the quotient hint (2N limbs).                                     *)
Pad(w, n) == w \o [i \in 1..(n - Len(w)) |-> 0]
WideOK(x, n, q, r) ==      \* x (2N limbs) = q * n + r with r < n, n # 0
    /\ LtW(r, n)
    /\ AddRec(Pad(MulFull(q, n), 3 * N), Pad(r, 3 * N), 1, 0) = Pad(x, 3 * N)
AddModOK(a, b, n, q, r) == IF n = Zero THEN r = Zero
                           ELSE WideOK(AddRec(Ext(a), Ext(b), 1, 0), n, q, r)
MulModOK(a, b, n, q, r) == IF n = Zero THEN r = Zero ELSE WideOK(MulFull(a, b), n, q, r)

(* SIGNEXTEND(b, x): extend the sign of the (b+1)-byte value x; b >= 31 leaves x unchanged *)
SignExtendW(b, x) ==
    LET k == SmallVal(b) IN
    IF k < 0 \/ k >= (Bits \div 8) - 1 THEN x
    ELSE LET bit == 8 * k + 7
             neg == BitAtW(x, bit) = 1 IN
         [i \in 1..N |->
            LET lo == (i - 1) * LimbBits  hi == i * LimbBits - 1 IN
            IF hi <= bit THEN x[i]
            ELSE IF lo > bit THEN (IF neg THEN B - 1 ELSE 0)
            ELSE LET keep == Pow2(bit - lo + 1) IN (x[i] % keep) + (IF neg THEN B - keep ELSE 0)]

(* BYTE(i, x): the i-th byte of x counting from the most significant; 0 when i >= 32 *)
ByteW(i, x) ==
    LET k == SmallVal(i) IN
    IF k < 0 \/ k >= Bits \div 8 THEN Zero
    ELSE ShrN(ShlN(x, 8 * k), Bits - 8)

(* EXP by square-and-multiply over the bits of the exponent (most significant first) *)
BitAt(e, k) == (e[(k \div LimbBits) + 1] \div Pow2(k % LimbBits)) % 2
RECURSIVE ExpRec(_, _, _, _)
ExpRec(base, e, k, acc) ==
    IF k < 0 THEN acc
    ELSE LET sq == MulW(acc, acc) IN
         ExpRec(base, e, k - 1, IF BitAt(e, k) = 1 THEN MulW(sq, base) ELSE sq)
RECURSIVE TopBit(_, _)
TopBit(e, k) == IF k < 0 THEN -1 ELSE IF BitAt(e, k) = 1 THEN k ELSE TopBit(e, k - 1)
ExpW(base, e) == ExpRec(base, e, TopBit(e, Bits - 1), One)
=================================================================================
