------------------------------ MODULE PackedGen ------------------------------
(* Every pair of packed encodings of at most MaxSpans spans over a word of N units (spans may leave holes, touch, *)
(* nest, straddle), with distinct variables or with one span shared by both: one CASE line each, replayed on the real `merge` (harness           *)
(* `packed-replay`, one unit = 32 bits) and judged by PackedTrace.tla.                                           *)
EXTENDS Integers, Sequences, FiniteSets, TLC, Json

CONSTANTS N, MaxSpans

Intervals == {<<a, b>> \in (0..N) \X (0..N) : a < b}
NoOverlap(S) == \A x, y \in S : x = y \/ x[2] <= y[1] \/ y[2] <= x[1]
Shapes == {S \in SUBSET Intervals : Cardinality(S) >= 1 /\ Cardinality(S) <= MaxSpans /\ NoOverlap(S)}

RECURSIVE AsSeq(_)
AsSeq(S) == IF S = {} THEN << >> ELSE LET m == CHOOSE x \in S : \A y \in S : x[1] <= y[1] IN <<m>> \o AsSeq(S \ {m})

VARIABLE done
Init == done = FALSE
Next == /\ ~done /\ done' = TRUE
        /\ \A A \in Shapes : \A B \in Shapes :
              /\ PrintT(<<"CASE", ToJson([a |-> AsSeq(A), b |-> AsSeq(B), share |-> << >>])>>)
              \* the same value in the same place of both encodings: one span of each is the very same variable
              /\ \A c \in A \cap B : PrintT(<<"CASE", ToJson([a |-> AsSeq(A), b |-> AsSeq(B), share |-> c])>>)
Spec == Init /\ [][Next]_done
==============================================================================
