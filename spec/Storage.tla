------------------------------- MODULE Storage -------------------------------
(***************************************************************************)
(* The storage of one execution path (src/vm/state/storage.rs): for every  *)
(* key the history ("generations") of what the path stored there.          *)
(*                                                                         *)
(*   Store(k, v)      store        appends v to the history of k           *)
(*   Load(k)          load         the last value of k's history wrapped   *)
(*                                 as "loaded from k" - unless it already  *)
(*                                 is a loaded value; a key that was never *)
(*                                 written gets the history <<unwritten k>>*)
(*                                 (the read is remembered: C06)           *)
(*   Generations(k)   generations  the history, or none                    *)
(*   Keys             keys / entry_count                                   *)
(*                                                                         *)
(* Values are <<tag, key-or-id, inner>> with tags "p" (a plain value),     *)
(* "u" (the unwritten value of a key), "l" (loaded from a key: inner is    *)
(* what was loaded).  Keys are compared as the tool compares them (by      *)
(* structure; see known_findings.json, C07-structural-keys).               *)
(* Serves C07 (the history lists exactly the writes, in order) and C06.    *)
(***************************************************************************)
EXTENDS Naturals, Sequences, SequencesExt, FiniteSets

VARIABLES sto,       \* function: key -> non-empty sequence of values
          sres       \* result of the last call

stvars == <<sto, sres>>

Unwritten(k) == <<"u", k, << >> >>
Loaded(k, v) == IF v[1] = "l" THEN v ELSE <<"l", k, v>>
None == <<"none">>

StInit == sto = << >> /\ sres = None

Store(k, v) ==
    /\ sto' = IF k \in DOMAIN sto THEN [sto EXCEPT ![k] = Append(@, v)] ELSE [x \in DOMAIN sto \cup {k} |-> IF x = k THEN <<v>> ELSE sto[x]]
    /\ sres' = None

Load(k) ==
    /\ sto' = IF k \in DOMAIN sto THEN sto ELSE [x \in DOMAIN sto \cup {k} |-> IF x = k THEN <<Unwritten(k)>> ELSE sto[x]]
    /\ sres' = Loaded(k, Last(sto'[k]))

Generations(k) == /\ UNCHANGED sto
                  /\ sres' = IF k \in DOMAIN sto THEN sto[k] ELSE None

Keys == UNCHANGED sto /\ sres' = DOMAIN sto
==============================================================================
