--------------------------------- MODULE Value ---------------------------------
(***************************************************************************)
(* Symbolic value terms and constant folding (C09), value sizes (C18).     *)
(*                                                                         *)
(* A term is [op, w, args]: the constructor name, the word of a constant   *)
(* (<< >> otherwise) and the operand terms in EVM operand order.           *)
(*                                                                         *)
(* Folding is specified node by node: given the folded forms of the        *)
(* operands (each already checked), the folded form of a node is           *)
(*   - the constant the EVM computes, when the operator is one of the 21   *)
(*     foldable ones and every folded operand is a constant;               *)
(*   - otherwise THE SAME OPERATOR over the folded operands, in the same   *)
(*     positions.                                                          *)
(* Division-like results are checked through Word's relations with a       *)
(* quotient hint; everything else is recomputed.                           *)
(***************************************************************************)
EXTENDS Word

Const(w) == [op |-> "KnownData", w |-> w, args |-> << >>]
IsConst(t) == t.op = "KnownData"

Binary == {"Add", "Multiply", "Subtract", "Divide", "SignedDivide", "Modulo", "SignedModulo", "Exp",
           "LessThan", "GreaterThan", "SignedLessThan", "SignedGreaterThan", "Equals", "And", "Or", "Xor",
           "LeftShift", "RightShift", "ArithmeticRightShift"}
Unary == {"IsZero", "Not"}
Foldable == Binary \cup Unary

(* Is c the EVM result of op on a (and b)?  h: quotient hint for the modulo family. *)
ResultOK(op, a, b, c, h) ==
    CASE op = "Add" -> c = AddW(a, b)
      [] op = "Multiply" -> c = MulW(a, b)
      [] op = "Subtract" -> c = SubW(a, b)
      [] op = "Divide" -> DivOK(a, b, c)
      [] op = "SignedDivide" -> SDivOK(a, b, c)
      [] op = "Modulo" -> ModOK(a, b, h, c)
      [] op = "SignedModulo" -> SModOK(a, b, h, c)
      [] op = "Exp" -> c = ExpW(a, b)
      [] op = "LessThan" -> c = Bool(LtW(a, b))
      [] op = "GreaterThan" -> c = Bool(LtW(b, a))
      [] op = "SignedLessThan" -> c = Bool(SLtW(a, b))
      [] op = "SignedGreaterThan" -> c = Bool(SLtW(b, a))
      [] op = "Equals" -> c = Bool(a = b)
      [] op = "And" -> c = AndW(a, b)
      [] op = "Or" -> c = OrW(a, b)
      [] op = "Xor" -> c = XorW(a, b)
      [] op = "LeftShift" -> c = ShlW(a, b)             \* a: shift amount, b: value
      [] op = "RightShift" -> c = ShrW(a, b)
      [] op = "ArithmeticRightShift" -> c = SarW(a, b)
      [] op = "IsZero" -> c = Bool(a = Zero)
      [] op = "Not" -> c = NotW(a)
      [] OTHER -> FALSE

(* node: [op, w, kids (folded forms of the operands), fold (claimed folded form), hint] *)
NodeOK(n) ==
    IF n.op = "KnownData" THEN n.fold = Const(n.w)
    ELSE IF n.op \in Foldable /\ \A i \in 1..Len(n.kids) : IsConst(n.kids[i])
    THEN /\ IsConst(n.fold) /\ IsWord(n.fold.w)
         /\ ResultOK(n.op, n.kids[1].w, IF Len(n.kids) > 1 THEN n.kids[2].w ELSE Zero, n.fold.w, n.hint)
    ELSE n.fold = [op |-> n.op, w |-> << >>, args |-> n.kids]

------------------------------------------------------------------------------
(* C18: sizes.  A value records 1 + the recorded sizes of its operands; when  *)
(* that exceeds the limit it is replaced by a fresh opaque leaf (of size 1).  *)
RECURSIVE TrueSize(_)
TrueSize(t) == LET RECURSIVE S(_, _) S(a, i) == IF i > Len(a) THEN 0 ELSE TrueSize(a[i]) + S(a, i + 1)
               IN 1 + S(t.args, 1)
================================================================================
