------------------------------- MODULE Memory -------------------------------
(***************************************************************************)
(* The memory of one execution path (src/vm/state/memory.rs): for every    *)
(* offset the history of what the path stored there.  The tool tracks      *)
(* memory word by word at the offsets the program names; it does not model *)
(* overlap between unaligned stores.                                       *)
(*                                                                         *)
(*   Store(k, v)        store / store_8   appends v to the history of k    *)
(*   Load(k)            load              the last value of k's history;   *)
(*                                        an offset never written reads as *)
(*                                        the zero word (and that read is  *)
(*                                        remembered as its history)       *)
(*   LoadSlice(k, n)    load_slice        constant k and n: the words at   *)
(*                                        k, k+32, ... below k + min(n,Max)*)
(*                                        as one concatenation; otherwise  *)
(*                                        the word at k                    *)
(*   Entries            entry_count                                        *)
(*                                                                         *)
(* Offsets are 256-bit words.  Constant offsets are written "c" followed   *)
(* by their hexadecimal value and are identified by that full value - two  *)
(* offsets that agree only in their low 64 bits are different offsets.     *)
(* Symbolic offsets are identified by structure.  `Off(k, i)` is supplied  *)
(* by the instance: the name of the offset i bytes after constant k.       *)
(* Serves C07 (memory-word contents).                                      *)
(***************************************************************************)
EXTENDS Naturals, Sequences, SequencesExt, FiniteSets

CONSTANT MaxCopy            \* max_single_operation_bytes

VARIABLES mem,       \* function: offset -> non-empty sequence of values
          mres       \* result of the last call

mvars == <<mem, mres>>

Zero == <<"z">>
MNone == <<"none">>
Concat(ws) == <<"cat", ws>>

MInit == mem = << >> /\ mres = MNone

With(m, k, h) == [x \in DOMAIN m \cup {k} |-> IF x = k THEN h ELSE m[x]]
Touch(m, k) == IF k \in DOMAIN m THEN m ELSE With(m, k, <<Zero>>)

Store(k, v) ==
    /\ mem' = IF k \in DOMAIN mem THEN [mem EXCEPT ![k] = Append(@, v)] ELSE With(mem, k, <<v>>)
    /\ mres' = MNone

Load(k) ==
    /\ mem' = Touch(mem, k)
    /\ mres' = Last(mem'[k])

(* the offsets of the words of a slice of n bytes at constant offset k *)
MinOf(a, b) == IF a < b THEN a ELSE b
WordsOf(n) == (MinOf(n, MaxCopy) + 31) \div 32

RECURSIVE TouchAll(_, _)
TouchAll(m, ks) == IF ks = << >> THEN m ELSE TouchAll(Touch(m, Head(ks)), Tail(ks))

(* ks: the offsets k, k+32, ... of the words of the slice, computed by the caller from k and n *)
LoadSliceConst(ks) ==
    /\ mem' = TouchAll(mem, ks)
    /\ mres' = Concat([i \in 1..Len(ks) |-> Last(mem'[ks[i]])])

Entries == UNCHANGED mem /\ mres' = Cardinality(DOMAIN mem)
==============================================================================
