SPECIFICATION TraceSpec
CONSTANTS
  Key <- TKey
  Val <- TVal
INVARIANT TypeOK
POSTCONDITION TraceAccepted
CHECK_DEADLOCK FALSE
