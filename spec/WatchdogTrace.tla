----------------------------- MODULE WatchdogTrace -----------------------------
(* Trace acceptor for monitored analyses (C13): interleaved LoopIter / poll    *)
(* events recorded from the real pipeline with a scripted watchdog.            *)
EXTENDS Watchdog, Json, IOUtils

Rec == ndJsonDeserialize(IOEnv.TRACE)

VARIABLES l, viol

Idle == wchk' = WGood /\ UNCHANGED <<I, since, polled, cur, polls, stopSeen, stopSite, afterPolls, afterMain, ended>>

Step(e) ==
    CASE e.ev = "wbegin" -> Begin(e.I)
      [] e.ev = "iter"   -> Iter(e.site)
      [] e.ev = "poll"   -> Poll(e.stop)
      [] e.ev = "wend"   -> End(e.res, e.same)
      [] OTHER           -> Idle

TraceInit ==
    /\ I = 1 /\ since = [s \in Sites |-> 0] /\ polled = [s \in Sites |-> FALSE] /\ cur = "none" /\ polls = 0 /\ stopSeen = FALSE
    /\ stopSite = "none" /\ afterPolls = 0 /\ afterMain = 0 /\ ended = FALSE /\ wchk = WGood
    /\ l = 1 /\ viol = << >> /\ TLCSet(1, << >>)

TraceNext ==
    /\ l <= Len(Rec)
    /\ Step(Rec[l])
    /\ l' = l + 1
    /\ viol' = IF WFailing(wchk') # {} /\ Len(SelectSeq(viol, LAMBDA v : v.inv = WFailing(wchk'))) < 6
               THEN Append(viol, [at |-> l, inv |-> WFailing(wchk')]) ELSE viol
    /\ TLCSet(1, viol')

TraceSpec == TraceInit /\ [][TraceNext]_<<wvars, l, viol>>

Matched == TLCGet("stats").diameter - 1
TraceAccepted ==
    /\ PrintT(<<"TRACE", ToJson([matched |-> Matched, records |-> Len(Rec), viol |-> TLCGet(1)])>>)
    /\ Matched = Len(Rec)
    /\ TLCGet(1) = << >>
================================================================================
