------------------------------- MODULE IdiomsGen -------------------------------
(***************************************************************************)
(* Enumerates ground-truth contract descriptions (C04, C11): every single  *)
(* variable over the parameter grid, and pairs of variables at distinct    *)
(* slots.  One CASE line per contract; the harness's assembler compiles    *)
(* the description and Idioms!Expected judges the resulting layout.        *)
(***************************************************************************)
EXTENDS Integers, Sequences, FiniteSets, TLC, Json

CONSTANT Full      \* TRUE: every variable at slot 5 x every read-write variable at another slot; FALSE: read-write pairs at two slots

VARIABLE d

SlotsSmall == {"0x00", "0x05"}
SlotsBig   == {"0x0100000000000000000000000000000000", "0xffffffffffffffffffffffffffffffffffffffffffffffffffffffffffffff10",
               \* a slot named by a short string, left-aligned: bytes32("balances")
               "0x62616c616e636573000000000000000000000000000000000000000000000000"}
AllSlots   == SlotsSmall \cup SlotsBig
Access     == {"r", "w", "rw"}
KeyKinds   == {"addr", "word"}
Splits     == {<<<<0, 128>>, <<128, 128>>>>,
               <<<<0, 8>>, <<8, 160>>, <<168, 88>>>>,
               <<<<0, 64>>, <<64, 64>>, <<128, 64>>, <<192, 64>>>>,
               <<<<0, 160>>, <<160, 8>>, <<168, 8>>, <<176, 32>>, <<208, 16>>, <<224, 32>>>>}

Var(kind, slot, keys, valAddr, fields, acc, wmul, topw, wall) ==
    [kind |-> kind, slot |-> slot, width |-> 0, keys |-> keys, val_addr |-> valAddr, fields |-> fields, access |-> acc,
     wmul |-> wmul, top_w |-> topw, wall |-> wall, pre |-> 0]

Shapes ==
    {[kind |-> "word", keys |-> << >>, val_addr |-> FALSE, fields |-> << >>, wmul |-> FALSE, top_w |-> FALSE, wall |-> 0],
     [kind |-> "addr", keys |-> << >>, val_addr |-> FALSE, fields |-> << >>, wmul |-> FALSE, top_w |-> FALSE, wall |-> 0]}
    \cup {[kind |-> "map", keys |-> <<k>>, val_addr |-> va, fields |-> << >>, wmul |-> FALSE, top_w |-> FALSE, wall |-> 0] : k \in KeyKinds, va \in BOOLEAN}
    \cup {[kind |-> "map", keys |-> <<k1, k2>>, val_addr |-> va, fields |-> << >>, wmul |-> FALSE, top_w |-> FALSE, wall |-> 0] : k1 \in KeyKinds, k2 \in KeyKinds, va \in BOOLEAN}
    \cup {[kind |-> "map", keys |-> <<"addr", "word", "addr">>, val_addr |-> FALSE, fields |-> << >>, wmul |-> FALSE, top_w |-> FALSE, wall |-> 0],
          [kind |-> "map", keys |-> <<"word", "addr", "word", "addr">>, val_addr |-> TRUE, fields |-> << >>, wmul |-> FALSE, top_w |-> FALSE, wall |-> 0]}
    \cup {[kind |-> "dyn", keys |-> << >>, val_addr |-> va, fields |-> << >>, wmul |-> FALSE, top_w |-> FALSE, wall |-> 0] : va \in BOOLEAN}
    \cup {[kind |-> "packed", keys |-> << >>, val_addr |-> FALSE, fields |-> f, wmul |-> m, top_w |-> t, wall |-> 0] :
              f \in Splits, m \in BOOLEAN, t \in BOOLEAN}
    \* every field written in one store, the ors nested to the left (1) or to the right (2)
    \cup {[kind |-> "packed", keys |-> << >>, val_addr |-> FALSE, fields |-> f, wmul |-> m, top_w |-> FALSE, wall |-> w] :
              f \in Splits, m \in BOOLEAN, w \in {1, 2}}

Vars(slots, accs) == {Var(s.kind, sl, s.keys, s.val_addr, s.fields, a, s.wmul, s.top_w, s.wall) : s \in Shapes, sl \in slots, a \in accs}

Singles == {<<v>> : v \in Vars(AllSlots, Access)}
Pairs == IF Full
         THEN {<<v, w>> : v \in Vars({"0x05"}, Access), w \in Vars(AllSlots \ {"0x05"}, {"rw"})}
         ELSE {<<v, w>> : v \in Vars({"0x05"}, {"rw"}), w \in Vars({"0x00", "0x0100000000000000000000000000000000"}, {"rw"})}

Contracts == Singles \cup {p \in Pairs : p[1].slot # p[2].slot}

Init == d \in Contracts
Next == FALSE /\ d' = d
Spec == Init /\ [][Next]_d

Emit == PrintT(<<"CASE", ToJson([vars |-> d])>>)
================================================================================
