------------------------------- MODULE IdiomsGen -------------------------------
(***************************************************************************)
(* Enumerates ground-truth contract descriptions (C04, C11): every single  *)
(* variable over the parameter grid, and pairs of variables at distinct    *)
(* slots.  One CASE line per contract; the harness's assembler compiles    *)
(* the description and Idioms!Expected judges the resulting layout.        *)
(***************************************************************************)
EXTENDS Integers, Sequences, FiniteSets, TLC, Json

CONSTANT Full      \* TRUE: all pairs; FALSE: pairs of read-write variables only

VARIABLE d

SlotsSmall == {"0x00", "0x05"}
SlotsBig   == {"0x0100000000000000000000000000000000", "0xffffffffffffffffffffffffffffffffffffffffffffffffffffffffffffff10"}
AllSlots   == SlotsSmall \cup SlotsBig
Access     == {"r", "w", "rw"}
KeyKinds   == {"addr", "word"}
Splits     == {<<<<0, 128>>, <<128, 128>>>>,
               <<<<0, 8>>, <<8, 160>>, <<168, 88>>>>,
               <<<<0, 64>>, <<64, 64>>, <<128, 64>>, <<192, 64>>>>,
               <<<<0, 160>>, <<160, 8>>, <<168, 8>>, <<176, 32>>, <<208, 16>>, <<224, 32>>>>}

Var(kind, slot, keys, valAddr, fields, acc) ==
    [kind |-> kind, slot |-> slot, width |-> 0, keys |-> keys, val_addr |-> valAddr, fields |-> fields, access |-> acc]

Shapes ==
    {[kind |-> "word", keys |-> << >>, val_addr |-> FALSE, fields |-> << >>],
     [kind |-> "addr", keys |-> << >>, val_addr |-> FALSE, fields |-> << >>]}
    \cup {[kind |-> "map", keys |-> <<k>>, val_addr |-> va, fields |-> << >>] : k \in KeyKinds, va \in BOOLEAN}
    \cup {[kind |-> "map", keys |-> <<k1, k2>>, val_addr |-> va, fields |-> << >>] : k1 \in KeyKinds, k2 \in KeyKinds, va \in BOOLEAN}
    \cup {[kind |-> "map", keys |-> <<"addr", "word", "addr">>, val_addr |-> FALSE, fields |-> << >>],
          [kind |-> "map", keys |-> <<"word", "addr", "word", "addr">>, val_addr |-> TRUE, fields |-> << >>]}
    \cup {[kind |-> "dyn", keys |-> << >>, val_addr |-> va, fields |-> << >>] : va \in BOOLEAN}
    \cup {[kind |-> "packed", keys |-> << >>, val_addr |-> FALSE, fields |-> f] : f \in Splits}

Vars(slots, accs) == {Var(s.kind, sl, s.keys, s.val_addr, s.fields, a) : s \in Shapes, sl \in slots, a \in accs}

Singles == {<<v>> : v \in Vars(AllSlots, Access)}
Pairs == IF Full
         THEN {<<v, w>> : v \in Vars(AllSlots, Access), w \in Vars(AllSlots, Access)}
         ELSE {<<v, w>> : v \in Vars({"0x05"}, {"rw"}), w \in Vars({"0x00", "0x0100000000000000000000000000000000"}, {"rw"})}

Contracts == Singles \cup {p \in Pairs : p[1].slot # p[2].slot}

Init == d \in Contracts
Next == FALSE /\ d' = d
Spec == Init /\ [][Next]_d

Emit == PrintT(<<"CASE", ToJson([vars |-> d])>>)
================================================================================
