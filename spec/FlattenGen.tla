----------------------------- MODULE FlattenGen -----------------------------
(* Resolved types of one slot, as trees of depth <= 2 over a word of 8 units of 32 bits: every packed encoding of   *)
(* <= 2 spans, each span a word that fills it or a packed encoding of its own (with holes below, between and above  *)
(* the fields).  One CASE line per tree; the harness states the tree as typing judgements about a constant slot,    *)
(* runs the real unifier and layout builder, and FlattenTrace.tla judges the entries.                              *)
EXTENDS Integers, Sequences, FiniteSets, TLC, Json

CONSTANT N
U == 32
Intervals(room) == {<<a, b>> \in (0..room) \X (0..room) : a < b}
NoOverlap(S) == \A x, y \in S : x = y \/ x[2] <= y[1] \/ y[2] <= x[1]
(* one or two intervals that do not overlap (built up, not filtered out of the powerset) *)
Shapes(room, k) == {{a} : a \in Intervals(room)} \cup {{p[1], p[2]} : p \in {q \in Intervals(room) \X Intervals(room) : q[1][2] <= q[2][1]}}

RECURSIVE AsSeq(_)
AsSeq(S) == IF S = {} THEN << >> ELSE LET m == CHOOSE x \in S : \A y \in S : x[1] <= y[1] IN <<m>> \o AsSeq(S \ {m})

Word(units) == <<"w", units * U>>
(* inner encodings of a span of `units` units: a word, or <= 2 fields *)
Inner(units) == {Word(units)} \cup
                (IF units < 2 THEN {} ELSE
                 {<<"p", [i \in 1..Len(AsSeq(S)) |-> <<AsSeq(S)[i][1] * U, (AsSeq(S)[i][2] - AsSeq(S)[i][1]) * U,
                                                         Word(AsSeq(S)[i][2] - AsSeq(S)[i][1])>>]>> : S \in Shapes(units, 2)})

Trees == UNION {
           LET sq == AsSeq(S) IN
           IF Len(sq) = 1
           THEN {<<"p", <<<<sq[1][1] * U, (sq[1][2] - sq[1][1]) * U, t>>>>>> : t \in Inner(sq[1][2] - sq[1][1])}
           ELSE {<<"p", <<<<sq[1][1] * U, (sq[1][2] - sq[1][1]) * U, t1>>, <<sq[2][1] * U, (sq[2][2] - sq[2][1]) * U, t2>>>>>> :
                    t1 \in Inner(sq[1][2] - sq[1][1]), t2 \in Inner(sq[2][2] - sq[2][1])}
           : S \in Shapes(N, 2)}

VARIABLE done
Init == done = FALSE
Next == /\ ~done /\ done' = TRUE
        /\ \A t \in Trees : PrintT(<<"CASE", ToJson([tree |-> t])>>)
Spec == Init /\ [][Next]_done
==============================================================================
