-------------------------- MODULE DisjointSetMC --------------------------
(* Bounded instance of DisjointSet: model-checks the design properties   *)
(* and prints every transition of the depth-bounded state graph as JSON, *)
(* which the Rust harness walks against the real DisjointSet (C19).      *)
EXTENDS DisjointSet, Json

CONSTANT MaxDepth

StateJson(K, P, D) == [known |-> K, classes |-> {[members |-> c, b |-> D[c]] : c \in P}]

Emit == PrintT(<<"EDGE", ToJson([s |-> StateJson(known, part, data),
                                 r |-> res',
                                 t |-> StateJson(known', part', data')])>>)

MCNext == Next /\ Emit

MCSpec == Init /\ [][MCNext]_vars

DepthBound == TLCGet("level") <= MaxDepth

View == <<known, part, data>>
==========================================================================
