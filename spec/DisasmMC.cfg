SPECIFICATION MCSpec
CONSTANT MaxLen = 4
INVARIANTS OnePerByte Lossless ImmNotInstr PushCovers Terminal Agrees NoStuck Emit
CONSTRAINT Bound
CHECK_DEADLOCK FALSE
