-------------------------------- MODULE EvmTrace --------------------------------
(***************************************************************************)
(* Acceptor for C07: for every path the symbolic VM explored on a program  *)
(* whose data are all constants, the final symbolic stack, memory words    *)
(* and per-key storage histories must denote exactly what the concrete     *)
(* EVM of Evm.tla computes along the same path (forced branch decisions).  *)
(*                                                                         *)
(* Each record is judged in two TLC steps: Compute puts the concrete       *)
(* execution into the state variable `res` (TLC re-evaluates a LET-bound   *)
(* expression at every use, so this keeps the acceptor linear), Judge      *)
(* reads the verdict off it.                                               *)
(***************************************************************************)
EXTENDS Evm, Json, IOUtils, FiniteSets

Rec == ndJsonDeserialize(IOEnv.TRACE)

VARIABLES l, phase, res, viol, cnt

ToSet(seq) == {seq[i] : i \in DOMAIN seq}
Claim(e, id) == e.nodes[id].claim

HarnessFaults == {"scratch result rejected", "opcode outside the fragment", "unaligned memory access in generated program",
                  "stack underflow in a stack-safe program"}

(* the storage history of a key: its generations without the placeholder left by a read of never-written storage *)
Written(e, gens) == SelectSeq(gens, LAMBDA id : e.nodes[id].op # "UnwrittenStorageValue")
WritesTo(s, key) == SelectSeq(s.writes, LAMBDA w : w[1] = key)

(* --- known findings are excused where they happen, not along the whole path ------------------------------- *)
(* e.taint lists <<offset, tag>> for the instructions of this path that ran into a known finding (see            *)
(* known_findings.json): SIGNEXTEND; ADDMOD / MULMOD whose intermediate exceeds 2^256; BYTE with an index         *)
(* >= 2^253.  A symbolic node is tainted when it was built at such an instruction or is computed from a tainted  *)
(* node.  A disagreement is excused only if EVERY disagreeing item is tainted; the verdict then carries the tags. *)
TagOrder == <<"addmod-overflow", "byte-huge-offset", "signextend">>
TaintAt(e, ip) == {t[2] : t \in {x \in ToSet(e.taint) : x[1] = ip}}
RECURSIVE NodeTaint(_, _)
NodeTaint(e, id) ==
    LET n == e.nodes[id] IN
    TaintAt(e, n.ip) \cup UNION {NodeTaint(e, n.kids[k]) : k \in 1..Len(n.kids)}

RECURSIVE Join(_)
Join(seq) == IF Len(seq) = 0 THEN "" ELSE "/" \o Head(seq) \o Join(Tail(seq))

(* ids: the nodes of the disagreeing items *)
Excuse(e, name, ids) ==
    IF ids = {} THEN {}
    ELSE IF \A id \in ids : NodeTaint(e, id) # {}
         THEN LET all == UNION {NodeTaint(e, id) : id \in ids} IN
              {name \o Join(SelectSeq(TagOrder, LAMBDA t : t \in all))}
         ELSE {name}

PathVerdict(e, s) ==
    IF ~s.ok THEN (IF s.why \in HarnessFaults THEN {"Harness/" \o s.why} ELSE {"Inv_C07_Path/" \o s.why})
    ELSE IF ~Denotes(e.nodes) THEN {"Harness/symbolic node claim rejected"}
    ELSE
      (* stack: same depth, same words, top first *)
      (IF Len(e.stack) # Len(s.stack) THEN {"Inv_C07_Stack"}
       ELSE Excuse(e, "Inv_C07_Stack", {e.stack[i] : i \in {j \in 1..Len(e.stack) : Claim(e, e.stack[j]) # s.stack[j]}}))
      (* memory: every word the symbolic memory holds at a constant offset is the concrete word there, *)
      (* and every concrete word is present                                                            *)
      \cup (IF /\ \A m \in ToSet(e.memory) : Len(m[2]) > 0
               /\ \A off \in DOMAIN s.mem : \E m \in ToSet(e.memory) : Claim(e, m[1]) = off
            THEN Excuse(e, "Inv_C07_Memory",
                        {m[2][Len(m[2])] : m \in {x \in ToSet(e.memory) :
                                                    Claim(e, x[2][Len(x[2])]) # MemAt(s.mem, Claim(e, x[1]))}})
            ELSE {"Inv_C07_Memory"})
      (* storage: per key, exactly the writes of this path, in order; one entry per key *word*: structurally *)
      (* different keys that denote one slot must not be kept apart                                          *)
      \cup (IF /\ \A k \in ToSet(e.storage) : Len(Written(e, k[2])) = Len(WritesTo(s, Claim(e, k[1])))
               /\ \A w \in ToSet(s.writes) : \E k \in ToSet(e.storage) : Claim(e, k[1]) = w[1]
               /\ \A k1, k2 \in ToSet(e.storage) : Claim(e, k1[1]) = Claim(e, k2[1]) => k1 = k2
            THEN Excuse(e, "Inv_C07_Storage",
                        UNION {LET mine == Written(e, k[2])
                                   conc == WritesTo(s, Claim(e, k[1])) IN
                               {mine[i] : i \in {j \in 1..Len(mine) : Claim(e, mine[j]) # conc[j][2]}}
                               : k \in ToSet(e.storage)})
            ELSE {"Inv_C07_Storage"})

(* A program that itself addresses one slot through two different key expressions runs into the finding about   *)
(* structural keys (tag key-alias, given by the generator for the whole program).                               *)
Tagged(e, names) == IF Len(e.tags) = 0 THEN names ELSE {n \o Join(e.tags) : n \in names}

JudgeRec(e, s) == IF e.ev = "path" THEN Tagged(e, PathVerdict(e, s)) ELSE IF e.ev = "path-panic" THEN {"Inv_C07_Total"} ELSE {}

NoRes == [ok |-> TRUE, why |-> "", pc |-> 0, stack |-> << >>, mem |-> << >>, writes |-> << >>, halted |-> FALSE]

Init0 == /\ l = 1 /\ phase = 0 /\ res = NoRes /\ viol = << >>
         /\ cnt = [paths |-> 0, steps |-> 0, nodes |-> 0, bad |-> 0] /\ TLCSet(1, << >>) /\ TLCSet(2, cnt)

Compute ==
    /\ l <= Len(Rec) /\ phase = 0
    /\ res' = IF Rec[l].ev = "path" THEN Execute(Rec[l].code, Rec[l].steps) ELSE NoRes
    /\ phase' = 1
    /\ UNCHANGED <<l, viol, cnt>>

Judge ==
    /\ l <= Len(Rec) /\ phase = 1
    /\ l' = l + 1 /\ phase' = 0 /\ res' = NoRes
    /\ LET e == Rec[l]  f == JudgeRec(e, res) IN
       /\ viol' = IF f # {} /\ Len(SelectSeq(viol, LAMBDA v : v.inv = f)) < 6
                  THEN Append(viol, [at |-> l, inv |-> f]) ELSE viol
       /\ cnt' = [paths |-> cnt.paths + (IF e.ev = "path" THEN 1 ELSE 0),
                  steps |-> cnt.steps + (IF e.ev = "path" THEN Len(e.steps) ELSE 0),
                  nodes |-> cnt.nodes + (IF e.ev = "path" THEN Len(e.nodes) ELSE 0),
                  bad |-> cnt.bad + (IF f # {} THEN 1 ELSE 0)]
    /\ TLCSet(1, viol') /\ TLCSet(2, cnt')

Next == Compute \/ Judge

TraceSpec == Init0 /\ [][Next]_<<l, phase, res, viol, cnt>>

Matched == (TLCGet("stats").diameter - 1) \div 2
TraceAccepted ==
    /\ PrintT(<<"TRACE", ToJson([matched |-> Matched, records |-> Len(Rec), viol |-> TLCGet(1), cnt |-> TLCGet(2)])>>)
    /\ Matched = Len(Rec)
    /\ TLCGet(1) = << >>
=================================================================================
