-------------------------------- MODULE EvmTrace --------------------------------
(***************************************************************************)
(* Acceptor for C07: for every path the symbolic VM explored on a program  *)
(* whose data are all constants, the final symbolic stack, memory words    *)
(* and per-key storage histories must denote exactly what the concrete     *)
(* EVM of Evm.tla computes along the same path (forced branch decisions).  *)
(*                                                                         *)
(* Each record is judged in two TLC steps: Compute puts the concrete       *)
(* execution into the state variable `res` (TLC re-evaluates a LET-bound   *)
(* expression at every use, so this keeps the acceptor linear), Judge      *)
(* reads the verdict off it.                                               *)
(***************************************************************************)
EXTENDS Evm, Json, IOUtils, FiniteSets

Rec == ndJsonDeserialize(IOEnv.TRACE)

VARIABLES l, phase, res, viol, cnt

ToSet(seq) == {seq[i] : i \in DOMAIN seq}
Claim(e, id) == e.nodes[id].claim

HarnessFaults == {"scratch result rejected", "opcode outside the fragment", "unaligned memory access in generated program",
                  "stack underflow in a stack-safe program"}

(* the storage history of a key: its generations without the placeholder left by a read of never-written storage *)
Written(e, gens) == SelectSeq(gens, LAMBDA id : e.nodes[id].op # "UnwrittenStorageValue")
WritesTo(s, key) == SelectSeq(s.writes, LAMBDA w : w[1] = key)

PathVerdict(e, s) ==
    IF ~s.ok THEN (IF s.why \in HarnessFaults THEN {"Harness/" \o s.why} ELSE {"Inv_C07_Path/" \o s.why})
    ELSE IF ~Denotes(e.nodes) THEN {"Harness/symbolic node claim rejected"}
    ELSE
      (* stack: same depth, same words, top first *)
      (IF Len(e.stack) = Len(s.stack) /\ \A i \in 1..Len(e.stack) : Claim(e, e.stack[i]) = s.stack[i]
       THEN {} ELSE {"Inv_C07_Stack"})
      (* memory: every word the symbolic memory holds at a constant offset is the concrete word there, *)
      (* and every concrete word is present                                                            *)
      \cup (IF /\ \A m \in ToSet(e.memory) :
                     LET off == SmallVal(Claim(e, m[1])) IN
                     off >= 0 /\ Len(m[2]) > 0 /\ Claim(e, m[2][Len(m[2])]) = MemAt(s.mem, off)
               /\ \A off \in DOMAIN s.mem : \E m \in ToSet(e.memory) : SmallVal(Claim(e, m[1])) = off
            THEN {} ELSE {"Inv_C07_Memory"})
      (* storage: per key, exactly the writes of this path, in order *)
      \cup (IF /\ \A k \in ToSet(e.storage) :
                     LET key == Claim(e, k[1])
                         mine == Written(e, k[2])
                         conc == WritesTo(s, key) IN
                     /\ Len(mine) = Len(conc)
                     /\ \A i \in 1..Len(mine) : Claim(e, mine[i]) = conc[i][2]
               /\ \A w \in ToSet(s.writes) : \E k \in ToSet(e.storage) : Claim(e, k[1]) = w[1]
               \* one entry per key *word*: structurally different keys that denote one slot must not be kept apart
               /\ \A k1, k2 \in ToSet(e.storage) : Claim(e, k1[1]) = Claim(e, k2[1]) => k1 = k2
            THEN {} ELSE {"Inv_C07_Storage"})

(* Known ways in which the denotation fails, recognised by what the path did (see known_findings.json): *)
(*   signextend       SIGNEXTEND stores its operands under swapped field names                          *)
(*   addmod-overflow  ADDMOD / MULMOD are built as (a op b) mod n on wrapping 256-bit nodes              *)
(*   byte-huge-offset BYTE computes 0xf8 - 8 * i, which wraps for i >= 2^253                             *)
(*   key-alias        storage is keyed on the structure of the key, so 1 + 1 and 2 are different slots    *)
RECURSIVE Join(_)
Join(seq) == IF Len(seq) = 0 THEN "" ELSE "/" \o Head(seq) \o Join(Tail(seq))
Tagged(e, names) == IF Len(e.tags) = 0 THEN names ELSE {n \o Join(e.tags) : n \in names}

JudgeRec(e, s) == IF e.ev = "path" THEN Tagged(e, PathVerdict(e, s)) ELSE IF e.ev = "path-panic" THEN {"Inv_C07_Total"} ELSE {}

NoRes == [ok |-> TRUE, why |-> "", pc |-> 0, stack |-> << >>, mem |-> << >>, writes |-> << >>, halted |-> FALSE]

Init0 == /\ l = 1 /\ phase = 0 /\ res = NoRes /\ viol = << >>
         /\ cnt = [paths |-> 0, steps |-> 0, nodes |-> 0, bad |-> 0] /\ TLCSet(1, << >>) /\ TLCSet(2, cnt)

Compute ==
    /\ l <= Len(Rec) /\ phase = 0
    /\ res' = IF Rec[l].ev = "path" THEN Execute(Rec[l].code, Rec[l].steps) ELSE NoRes
    /\ phase' = 1
    /\ UNCHANGED <<l, viol, cnt>>

Judge ==
    /\ l <= Len(Rec) /\ phase = 1
    /\ l' = l + 1 /\ phase' = 0 /\ res' = NoRes
    /\ LET e == Rec[l]  f == JudgeRec(e, res) IN
       /\ viol' = IF f # {} /\ Len(SelectSeq(viol, LAMBDA v : v.inv = f)) < 6
                  THEN Append(viol, [at |-> l, inv |-> f]) ELSE viol
       /\ cnt' = [paths |-> cnt.paths + (IF e.ev = "path" THEN 1 ELSE 0),
                  steps |-> cnt.steps + (IF e.ev = "path" THEN Len(e.steps) ELSE 0),
                  nodes |-> cnt.nodes + (IF e.ev = "path" THEN Len(e.nodes) ELSE 0),
                  bad |-> cnt.bad + (IF f # {} THEN 1 ELSE 0)]
    /\ TLCSet(1, viol') /\ TLCSet(2, cnt')

Next == Compute \/ Judge

TraceSpec == Init0 /\ [][Next]_<<l, phase, res, viol, cnt>>

Matched == (TLCGet("stats").diameter - 1) \div 2
TraceAccepted ==
    /\ PrintT(<<"TRACE", ToJson([matched |-> Matched, records |-> Len(Rec), viol |-> TLCGet(1), cnt |-> TLCGet(2)])>>)
    /\ Matched = Len(Rec)
    /\ TLCGet(1) = << >>
=================================================================================
