SPECIFICATION TraceSpec
CONSTANTS
  Elem <- TElem
  Atom <- TAtom
INVARIANT TypeOK
POSTCONDITION TraceAccepted
CHECK_DEADLOCK FALSE
