------------------------------ MODULE TypeLattice ------------------------------
(***************************************************************************)
(* The typing-evidence domain of the unifier and its pairwise combination  *)
(* (C16, C15; used by Unify.tla for C14 / C02).                            *)
(*                                                                         *)
(* Evidence:  TAny | TBytes | TWord(usage, width) | TMap(k, v) |           *)
(*            DynArray(e) | FixedArray(e, n) | TConflict                    *)
(* where k, v, e are type variables.  Packed encodings are outside this    *)
(* module (they allocate fresh variables; see Unify.tla).                  *)
(*                                                                         *)
(* Merge(a, b) is written from the merge table of src/tc/unification.rs    *)
(* (the "mirror"); the laws the property demands of it - commutativity and *)
(* associativity up to conflict payloads and choice of representative -    *)
(* are stated separately and checked by TLC over the whole finite domain,  *)
(* so TLC *finds* the triples on which the design is order-dependent.      *)
(***************************************************************************)
EXTENDS Integers, FiniteSets, Sequences, TLC

Usages      == {"bytes", "numeric", "unsigned", "signed", "bool", "address", "selector", "function"}
FreeUsages  == {"bytes", "numeric", "unsigned", "signed"}
FixedWidth(u) == CASE u = "bool" -> 8 [] u = "address" -> 160 [] u = "selector" -> 32 [] u = "function" -> 192
                   [] OTHER -> 0
NoWidth == 0     \* width 0 stands for "unknown"

TAny            == [k |-> "any"]
TBytes          == [k |-> "bytes"]
TWord(u, w)     == [k |-> "word", u |-> u, w |-> w]
TMap(a, b)  == [k |-> "map", key |-> a, val |-> b]
TDyn(e)         == [k |-> "dyn", el |-> e]
TFix(e, n)    == [k |-> "fix", el |-> e, len |-> n]
TConflict       == [k |-> "conflict"]

(* usage merge table of WordUse::merge; "none" = incompatible *)
UsageMerge(a, b) ==
    IF a = b THEN a
    ELSE IF a = "bytes" THEN b
    ELSE IF b = "bytes" THEN a
    ELSE IF {a, b} = {"numeric", "unsigned"} THEN "unsigned"
    ELSE IF {a, b} = {"numeric", "signed"} THEN "signed"
    ELSE IF {a, b} = {"numeric", "address"} THEN "address"
    ELSE IF {a, b} = {"unsigned", "address"} THEN "address"
    ELSE "none"

(* A merge result: an expression plus the variable equalities it emits. *)
Res(e, eqs) == [e |-> e, eqs |-> eqs]
Eq(a, b) == {a, b}      \* an equality as an unordered pair (a singleton when a = b)

Merge(a, b) ==
    IF a = b THEN Res(a, {})
    ELSE IF a.k = "conflict" \/ b.k = "conflict" THEN Res(TConflict, {})
    ELSE IF a.k = "word" /\ b.k = "word" THEN
        IF a.w # NoWidth /\ b.w # NoWidth /\ a.w # b.w THEN Res(TConflict, {})
        ELSE IF UsageMerge(a.u, b.u) = "none" THEN Res(TConflict, {})
        ELSE Res(TWord(UsageMerge(a.u, b.u), IF a.w # NoWidth THEN a.w ELSE b.w), {})
    ELSE IF {a.k, b.k} = {"bytes", "word"} THEN
        LET w == IF a.k = "word" THEN a ELSE b IN
        IF w.u = "signed" THEN Res(TConflict, {}) ELSE Res(TBytes, {})
    ELSE IF {a.k, b.k} = {"bytes", "dyn"} THEN Res(TBytes, {})
    ELSE IF {a.k, b.k} = {"dyn", "word"} THEN
        LET w == IF a.k = "word" THEN a ELSE b
            d == IF a.k = "dyn" THEN a ELSE b IN
        IF w.u = "signed" THEN Res(TConflict, {}) ELSE Res(d, {})
    ELSE IF a.k = "dyn" /\ b.k = "dyn" THEN Res(a, {Eq(a.el, b.el)})
    ELSE IF a.k = "fix" /\ b.k = "fix" THEN
        IF a.len = b.len THEN Res(a, {Eq(a.el, b.el)}) ELSE Res(TConflict, {})
    ELSE IF a.k = "map" /\ b.k = "map" THEN Res(a, {Eq(a.key, b.key), Eq(a.val, b.val)})
    ELSE IF b.k = "any" THEN Res(a, {})
    ELSE IF a.k = "any" THEN Res(b, {})
    ELSE Res(TConflict, {})

(* Combining a result with a further piece of evidence. *)
MergeR(r, c) == LET m == Merge(r.e, c) IN Res(m.e, r.eqs \cup m.eqs)
MergeL(c, r) == LET m == Merge(c, r.e) IN Res(m.e, r.eqs \cup m.eqs)

------------------------------------------------------------------------------
(* Normalisation: conflict payloads are already dropped; variables are       *)
(* replaced by the least member of their class under the emitted equalities. *)

RECURSIVE Close(_, _)
Close(S, eqs) ==   \* the class of the variables in S under eqs
    LET T == S \cup UNION {p \in eqs : p \cap S # {}} IN IF T = S THEN S ELSE Close(T, eqs)

Rep(v, eqs) == LET c == Close({v}, eqs) IN CHOOSE m \in c : \A x \in c : m <= x

NormE(e, eqs) ==
    CASE e.k = "map" -> TMap(Rep(e.key, eqs), Rep(e.val, eqs))
      [] e.k = "dyn" -> TDyn(Rep(e.el, eqs))
      [] e.k = "fix" -> TFix(Rep(e.el, eqs), e.len)
      [] OTHER -> e

Vars(eqs) == UNION eqs
Partition(eqs) == {Close({v}, eqs) : v \in Vars(eqs)} \ {c \in {Close({v}, eqs) : v \in Vars(eqs)} : Cardinality(c) < 2}

Norm(r) == [e |-> NormE(r.e, r.eqs), classes |-> Partition(r.eqs)]

Commutes(a, b)   == Norm(Merge(a, b)) = Norm(Merge(b, a))
Assoc(a, b, c)   == Norm(MergeR(Merge(a, b), c)) = Norm(MergeL(a, Merge(b, c)))

------------------------------------------------------------------------------
(* The two known families of grouping-dependence (known findings of C16).    *)
(*  A. an absorbing constructor (TBytes / DynArray) met by two words that     *)
(*     conflict with each other: the constructor either survives or not.     *)
(*  B. both groupings give the same conflict (or the same absorbing Bytes),  *)
(*     but only one emitted the component equalities before the constructors *)
(*     were absorbed.                                                        *)
Absorbing(x) == x.k \in {"bytes", "dyn"}
FamilyA(a, b, c) ==
    \E x \in {a, b, c} : Absorbing(x) /\
        LET rest == <<a, b, c>> IN
        {Norm(MergeR(Merge(a, b), c)).e.k, Norm(MergeL(a, Merge(b, c))).e.k} = {"conflict", x.k}
FamilyB(a, b, c) ==
    /\ Norm(MergeR(Merge(a, b), c)).e = Norm(MergeL(a, Merge(b, c))).e
    /\ Norm(MergeR(Merge(a, b), c)).e.k \in {"conflict", "bytes"}
    /\ Norm(MergeR(Merge(a, b), c)).classes # Norm(MergeL(a, Merge(b, c))).classes

------------------------------------------------------------------------------
(* Specificity order (C15): x [= y, "y says at least as much as x".          *)
UsageLeq(a, b) == a = b \/ UsageMerge(a, b) = b

Leq(x, y) ==
    \/ x = y
    \/ x.k = "any"
    \/ (x.k = "word" /\ y.k = "word" /\ UsageLeq(x.u, y.u) /\ (x.w = NoWidth \/ x.w = y.w))
    \/ y.k = "conflict"

(* Plainly contradictory pairs: the result must be a conflict, not a choice. *)
Contradictory(x, y) ==
    \/ (x.k = "word" /\ y.k = "word" /\
         ((x.w # NoWidth /\ y.w # NoWidth /\ x.w # y.w) \/ UsageMerge(x.u, y.u) = "none"))
    \/ {x.k, y.k} \in {{"map", "dyn"}, {"map", "fix"}, {"dyn", "fix"}}
    \/ (x.k = "map" /\ y.k = "word" /\ y.w # NoWidth)
    \/ (y.k = "map" /\ x.k = "word" /\ x.w # NoWidth)
    \/ (x.k = "fix" /\ y.k = "fix" /\ x.len # y.len)
================================================================================
