------------------------------- MODULE StackMC -------------------------------
(* Every history of up to MaxOps calls over a tiny value alphabet and capacity: the stack never exceeds its   *)
(* capacity, a failing call leaves it unchanged, a successful Push/Dup grows it by one, Pop returns what the   *)
(* last unmatched Push put there (LIFO), Swap twice is the identity.                                          *)
EXTENDS Stack, TLC

CONSTANTS Vals, MaxOps, MaxFrame

VARIABLES n, prev, last      \* calls so far; the stack before the last call; the last call

vars == <<stk, res, n, prev, last>>

Init == SInit /\ n = 0 /\ prev = << >> /\ last = [op |-> "init", a |-> 0]

Step(op, a, A) == /\ n < MaxOps /\ n' = n + 1 /\ prev' = stk /\ last' = [op |-> op, a |-> a] /\ A

Next == \/ \E x \in Vals : Step("push", x, Push(x))
        \/ Step("pop", 0, Pop)
        \/ \E d \in 0..MaxFrame : Step("read", d, Read(d))
        \/ \E f \in 0..MaxFrame : Step("dup", f, Dup(f))
        \/ \E f \in 0..MaxFrame : Step("swap", f, Swap(f))

Spec == Init /\ [][Next]_vars

Failed == res.k \in {"underflow", "overflow"}

Inv_FailUnchanged == Failed => stk = prev
Inv_Grow == (~Failed /\ last.op \in {"push", "dup"}) => Len(stk) = Len(prev) + 1
Inv_Shrink == (~Failed /\ last.op = "pop") => (Len(stk) = Len(prev) - 1 /\ res.v = prev[Len(prev)])
Inv_PushTop == (~Failed /\ last.op = "push") => stk[Len(stk)] = last.a
Inv_DupTop == (~Failed /\ last.op = "dup") => stk[Len(stk)] = prev[Len(prev) - last.a]
Inv_SwapPerm == (~Failed /\ last.op = "swap") =>
                    /\ Len(stk) = Len(prev)
                    /\ stk[Len(stk)] = prev[Len(prev) - last.a] /\ stk[Len(stk) - last.a] = prev[Len(prev)]
                    /\ \A i \in 1..Len(stk) : (i # Len(stk) /\ i # Len(stk) - last.a) => stk[i] = prev[i]
Inv_Demand == /\ (last.op = "push" /\ Len(prev) = Cap) => res.k = "overflow"
              /\ (last.op = "pop" /\ Len(prev) = 0) => res.k = "underflow"
              /\ (last.op \in {"read", "swap"} /\ last.a >= Len(prev)) => res.k = "underflow"
              /\ (last.op = "dup" /\ (last.a >= Len(prev) \/ Len(prev) = Cap)) => Failed
==============================================================================
