-------------------------------- MODULE PipelineMC --------------------------------
(* The typestate itself: every behaviour ends in a terminal state after at most 5 calls. *)
EXTENDS Pipeline
Init == done = 0 /\ outcome = "running"
Next == \E i \in 1..5 : StageOk(Stages[i]) \/ StageErr(Stages[i])
Spec == Init /\ [][Next]_pvars
TypeOK == done \in 0..5 /\ outcome \in {"running", "layout", "error"}
LayoutOnlyAtEnd == outcome = "layout" <=> done = 5
NoStuck == (~ENABLED Next) => Terminal
===================================================================================
