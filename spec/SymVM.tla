-------------------------------- MODULE SymVM --------------------------------
(***************************************************************************)
(* The symbolic virtual machine of src/vm/mod.rs as a scheduler of threads *)
(* (C03, C08, C17; the main-loop part of C13).                             *)
(*                                                                         *)
(* One action per critical section of VM::execute:                         *)
(*   Operand(w)          validate_jump_destination looked at its operand   *)
(*   Fork(t, c, target)  fork_current_thread                               *)
(*   StoreErr(k, loc)    store_error called by an opcode (JUMPI's arm)     *)
(*   Exec(t, o)          one instruction executed, error policy applied    *)
(*   Advance(t, ip, nx)  advance(): step on, or retire the thread          *)
(*   Finish(ok, es)      execute() returned                                *)
(* Every action takes as parameters everything the implementation decides  *)
(* (outcome of the instruction, whether an error was recorded, whether the *)
(* thread steps on ...).  The actions only *build the state*; what the     *)
(* properties demand is stated separately as invariants over that state,   *)
(* and refers to the code bytes and limits, not to the tool's own labels:  *)
(* this is the "envelope".  SymVMMC.tla adds the "mirror", which chooses   *)
(* the parameters the way the implementation does, so that TLC can explore *)
(* the design; SymVMTrace.tla takes them from recorded events.             *)
(***************************************************************************)
EXTENDS DisasmLib, FiniteSets

VARIABLES
    cfg,     \* [code, kinds, len, jd, L, F, G, permissive]: fixed during a run
    thr,     \* live threads: tid -> thread record
    retired, \* number of threads whose state has been stored
    forks,   \* jump destination -> conditional forks taken to it
    created, \* threads ever created
    errs,    \* the VM's error buffer, as a bag: [kind, loc] -> count
    pend,    \* what happened inside the instruction being executed
    chk,     \* verdicts on the step just taken, one boolean per demand
    fin      \* "run" | "ok" | "err"

vars == <<cfg, thr, retired, forks, created, errs, pend, chk, fin>>

MaxStack == 1024

NoWord == << >>

(* The value of a 32-byte big-endian word if it is below 2^24, else -1.  Code *)
(* is at most 24 KiB, so anything else cannot be an offset into it.           *)
WordVal(w) ==
    IF w = NoWord THEN -1
    ELSE IF \A i \in 1..29 : w[i] = 0 THEN w[30] * 65536 + w[31] * 256 + w[32] ELSE -1

MkCfg(code, l, f, g, perm) ==
    LET d == Disassemble(code).out IN
    [code |-> code, kinds |-> [i \in 1..Len(d) |-> d[i].k], len |-> Len(code),
     jd |-> {i - 1 : i \in {j \in 1..Len(d) : d[j].k = "jumpdest"}},
     L |-> l, F |-> f, G |-> g, permissive |-> perm]

KindAt(off) == cfg.kinds[off + 1]
OpAt(off)   == cfg.code[off + 1]

(* Stack effect of the entry at `off`: immediates, truncated pushes and      *)
(* invalid bytes touch nothing.                                              *)
PopsAt(off)   == IF KindAt(off) \in {"imm", "trunc", "invalid"} THEN 0 ELSE Pops(OpAt(off))
PushesAt(off) == IF KindAt(off) \in {"imm", "trunc", "invalid"} THEN 0 ELSE Pushes(OpAt(off))

(* Does the EVM end the path after the entry at `off`? *)
HaltsAt(off) == KindAt(off) \in {"trunc", "invalid"} \/ (KindAt(off) = "op" /\ OpAt(off) \in Halting)

IsJumpAt(off)  == KindAt(off) = "op" /\ OpAt(off) = JUMP
IsJumpIAt(off) == KindAt(off) = "op" /\ OpAt(off) = JUMPI

ValidTarget(w) == WordVal(w) \in cfg.jd

NoPend == [operand |-> NoWord, looked |-> FALSE, forked |-> -1, stored |-> 0]

AllGood == [c03_visits |-> TRUE, c03_forks |-> TRUE, c03_threads |-> TRUE, c03_gas |-> TRUE,
            c03_account |-> TRUE, c03_halts |-> TRUE,
            c08_edge |-> TRUE, c08_halt |-> TRUE, c08_both |-> TRUE, c08_retire |-> TRUE,
            c17_demand |-> TRUE, c17_policy |-> TRUE, c17_located |-> TRUE, c17_finish |-> TRUE,
            conform |-> TRUE]

Bump(v, off) == [v EXCEPT ![off + 1] = @ + 1]
VisitsOf(t, off) == thr[t].visits[off + 1]

BagAdd(b, x) == IF x \in DOMAIN b THEN [b EXCEPT ![x] = @ + 1] ELSE b @@ (x :> 1)
BagSize(b) == LET RECURSIVE S(_) S(D) == IF D = {} THEN 0 ELSE LET x == CHOOSE x \in D : TRUE IN b[x] + S(D \ {x})
              IN S(DOMAIN b)

NewThread(pc, visits, gas, depth) ==
    [pc |-> pc, st |-> "ready", visits |-> visits, gas |-> gas, gasBefore |-> gas, depth |-> depth,
     lastOk |-> TRUE, lastHalts |-> FALSE, lastOff |-> -1, operand |-> NoWord, looked |-> FALSE,
     forked |-> -1, demandErr |-> FALSE, cs |-> << >>]

(* What the specification itself knows about the operand stack of a thread: for every item either the     *)
(* constant it must be (below 2^24: anything else cannot be an offset into the code) or Unk.  Computed     *)
(* from the code bytes along the executed path - PUSH immediates, PC, CODESIZE, DUP / SWAP / POP and sums,  *)
(* differences and products of known items - so that the target of a jump whose operand the code computes *)
(* (PC-relative jumps, jump tables) is known independently of what the tool says it found.                 *)
Unk == -1
Cap(v) == IF v >= 0 /\ v < 16777216 THEN v ELSE Unk
RECURSIVE ImmVal(_, _, _)
ImmVal(off, n, acc) == IF acc = Unk \/ n = 0 THEN acc ELSE ImmVal(off + 1, n - 1, IF acc > 65535 THEN Unk ELSE acc * 256 + cfg.code[off + 1])
AbsStep(cs, off) ==
    LET b == OpAt(off)
        n == Len(cs)
        at(k) == IF k <= n THEN cs[n - k + 1] ELSE Unk
        drop(k) == SubSeq(cs, 1, IF n >= k THEN n - k ELSE 0)
        x == at(1)
        y == at(2)
    IN CASE KindAt(off) = "push" -> Append(cs, ImmVal(off + 1, PushLen(b), 0))
         [] KindAt(off) # "op" -> cs
         [] b = PUSH0 -> Append(cs, 0)
         [] b = PC -> Append(cs, Cap(off))
         [] b = CODESIZE -> Append(cs, Cap(cfg.len))
         [] b \in 128..143 -> Append(cs, at(b - 127))
         [] b \in 144..159 -> LET k == b - 143 IN IF n >= k + 1 THEN [cs EXCEPT ![n] = cs[n - k], ![n - k] = cs[n]] ELSE cs
         [] b = POP -> drop(1)
         [] b = ADD -> Append(drop(2), IF x >= 0 /\ y >= 0 THEN Cap(x + y) ELSE Unk)
         [] b = SUB -> Append(drop(2), IF x >= 0 /\ y >= 0 THEN Cap(x - y) ELSE Unk)
         [] b = MUL -> Append(drop(2), IF x >= 0 /\ y >= 0 THEN (IF x = 0 \/ y = 0 THEN 0 ELSE IF y <= 16777215 \div x THEN Cap(x * y) ELSE Unk) ELSE Unk)
         [] OTHER -> drop(PopsAt(off)) \o [i \in 1..PushesAt(off) |-> Unk]
AbsTop(cs) == IF Len(cs) >= 1 THEN cs[Len(cs)] ELSE Unk

Start(code, l, f, g, perm) ==
    /\ cfg' = MkCfg(code, l, f, g, perm)
    /\ thr' = (0 :> NewThread(0, [i \in 1..Len(code) |-> 0], 0, 0))
    /\ retired' = 0
    /\ forks' = [i \in 1..Len(code) |-> 0]
    /\ created' = 1
    /\ errs' = << >>
    /\ pend' = NoPend
    /\ chk' = AllGood
    /\ fin' = "run"

------------------------------------------------------------------------------
(* Actions *)

Operand(w) ==
    /\ pend' = [pend EXCEPT !.operand = w, !.looked = TRUE]
    /\ chk' = AllGood
    /\ UNCHANGED <<cfg, thr, retired, forks, created, errs, fin>>

(* The current thread t forks child c at `target` while executing its JUMPI. *)
Fork(t, c, target, reported) ==
    LET p == thr[t] IN
    /\ t \in DOMAIN thr /\ c \notin DOMAIN thr
    /\ thr' = thr @@ (c :> [NewThread(target, Bump(p.visits, p.pc), p.gas, p.depth - 2)
                               EXCEPT !.cs = SubSeq(p.cs, 1, IF Len(p.cs) >= 2 THEN Len(p.cs) - 2 ELSE 0)])
    /\ forks' = [forks EXCEPT ![target + 1] = @ + 1]
    /\ created' = created + 1
    /\ pend' = [pend EXCEPT !.forked = target]
    /\ chk' = [AllGood EXCEPT
                 \* C03: at most F forks per destination; thread population bound
                 !.c03_forks   = forks[target + 1] + 1 <= cfg.F,
                 !.c03_threads = created + 1 <= 1 + cfg.F * Cardinality(cfg.jd),
                 \* C08: only a JUMPI forks, and only to the JUMPDEST its full 256-bit operand names
                 !.c08_edge    = /\ p.st = "ready" /\ IsJumpIAt(p.pc)
                                 /\ WordVal(pend.operand) = target /\ target \in cfg.jd,
                 !.conform     = reported = forks[target + 1] + 1]
    /\ UNCHANGED <<cfg, retired, errs, fin>>

IsStackErr(t) == LET p == thr[t] IN
    \/ p.depth < PopsAt(p.pc)
    \/ p.depth - PopsAt(p.pc) + PushesAt(p.pc) > MaxStack

(* A jump whose operand is a constant that does not name a JUMPDEST, or (for JUMPI) is not a constant. *)
BadJumpAt(t) == LET p == thr[t] IN
    /\ ~IsStackErr(t)
    /\ \/ IsJumpAt(p.pc) /\ pend.looked /\ pend.operand # NoWord /\ ~ValidTarget(pend.operand)
       \/ IsJumpIAt(p.pc) /\ pend.looked /\ ~ValidTarget(pend.operand)

StoreErr(t, kind, loc) ==
    /\ errs' = BagAdd(errs, [kind |-> kind, loc |-> loc])
    /\ pend' = [pend EXCEPT !.stored = @ + 1]
    /\ chk' = [AllGood EXCEPT
                 !.c17_located = loc < cfg.len,
                 \* permissive mode never records a bad jump target
                 !.c17_policy  = ~(cfg.permissive /\ t \in DOMAIN thr /\ BadJumpAt(t))]
    /\ UNCHANGED <<cfg, thr, retired, forks, created, fin>>

(* o = [ip, ok, kind, loc, recorded, cost, gasAfter, visits, depth] *)
Exec(t, o) ==
    LET p    == thr[t]
        off  == p.pc
        gas2 == IF o.ok THEN p.gas + o.cost ELSE p.gas
        v2   == Bump(p.visits, off)
        serr == IsStackErr(t)
        badj == BadJumpAt(t)
        anyRecorded == o.recorded \/ pend.stored > 0
    IN
    /\ t \in DOMAIN thr
    /\ thr' = [thr EXCEPT ![t] =
                 [p EXCEPT !.st = "executed", !.visits = v2, !.gasBefore = p.gas, !.gas = gas2,
                           !.depth = IF o.ok THEN p.depth - PopsAt(off) + PushesAt(off) ELSE p.depth,
                           !.cs = IF o.ok THEN AbsStep(p.cs, off) ELSE p.cs,
                           !.lastOk = o.ok, !.lastHalts = HaltsAt(off), !.lastOff = off,
                           !.operand = pend.operand, !.looked = pend.looked, !.forked = pend.forked]]
    /\ errs' = IF o.recorded THEN BagAdd(errs, [kind |-> o.kind, loc |-> o.loc]) ELSE errs
    /\ pend' = NoPend
    /\ chk' = [AllGood EXCEPT
                 !.conform     = p.st = "ready" /\ o.ip = off /\ o.gasAfter = gas2 /\ o.visits = v2[off + 1],
                 \* C03: never more than L executions of one instruction in one thread;
                 \*      no instruction is executed by a thread already beyond the gas limit
                 !.c03_visits  = v2[off + 1] <= cfg.L,
                 !.c03_gas     = p.gas <= cfg.G,
                 !.c03_account = o.ok => o.gasAfter = p.gas + o.cost,
                 \* C08: the constant a jump finds for its target is the one the code computes (where the
                 \* specification can tell from the code bytes: AbsStep)
                 !.c08_edge    = ((IsJumpAt(off) \/ IsJumpIAt(off)) /\ AbsTop(p.cs) >= 0 /\ pend.looked /\ pend.operand # NoWord)
                                     => WordVal(pend.operand) = AbsTop(p.cs),
                 \* C17: errors the semantics demand are raised ...
                 !.c17_demand  = /\ serr => (~o.ok /\ o.recorded)
                                 /\ (badj /\ ~cfg.permissive) => anyRecorded
                                 /\ (badj /\ IsJumpAt(off)) => ~o.ok
                                 \* ... and an instruction that succeeds leaves the stack as deep as the EVM's table says
                                 \* (or the next under- or overflow is detected at the wrong place)
                                 /\ o.ok => o.depth = p.depth - PopsAt(off) + PushesAt(off),
                 \* ... every raised error is recorded, except bad jump targets in permissive mode,
                 \* which never are
                 !.c17_policy  = /\ (~o.ok /\ ~(cfg.permissive /\ badj)) => o.recorded
                                 /\ (cfg.permissive /\ badj) => ~anyRecorded,
                 !.c17_located = ~o.ok => o.loc < cfg.len,
                 \* C08: an instruction only fails (which ends the path) for a reason the EVM gives: a stack
                 \* error, or a JUMP to a constant that is no JUMPDEST.  In particular a JUMPI with a bad
                 \* target never fails: its fall-through outcome remains to be explored.
                 !.c08_retire  = ~o.ok => (serr \/ (badj /\ IsJumpAt(off)) \/ o.kind = "StoppedByWatchdog")]
    /\ UNCHANGED <<cfg, retired, forks, created, fin>>

(* advance(): the thread's pointer is `ip` (it differs from the executed offset after a JUMP);  *)
(* nx >= 0: step to nx; nx = -1: retire.  gasErr: a gas-limit error was recorded.              *)
Advance(t, ip, nx, gasErr) ==
    LET p      == thr[t]
        off    == p.lastOff
        landed == ip # off
        unresolvedJump == IsJumpAt(off) /\ p.lastOk /\ p.looked /\ p.operand = NoWord
        mustEnd == p.lastHalts \/ ~p.lastOk \/ unresolvedJump
        oob    == ip + 1 >= cfg.len
        limit  == ~oob /\ p.visits[ip + 2] >= cfg.L
        overGas == p.gas > cfg.G
        jumpiOk == IsJumpIAt(off) /\ p.lastOk /\ ValidTarget(p.operand)
        tgt    == WordVal(p.operand)
    IN
    /\ t \in DOMAIN thr
    /\ IF nx >= 0
       THEN /\ thr' = [thr EXCEPT ![t] = [p EXCEPT !.pc = nx, !.st = "ready"]]
            /\ retired' = retired
       ELSE /\ thr' = [x \in DOMAIN thr \ {t} |-> thr[x]]
            /\ retired' = retired + 1
    /\ errs' = IF gasErr THEN BagAdd(errs, [kind |-> "GasLimitExceeded", loc |-> ip]) ELSE errs
    /\ pend' = NoPend
    /\ chk' = [AllGood EXCEPT
                 !.conform  = p.st = "executed",
                 \* C08: the pointer only moves by a JUMP whose full 256-bit operand names a JUMPDEST
                 !.c08_edge = /\ landed => (IsJumpAt(off) /\ p.lastOk /\ WordVal(p.operand) = ip /\ ip \in cfg.jd)
                              /\ (IsJumpAt(off) /\ p.lastOk /\ ValidTarget(p.operand)) => ip = WordVal(p.operand)
                              /\ nx >= 0 => (nx = ip + 1 /\ nx < cfg.len),
                 \* C08: nothing is executed after a halting instruction, an error, or an unresolved JUMP
                 !.c08_halt = nx >= 0 => ~mustEnd,
                 \* C03: no thread continues once its gas exceeds the limit
                 !.c03_gas  = nx >= 0 => ~overGas,
                 \* C08: a path is only abandoned for a reason the limits give
                 !.c08_retire = nx < 0 => (mustEnd \/ oob \/ limit \/ overGas),
                 \* C08: both outcomes of a conditional jump are explored while the limits allow
                 !.c08_both = jumpiOk =>
                                (p.forked = tgt \/ forks[tgt + 1] >= cfg.F \/ p.visits[tgt + 1] >= cfg.L),
                 \* C17: running out of gas is an error in both modes
                 !.c17_demand = (nx < 0 /\ overGas) => gasErr,
                 !.c17_located = gasErr => ip < cfg.len]
    /\ UNCHANGED <<cfg, forks, created, fin>>

(* execute() returned: ok, or the list of errors es (a sequence of [kind, loc]). *)
Finish(ok, es, stopped) ==
    LET bag == LET RECURSIVE B(_, _) B(i, acc) == IF i > Len(es) THEN acc ELSE B(i + 1, BagAdd(acc, es[i]))
               IN B(1, << >>)
    IN
    /\ fin' = IF ok THEN "ok" ELSE "err"
    /\ chk' = [AllGood EXCEPT
                 \* C03: execution stops by itself with every thread retired (unless the watchdog stopped it)
                 !.c03_halts  = stopped \/ DOMAIN thr = {},
                 \* C17: fails iff an error was recorded, and lists exactly the recorded errors
                 !.c17_finish = stopped \/ (/\ ok = (BagSize(errs) = 0)
                                            /\ (~ok) => bag = errs),
                 !.c17_located = \A i \in 1..Len(es) : es[i].loc < cfg.len]
    /\ UNCHANGED <<cfg, thr, retired, forks, created, errs, pend>>

------------------------------------------------------------------------------
(* The listed properties as invariants over `chk` (evaluated in every state). *)

Inv_C03_Visits  == chk.c03_visits
Inv_C03_Forks   == chk.c03_forks
Inv_C03_Threads == chk.c03_threads
Inv_C03_Gas     == chk.c03_gas /\ chk.c03_account
Inv_C03_Halts   == chk.c03_halts
Inv_C08_Edge    == chk.c08_edge
Inv_C08_Halt    == chk.c08_halt
Inv_C08_Both    == chk.c08_both /\ chk.c08_retire
Inv_C17_Demand  == chk.c17_demand
Inv_C17_Policy  == chk.c17_policy
Inv_C17_Located == chk.c17_located
Inv_C17_Finish  == chk.c17_finish
Conform         == chk.conform

Failing(c) ==
    (IF c.c03_visits THEN {} ELSE {"Inv_C03_Visits"}) \cup (IF c.c03_forks THEN {} ELSE {"Inv_C03_Forks"})
    \cup (IF c.c03_threads THEN {} ELSE {"Inv_C03_Threads"})
    \cup (IF c.c03_gas /\ c.c03_account THEN {} ELSE {"Inv_C03_Gas"})
    \cup (IF c.c03_halts THEN {} ELSE {"Inv_C03_Halts"})
    \cup (IF c.c08_edge THEN {} ELSE {"Inv_C08_Edge"}) \cup (IF c.c08_halt THEN {} ELSE {"Inv_C08_Halt"})
    \cup (IF c.c08_both /\ c.c08_retire THEN {} ELSE {"Inv_C08_Both"})
    \cup (IF c.c17_demand THEN {} ELSE {"Inv_C17_Demand"}) \cup (IF c.c17_policy THEN {} ELSE {"Inv_C17_Policy"})
    \cup (IF c.c17_located THEN {} ELSE {"Inv_C17_Located"}) \cup (IF c.c17_finish THEN {} ELSE {"Inv_C17_Finish"})
    \cup (IF c.conform THEN {} ELSE {"Conform"})
==============================================================================
