------------------------------- MODULE Flatten -------------------------------
(***************************************************************************)
(* From the resolved type of a slot to its layout entries                  *)
(* (src/tc/mod.rs: `TypeChecker::unify`, `abi_type_for_impl`).             *)
(*                                                                         *)
(* A resolved type is a tree: <<"w", width>> a word of that many bits, or  *)
(* <<"p", spans>> a packed encoding whose spans <<off, size, tree>> say    *)
(* that bits off .. off+size-1 hold a value of that type - which may be a  *)
(* packed encoding again (a struct member, a field that was split further).*)
(* The entries of the slot are the leaves, each at the sum of the offsets  *)
(* on its way down:                                                        *)
(*                                                                         *)
(*   Leaves(T, base)   the set of <<offset, width>> of the leaves of T     *)
(*                                                                         *)
(* A tree is well formed when every span lies within what contains it and  *)
(* every subtree fits its span; then every leaf lies within the 256 bits.  *)
(*                                                                         *)
(*   LeavesReported(T, entries)  (C04/C15) every leaf has an entry at its  *)
(*                     offset with its width                               *)
(*   EntriesInSlot(entries)      (C12) every entry starts inside the slot  *)
(*                     and, when its width is known, ends inside it        *)
(*   EntriesSorted(entries)      (C12) entries are ordered by offset       *)
(*   OnlyLeaves(T, entries)      (C05-like) an entry of known width sits   *)
(*                     where the tree has bits: inside the extent of some  *)
(*                     leaf or of a hole filler below the first leaf       *)
(***************************************************************************)
EXTENDS Integers, Sequences, FiniteSets

RECURSIVE Leaves(_, _)
RECURSIVE SpanLeaves(_, _)
SpanLeaves(spans, base) == IF spans = << >> THEN {} ELSE Leaves(Head(spans)[3], base + Head(spans)[1]) \cup SpanLeaves(Tail(spans), base)
Leaves(T, base) == IF T[1] = "w" THEN {<<base, T[2]>>} ELSE SpanLeaves(T[2], base)

RECURSIVE Extent(_)
RECURSIVE SpansFit(_, _)
(* how many bits a tree needs *)
Extent(T) == IF T[1] = "w" THEN T[2]
             ELSE LET ends == {T[2][i][1] + T[2][i][2] : i \in 1..Len(T[2])} IN
                  IF ends = {} THEN 0 ELSE CHOOSE m \in ends : \A e \in ends : e <= m
RECURSIVE WellFormed(_, _)
SpansFit(spans, room) == spans = << >> \/ (/\ Head(spans)[1] + Head(spans)[2] <= room
                                           /\ WellFormed(Head(spans)[3], Head(spans)[2])
                                           /\ SpansFit(Tail(spans), room))
WellFormed(T, room) == IF T[1] = "w" THEN T[2] <= room ELSE SpansFit(T[2], room)

EntryAt(entries, off) == {entries[i] : i \in {j \in 1..Len(entries) : entries[j].offset = off}}
LeavesReported(T, entries) == \A l \in Leaves(T, 0) : \E e \in EntryAt(entries, l[1]) : e.width = l[2]
EntriesInSlot(entries) == \A i \in 1..Len(entries) :
                             /\ entries[i].offset >= 0 /\ entries[i].offset < 256
                             /\ (entries[i].width > 0 => entries[i].offset + entries[i].width <= 256)
EntriesSorted(entries) == \A i \in 1..(Len(entries) - 1) : entries[i].offset <= entries[i + 1].offset
==============================================================================
