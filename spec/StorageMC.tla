------------------------------ MODULE StorageMC ------------------------------
(* Every history of up to MaxOps calls over two keys and two plain values: histories only ever grow at the   *)
(* end, a store appends exactly the value stored, a load changes nothing but the history of a key that had  *)
(* none, and what a load returns denotes the last value of the key's history.                                *)
EXTENDS Storage, TLC

CONSTANTS KeySet, ValSet, MaxOps

VARIABLES n, prev, last

vars == <<sto, sres, n, prev, last>>

Plain(x) == <<"p", x, << >> >>
(* values that can be stored: plain ones, and whatever the last load returned *)
Storable == {Plain(x) : x \in ValSet} \cup (IF last.op = "load" THEN {sres} ELSE {})

Init == StInit /\ n = 0 /\ prev = << >> /\ last = [op |-> "init", k |-> "", v |-> None]

Step(op, k, v, A) == /\ n < MaxOps /\ n' = n + 1 /\ prev' = sto /\ last' = [op |-> op, k |-> k, v |-> v] /\ A

Next == \/ \E k \in KeySet, v \in Storable : Step("store", k, v, Store(k, v))
        \/ \E k \in KeySet : Step("load", k, None, Load(k))
        \/ \E k \in KeySet : Step("generations", k, None, Generations(k))
        \/ Step("keys", "", None, Keys)

Spec == Init /\ [][Next]_vars

Inv_AppendOnly == \A k \in DOMAIN prev : k \in DOMAIN sto /\ IsPrefix(prev[k], sto[k])
Inv_StoreAppends == last.op = "store" =>
                        /\ Last(sto[last.k]) = last.v
                        /\ Len(sto[last.k]) = (IF last.k \in DOMAIN prev THEN Len(prev[last.k]) ELSE 0) + 1
                        /\ \A k \in DOMAIN sto \ {last.k} : k \in DOMAIN prev /\ sto[k] = prev[k]
Inv_LoadRemembers == last.op = "load" =>
                        /\ last.k \in DOMAIN sto
                        /\ (last.k \in DOMAIN prev => sto = prev)
                        /\ (last.k \notin DOMAIN prev => sto[last.k] = <<Unwritten(last.k)>>)
                        /\ sres[1] = "l"
                        /\ (Last(sto[last.k])[1] # "l" => sres = <<"l", last.k, Last(sto[last.k])>>)
Inv_ReadOnly == last.op \in {"generations", "keys"} => sto = prev
Inv_NonEmpty == \A k \in DOMAIN sto : Len(sto[k]) >= 1
==============================================================================
