------------------------------ MODULE LiftGen ------------------------------
(* Generator of word-level terms for the lifting passes (replayed by harness `lift-replay`, judged by        *)
(* LiftTrace.tla).  One CASE line per term:                                                                  *)
(*   read   field reads: a value moved down by n (four ways of writing the move) and masked to len bits at   *)
(*          off, mask on either side of the AND; in-place masks; both nested once.  Includes positions that  *)
(*          leave the word (n + off + len > 256), where nothing may be lifted beyond the word (C12).         *)
(*   write  packed writes of 1..3 fields, every field masked then moved up by a multiplication (the form the *)
(*          tool recovers for write-only fields) or moved then masked in place; either all fields OR-ed      *)
(*          (left- or right-nested) into a fresh word, or a read-modify-write of what the slot held, field   *)
(*          after field.                                                                                     *)
EXTENDS Integers, Sequences, TLC, Json

CONSTANT Full     \* the thorough tier: more offsets and widths, also ones that are not whole bytes

Offs == {0, 8, 16, 96, 128, 160, 248} \cup (IF Full THEN {1, 7, 24, 32, 64, 200, 255} ELSE {})
Lens == {1, 8, 16, 96, 128, 160, 248, 256} \cup (IF Full THEN {2, 7, 9, 24, 32, 64, 255} ELSE {})
ShrForms == {"shr", "divlit", "divexp", "divshl"}
Sides == {"L", "R"}

X(i) == <<"x", i>>

Reads ==
    {<<"and", <<"shr", X("a"), n, f>>, 0, l, sd>> : n \in Offs, l \in Lens \ {256}, f \in ShrForms, sd \in Sides}
    \cup {<<"and", X("a"), o, l, sd>> : o \in Offs, l \in Lens, sd \in Sides}
    \cup {<<"and", <<"shr", X("a"), n, "shr">>, o, l, "R">> : n \in {8, 128, 248}, o \in {8, 128}, l \in {8, 120, 128}}
    \cup {<<"and", <<"shr", <<"and", <<"shr", X("a"), n, "shr">>, 0, l, "R">>, m, "shr">>, 0, k, "R">> :
              n \in {0, 16, 128}, l \in {32, 128}, m \in {0, 8, 16}, k \in {8, 16}}
    \cup {<<"and", <<"shr", X("a"), n, f>>, 0, 8, "R">> : n \in {255, 256, 257, 300}, f \in {"shr", "divexp", "divshl"}}

(* layouts of a packed word: sequences of <<off, len>> that do not overlap *)
Layouts == {<<<<0, 8>>>>, <<<<0, 160>>>>, <<<<8, 8>>>>, <<<<160, 96>>>>, <<<<248, 8>>>>,
            <<<<0, 128>>, <<128, 128>>>>, <<<<0, 160>>, <<160, 8>>>>, <<<<8, 16>>, <<32, 64>>>>, <<<<0, 8>>, <<248, 8>>>>,
            <<<<0, 8>>, <<8, 8>>, <<16, 8>>>>, <<<<0, 160>>, <<160, 64>>, <<224, 32>>>>, <<<<16, 16>>, <<64, 64>>, <<192, 64>>>>}
Styles == {"mask-mul", "shl-mask"}
Names == <<"a", "b", "c">>

Field(i, fl, st) ==
    IF st = "mask-mul" THEN <<"shl", <<"and", X(Names[i]), 0, fl[2], "R">>, fl[1], "mullit">>
    ELSE <<"and", <<"shl", X(Names[i]), fl[1], "shl">>, fl[1], fl[2], "L">>

RECURSIVE OrLeft(_), OrRight(_)
OrLeft(ts) == IF Len(ts) = 1 THEN ts[1] ELSE <<"or", OrLeft(SubSeq(ts, 1, Len(ts) - 1)), ts[Len(ts)]>>
OrRight(ts) == IF Len(ts) = 1 THEN ts[1] ELSE <<"or", ts[1], OrRight(Tail(ts))>>

(* read-modify-write the way compilers emit it, field after field: clear the field in what the word holds so *)
(* far, then OR the new field in (on the left or on the right of the OR)                                    *)
RECURSIVE Update(_, _, _, _, _)
Update(T, lay, i, st, nest) ==
    IF i > Len(lay) THEN T
    ELSE LET cleared == <<"keep", T, lay[i][1], lay[i][2], "R">>
             f == Field(i, lay[i], st)
         IN Update(IF nest = "left" THEN <<"or", cleared, f>> ELSE <<"or", f, cleared>>, lay, i + 1, st, nest)

Write(lay, st, nest, old) ==
    LET fs == [i \in 1..Len(lay) |-> Field(i, lay[i], st)]
    IN IF old THEN Update(<<"sload", "5">>, lay, 1, st, nest)
       ELSE IF nest = "left" THEN OrLeft(fs) ELSE OrRight(fs)

Writes == {[lay |-> lay, st |-> st, nest |-> nest, old |-> old] : lay \in Layouts, st \in Styles, nest \in {"left", "right"}, old \in BOOLEAN}

VARIABLE done
Init == done = FALSE
Next == /\ ~done /\ done' = TRUE
        /\ \A t \in Reads : PrintT(<<"CASE", ToJson([fam |-> "read", term |-> t])>>)
        /\ \A w \in Writes : PrintT(<<"CASE", ToJson([fam |-> IF w.old THEN "update" ELSE "write", term |-> Write(w.lay, w.st, w.nest, w.old)])>>)
Spec == Init /\ [][Next]_done
==============================================================================
