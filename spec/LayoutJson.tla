------------------------------ MODULE LayoutJson ------------------------------
(***************************************************************************)
(* The documented wire shape of a layout entry (C20) and a generator of    *)
(* AbiType trees.  An entry serialises to                                  *)
(*   {"index": "0x" + 64 lower-case hex digits, "offset": n, "type": T}    *)
(* where T is a snake_case variant tag, alone for unit variants and as the *)
(* single key of an object with the variant's fields otherwise.            *)
(* A type tree is [k, n, sub, offs, len]: kind, size/length option (0 =    *)
(* none), component types, struct offsets, array length (32 bytes).        *)
(***************************************************************************)
EXTENDS Integers, Sequences, FiniteSets, TLC

HexDigit(d) == CASE d = 0 -> "0" [] d = 1 -> "1" [] d = 2 -> "2" [] d = 3 -> "3" [] d = 4 -> "4" [] d = 5 -> "5"
                 [] d = 6 -> "6" [] d = 7 -> "7" [] d = 8 -> "8" [] d = 9 -> "9" [] d = 10 -> "a" [] d = 11 -> "b"
                 [] d = 12 -> "c" [] d = 13 -> "d" [] d = 14 -> "e" [] OTHER -> "f"

(* the characters of the index string for a word given as 32 big-endian bytes *)
IndexChars(bytes) == <<"0", "x">> \o [i \in 1..64 |-> HexDigit(IF i % 2 = 1 THEN bytes[(i + 1) \div 2] \div 16
                                                                ELSE bytes[i \div 2] % 16)]

Tag(k) == CASE k = "uint" -> "u_int" [] k = "int" -> "int" [] k = "number" -> "number" [] k = "bytes" -> "bytes"
            [] k = "bits" -> "bits" [] k = "array" -> "array" [] k = "dyn_array" -> "dyn_array"
            [] k = "dyn_bytes" -> "dyn_bytes" [] k = "mapping" -> "mapping" [] k = "struct" -> "struct"
            [] k = "infinite" -> "infinite_type" [] k = "conflict" -> "conflicted_type" [] OTHER -> k

Fields(k) == CASE k \in {"uint", "int", "number"} -> <<"size">>
               [] k \in {"bytes", "bits"} -> <<"length">>
               [] k = "array" -> <<"size", "type">>
               [] k = "dyn_array" -> <<"type">>
               [] k = "mapping" -> <<"key_type", "value_type">>
               [] k = "struct" -> <<"elements">>
               [] k = "conflict" -> <<"conflicts", "reasons">>
               [] OTHER -> << >>

(* the shape (tags and field names, recursively) the JSON text must have *)
RECURSIVE WireShape(_)
WireShape(t) == [tag |-> Tag(t.k), fields |-> Fields(t.k),
                 sub |-> [i \in 1..Len(t.sub) |-> WireShape(t.sub[i])]]
===============================================================================
