SPECIFICATION MCSpec
CONSTANTS
  Intervals = {1, 2, 3}
  MaxMain = 4
  MaxCopy = 2
  MaxTc = 2
INVARIANTS AllInvariants Terminates
CHECK_DEADLOCK FALSE
