-------------------------------- MODULE Pipeline --------------------------------
(***************************************************************************)
(* The extractor's typestate (src/extractor/mod.rs) and result classes     *)
(* (C01, and the stage structure used by C13 / C17).                       *)
(*                                                                         *)
(*  HasContract -disassemble-> DisassemblyComplete -prepare_vm-> VMReady    *)
(*  -execute-> ExecutionComplete -prepare_unifier-> InferenceReady          *)
(*  -infer-> InferenceComplete (a layout)                                   *)
(* Every stage call returns: it either moves to the next state or ends the *)
(* run with a structured error.  There is no other way for a run to end:   *)
(* a panic, an abort or a native stack overflow is not a behaviour of this *)
(* specification.                                                          *)
(***************************************************************************)
EXTENDS Integers, Sequences, TLC

Stages == <<"disassemble", "prepare_vm", "execute", "prepare_unifier", "infer">>
StateAfter(k) == CASE k = 0 -> "HasContract" [] k = 1 -> "DisassemblyComplete" [] k = 2 -> "VMReady"
                   [] k = 3 -> "ExecutionComplete" [] k = 4 -> "InferenceReady" [] OTHER -> "InferenceComplete"

VARIABLES done,      \* number of stages completed in the current run
          outcome    \* "running" | "layout" | "error"

pvars == <<done, outcome>>

Begin == done' = 0 /\ outcome' = "running"

(* a stage call returns Ok *)
StageOk(name) ==
    /\ outcome = "running" /\ done < 5 /\ Stages[done + 1] = name
    /\ done' = done + 1
    /\ outcome' = IF done + 1 = 5 THEN "layout" ELSE "running"

(* a stage call returns a structured error; prepare_unifier cannot fail *)
StageErr(name) ==
    /\ outcome = "running" /\ done < 5 /\ Stages[done + 1] = name /\ name # "prepare_unifier"
    /\ outcome' = "error" /\ UNCHANGED done

Terminal == outcome \in {"layout", "error"}
=================================================================================
