--------------------------- MODULE DisjointSet ---------------------------
(***************************************************************************)
(* Abstract model of src/data/disjoint_set.rs (C19).                      *)
(*                                                                         *)
(* The forest is specified as what it is meant to *denote*: a partition   *)
(* of the elements it knows about plus one bag of data per class.  The    *)
(* bag (multiset) rather than a set is deliberate: the production monoid  *)
(* (HashSet union) is idempotent and hides duplicated data, the property  *)
(* says "never loses or duplicates data", so the model counts.            *)
(*                                                                         *)
(* One action per public method, because every public method of the Rust  *)
(* structure is one critical section (the structure is not shared).       *)
(*   insert    -> Insert(x)                                               *)
(*   find      -> Find(x)      (path compression is invisible: stutter on *)
(*                              the abstract state, except that the Rust  *)
(*                              code *registers* an unknown element)      *)
(*   union     -> Union(x, y)                                             *)
(*   add_data  -> AddData(x, d)                                           *)
(*   set_data  -> SetData(x, d)                                           *)
(*   get_data  -> GetData(x)                                              *)
(*   sets      -> Sets                                                    *)
(* The result every call reports is the variable `res`; the trace         *)
(* acceptor and the replay walker compare it with what the code returned. *)
(***************************************************************************)
EXTENDS Integers, FiniteSets, Sequences, TLC

CONSTANTS Elem,      \* universe of elements (small naturals)
          Atom       \* data atoms; a datum is a bag over Atom

VARIABLES known,     \* elements registered with the forest
          part,      \* partition of `known`: a set of disjoint non-empty sets
          data,      \* [part -> Bag]
          res        \* what the last call returned (observation)

vars == <<known, part, data, res>>

Bag      == [Atom -> Nat]
EmptyBag == [a \in Atom |-> 0]
Single(a) == [b \in Atom |-> IF b = a THEN 1 ELSE 0]
BagSum(b1, b2) == [a \in Atom |-> b1[a] + b2[a]]

RECURSIVE SumOver(_, _)
SumOver(f, S) == IF S = {} THEN 0
                 ELSE LET x == CHOOSE x \in S : TRUE IN f[x] + SumOver(f, S \ {x})
BagSize(b) == SumOver(b, Atom)

ClassOf(P, x) == CHOOSE c \in P : x \in c

IsPartition(P, S) ==
    /\ \A c \in P : c # {} /\ c \subseteq S
    /\ \A c1, c2 \in P : c1 # c2 => c1 \cap c2 = {}
    /\ UNION P = S

TypeOK ==
    /\ known \subseteq Elem
    /\ IsPartition(part, known)
    /\ DOMAIN data = part
    /\ \A c \in part : data[c] \in Bag

Init ==
    /\ known = {}
    /\ part = {}
    /\ data = << >>
    /\ res = [op |-> "init"]

(* Registering an element: a no-op when it is already known.  Every       *)
(* operation that names an element registers it first, as `find` does.    *)
Reg(K, P, D, x) ==
    IF x \in K THEN [k |-> K, p |-> P, d |-> D]
    ELSE [k |-> K \cup {x},
          p |-> P \cup {{x}},
          d |-> [c \in P \cup {{x}} |-> IF c = {x} THEN EmptyBag ELSE D[c]]]

Reg2(K, P, D, x, y) == LET r == Reg(K, P, D, x) IN Reg(r.k, r.p, r.d, y)

Insert(x) ==
    LET r == Reg(known, part, data, x) IN
    /\ known' = r.k /\ part' = r.p /\ data' = r.d
    /\ res' = [op |-> "insert", x |-> x]

(* find returns *some* member of the class; which one is not specified.   *)
(* What is specified is `same`: the set of known elements that must get   *)
(* the same answer.                                                        *)
Find(x) ==
    LET r == Reg(known, part, data, x) IN
    /\ known' = r.k /\ part' = r.p /\ data' = r.d
    /\ res' = [op |-> "find", x |-> x, cls |-> ClassOf(r.p, x)]

Union(x, y) ==
    LET r  == Reg2(known, part, data, x, y)
        cx == ClassOf(r.p, x)
        cy == ClassOf(r.p, y)
        m  == cx \cup cy
        P2 == (r.p \ {cx, cy}) \cup {m}
    IN
    /\ known' = r.k
    /\ part' = P2
    /\ data' = [c \in P2 |->
                  IF c = m
                  THEN (IF cx = cy THEN r.d[cx] ELSE BagSum(r.d[cx], r.d[cy]))
                  ELSE r.d[c]]
    /\ res' = [op |-> "union", x |-> x, y |-> y]

AddData(x, b) ==
    LET r == Reg(known, part, data, x)
        c == ClassOf(r.p, x) IN
    /\ known' = r.k /\ part' = r.p
    /\ data' = [r.d EXCEPT ![c] = BagSum(@, b)]
    /\ res' = [op |-> "add_data", x |-> x, b |-> b]

SetData(x, b) ==
    LET r == Reg(known, part, data, x)
        c == ClassOf(r.p, x) IN
    /\ known' = r.k /\ part' = r.p
    /\ data' = [r.d EXCEPT ![c] = b]
    /\ res' = [op |-> "set_data", x |-> x, b |-> b]

GetData(x) ==
    LET r == Reg(known, part, data, x)
        c == ClassOf(r.p, x) IN
    /\ known' = r.k /\ part' = r.p /\ data' = r.d
    /\ res' = [op |-> "get_data", x |-> x, b |-> r.d[c]]

(* sets(): exactly one (member, data) pair per class.                     *)
Sets ==
    /\ UNCHANGED <<known, part, data>>
    /\ res' = [op |-> "sets", classes |-> {[members |-> c, b |-> data[c]] : c \in part}]

(* Data values offered to AddData / SetData in bounded models. *)
DataArgs == {Single(a) : a \in Atom}

Next ==
    \/ \E x \in Elem : Insert(x) \/ Find(x) \/ GetData(x)
    \/ \E x, y \in Elem : Union(x, y)
    \/ \E x \in Elem, b \in DataArgs : AddData(x, b) \/ SetData(x, b)
    \/ Sets

Spec == Init /\ [][Next]_vars

--------------------------------------------------------------------------
(* Properties of the design itself (checked by TLC on DisjointSetMC).     *)

TotalData == SumOver([c \in part |-> BagSize(data[c])], part)

(* Union never creates or destroys data: total bag size changes only by   *)
(* AddData (+|b|) and SetData (replacement).                              *)
UnionConserves ==
    [][ (res'.op = "union") => (TotalData' = TotalData) ]_vars

(* Classes only ever coarsen: two elements once together stay together.   *)
Monotone ==
    [][ \A c \in part : \E c2 \in part' : c \subseteq c2 ]_vars

==========================================================================
