SPECIFICATION TraceSpec
CONSTANT Cap = 1024
POSTCONDITION TraceAccepted
CHECK_DEADLOCK FALSE
