----------------------------- MODULE VectorMap -----------------------------
(***************************************************************************)
(* Abstract model of src/data/vector_map.rs (C19): an ordinary finite map  *)
(* with a reported length.  One action per public method.                  *)
(***************************************************************************)
EXTENDS Integers, FiniteSets, TLC

CONSTANTS Key, Val

VARIABLES map,    \* a function from a finite subset of Key to Val
          res     \* what the last call returned

vars == <<map, res>>

None == "none"

TypeOK == /\ DOMAIN map \subseteq Key
          /\ \A k \in DOMAIN map : map[k] \in Val

Init == map = << >> /\ res = [op |-> "init"]

Lookup(k) == IF k \in DOMAIN map THEN map[k] ELSE None

Insert(k, v) ==
    /\ map' = [x \in DOMAIN map \cup {k} |-> IF x = k THEN v ELSE map[x]]
    /\ res' = [op |-> "insert", k |-> k, v |-> v]

Remove(k) ==
    /\ map' = [x \in DOMAIN map \ {k} |-> map[x]]
    /\ res' = [op |-> "remove", k |-> k, out |-> Lookup(k)]

Get(k) ==
    /\ UNCHANGED map
    /\ res' = [op |-> "get", k |-> k, out |-> Lookup(k)]

(* len(), is_empty(), iter()/indices()/values() in one observation. *)
Observe ==
    /\ UNCHANGED map
    /\ res' = [op |-> "observe", len |-> Cardinality(DOMAIN map),
               items |-> {<<k, map[k]>> : k \in DOMAIN map}]

Next ==
    \/ \E k \in Key, v \in Val : Insert(k, v)
    \/ \E k \in Key : Remove(k) \/ Get(k)
    \/ Observe

Spec == Init /\ [][Next]_vars

(* Design property: the reported length is the number of present keys and *)
(* changes by at most one per call.                                       *)
LenStep == [][ LET n == Cardinality(DOMAIN map) n2 == Cardinality(DOMAIN map') IN
               n2 - n \in {-1, 0, 1} ]_vars
============================================================================
