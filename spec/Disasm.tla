-------------------------------- MODULE Disasm --------------------------------
(***************************************************************************)
(* The disassembler of src/disassembly/disassembler.rs as a streaming      *)
(* state machine (C10).  The environment feeds one byte per step or ends   *)
(* the input; the machine emits exactly one entry per byte.                *)
(*                                                                         *)
(*   ReadOp(b)     a byte at an instruction boundary                       *)
(*   ReadImm(b)    a byte inside a PUSH immediate                          *)
(*   EndComplete   input ends at an instruction boundary                   *)
(*   EndTruncated  input ends inside a PUSH immediate - by any number of   *)
(*                 missing bytes, including all of them                    *)
(* There is no rejecting terminal state for non-empty input.               *)
(***************************************************************************)
EXTENDS DisasmLib

VARIABLES code,     \* bytes consumed so far
          pending,  \* immediate bytes still expected
          pushAt,   \* offset (1-based) of the PUSH whose immediate is being read
          out,      \* one entry per consumed byte
          status    \* "reading" | "complete" | "truncated"

vars == <<code, pending, pushAt, out, status>>

Init ==
    /\ code = << >> /\ pending = 0 /\ pushAt = 0 /\ out = << >> /\ status = "reading"

ReadOp(b) ==
    /\ status = "reading" /\ pending = 0
    /\ code' = Append(code, b)
    /\ out' = Append(out, Entry(KindAtBoundary(b), b))
    /\ pending' = PushLen(b)
    /\ pushAt' = IF IsPush(b) THEN Len(code) + 1 ELSE pushAt
    /\ UNCHANGED status

ReadImm(b) ==
    /\ status = "reading" /\ pending > 0
    /\ code' = Append(code, b)
    /\ out' = Append(out, Entry("imm", b))
    /\ pending' = pending - 1
    /\ UNCHANGED <<pushAt, status>>

EndComplete ==
    /\ status = "reading" /\ pending = 0 /\ Len(code) > 0
    /\ status' = "complete"
    /\ UNCHANGED <<code, pending, pushAt, out>>

EndTruncated ==
    /\ status = "reading" /\ pending > 0
    /\ status' = "truncated"
    /\ out' = [i \in 1..Len(out) |-> IF i >= pushAt THEN Entry("trunc", out[i].b) ELSE out[i]]
    /\ UNCHANGED <<code, pending, pushAt>>

Next(Alphabet) ==
    \/ \E b \in Alphabet : ReadOp(b) \/ ReadImm(b)
    \/ EndComplete
    \/ EndTruncated

-------------------------------------------------------------------------------
(* Properties of the design (C10). *)

OnePerByte == Len(out) = Len(code)
Lossless   == \A i \in 1..Len(out) : out[i].b = code[i]
ImmNotInstr ==
    \A i \in 1..Len(out) : out[i].k \in {"imm", "trunc"} => out[i].k # "jumpdest"
PushCovers ==
    \A i \in 1..Len(out) : out[i].k = "push" =>
        /\ i + PushLen(out[i].b) <= Len(out) + pending
        /\ \A j \in (i + 1)..(i + PushLen(out[i].b)) : j <= Len(out) => out[j].k = "imm"
Terminal == status # "reading" =>
    /\ Len(out) = Len(code) /\ Len(code) > 0
    /\ (status = "truncated") = (\E i \in 1..Len(out) : out[i].k = "trunc")
    /\ \A i \in 1..Len(out) : out[i].k = "push" => i + PushLen(out[i].b) <= Len(out)
Agrees == status # "reading" => Disassemble(code) = [status |-> status, out |-> out]
===============================================================================
