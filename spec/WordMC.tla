--------------------------------- MODULE WordMC ---------------------------------
(* Word.tla against native arithmetic modulo B^N, exhaustively over all operand *)
(* pairs, for small (B, N).  The limb algorithms are uniform in (B, N); this is *)
(* the argument (not a proof) that they are right at (256, 32).                 *)
EXTENDS Word, FiniteSets

VARIABLES a, b, phase

M == B ^ N
RECURSIVE ToNatRec(_, _)
ToNatRec(w, i) == IF i > Len(w) THEN 0 ELSE w[i] * (B ^ (i - 1)) + ToNatRec(w, i + 1)
ToNat(w) == ToNatRec(w, 1)
W(x) == FromNat(x % M)
Words == {FromNat(x) : x \in 0..(M - 1)}

S(x) == IF x >= M \div 2 THEN x - M ELSE x          \* signed reading
U(x) == ((x % M) + M) % M                            \* back to unsigned
AbsI(x) == IF x < 0 THEN -x ELSE x
TDiv(x, y) == IF (x < 0) = (y < 0) THEN AbsI(x) \div AbsI(y) ELSE -(AbsI(x) \div AbsI(y))   \* truncating
TRem(x, y) == x - y * TDiv(x, y)

RECURSIVE PowMod(_, _)
PowMod(x, y) == IF y = 0 THEN 1 % M ELSE (x * PowMod(x, y - 1)) % M

(* one initial state; the operand pairs are successors, so that TLC's workers share the checking *)
Init == a = 0 /\ b = 0 /\ phase = 0
Next == phase = 0 /\ phase' = 1 /\ a' \in 0..(M - 1) /\ b' \in 0..(M - 1)
Spec == Init /\ [][Next]_<<a, b, phase>>

wa == W(a)
wb == W(b)

Arith ==
    /\ ToNat(wa) = a /\ IsWord(wa)
    /\ AddW(wa, wb) = W(a + b)
    /\ SubW(wa, wb) = W(U(a - b))
    /\ MulW(wa, wb) = W(a * b)
    /\ ToNat(MulFull(wa, wb)) = a * b
    /\ LtW(wa, wb) = (a < b)
    /\ SLtW(wa, wb) = (S(a) < S(b))
    /\ NegW(wa) = W(U(-a))
Logic ==
    /\ AndW(wa, wb) = W(a & b)
    /\ OrW(wa, wb) = W(a | b)
    /\ XorW(wa, wb) = W(a ^^ b)
    /\ NotW(wa) = W(M - 1 - a)
Shifts ==
    /\ ShlW(wa, wb) = (IF a >= Bits THEN Zero ELSE W(b * (2 ^ a)))
    /\ ShrW(wa, wb) = (IF a >= Bits THEN Zero ELSE W(b \div (2 ^ a)))
    /\ SarW(wa, wb) = (IF a >= Bits THEN (IF S(b) < 0 THEN Ones ELSE Zero)
                       ELSE W(U(IF S(b) >= 0 THEN S(b) \div (2 ^ a) ELSE -(((-S(b)) + (2 ^ a) - 1) \div (2 ^ a)))))
(* the relations accept the true quotient / remainder ... *)
Division ==
    /\ DivOK(wa, wb, IF b = 0 THEN Zero ELSE W(a \div b))
    /\ (b # 0) => ModOK(wa, wb, W(a \div b), W(a % b))
    /\ (b = 0) => ModOK(wa, wb, Zero, Zero)
    /\ SDivOK(wa, wb, IF b = 0 THEN Zero ELSE W(U(TDiv(S(a), S(b)))))
    /\ (b # 0) => SModOK(wa, wb, W(AbsI(S(a)) \div AbsI(S(b))), W(U(TRem(S(a), S(b)))))
(* ... and nothing else: no other claimed result passes, whatever quotient hint comes with it *)
DivisionUnique ==
    /\ \A q \in Words : DivOK(wa, wb, q) => (q = (IF b = 0 THEN Zero ELSE W(a \div b)))
    /\ \A q \in Words : SDivOK(wa, wb, q) => (q = (IF b = 0 THEN Zero ELSE W(U(TDiv(S(a), S(b))))))
    /\ \A q \in Words : \A r \in Words :
          /\ ModOK(wa, wb, q, r) => (r = (IF b = 0 THEN Zero ELSE W(a % b)))
          /\ SModOK(wa, wb, q, r) => (r = (IF b = 0 THEN Zero ELSE W(U(TRem(S(a), S(b))))))
Exponent == ExpW(wa, wb) = W(PowMod(a, b))

(* the 3-operand and byte-indexed operations, with c ranging over a few third operands *)
Thirds == {0, 1, 2, 3, M - 1, M \div 2}
Wide(x) == [i \in 1..(2 * N) |-> (x \div (B ^ (i - 1))) % B]     \* quotient hints are 2N limbs
Ternary ==
    \A c \in Thirds :
        LET wc == W(c) IN
        /\ AddModOK(wa, wb, wc, IF c = 0 THEN Pad(Zero, 2 * N) ELSE Wide((a + b) \div c), IF c = 0 THEN Zero ELSE W((a + b) % c))
        /\ MulModOK(wa, wb, wc, IF c = 0 THEN Pad(Zero, 2 * N) ELSE Wide((a * b) \div c), IF c = 0 THEN Zero ELSE W((a * b) % c))
        /\ (c # 0 /\ (a + b) % c # 1 % c) => ~AddModOK(wa, wb, wc, Wide((a + b) \div c), W(1))
NBytes == Bits \div 8
Bytes ==
    /\ (NBytes >= 1) =>
         ByteW(wa, wb) = (IF a >= NBytes THEN Zero ELSE W((b \div (2 ^ (8 * (NBytes - 1 - a)))) % 256))
    /\ (NBytes >= 1) =>
         SignExtendW(wa, wb) = (IF a >= NBytes - 1 THEN wb
                                ELSE LET low == b % (2 ^ (8 * (a + 1))) IN
                                     IF low >= 2 ^ (8 * a + 7) THEN W(M - (2 ^ (8 * (a + 1))) + low) ELSE W(low))
=================================================================================
