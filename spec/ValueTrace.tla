------------------------------ MODULE ValueTrace ------------------------------
(* Acceptor for constant folding observed on the real SymbolicValue (C09) and *)
(* for value sizes observed on executed programs (C18).                        *)
EXTENDS Value, Json, IOUtils, FiniteSets

Rec == ndJsonDeserialize(IOEnv.TRACE)

VARIABLES l, viol, cnt

ToSet(seq) == {seq[i] : i \in DOMAIN seq}

Verdict(e) ==
    CASE e.ev = "fold" ->
           (* every node of the input tree, in post-order, with the folded forms of its operands *)
           (IF "panic" \in DOMAIN e THEN {"Inv_C09_Total"} ELSE
            {"Inv_C09_Meaning/" \o e.nodes[i].op \o
                 (IF \A k \in 1..Len(e.nodes[i].kids) : IsConst(e.nodes[i].kids[k]) THEN "/value" ELSE "/rebuild")
               : i \in {j \in 1..Len(e.nodes) : ~NodeOK(e.nodes[j])}}
            \cup (IF e.refold = e.nodes[Len(e.nodes)].fold THEN {} ELSE {"Inv_C09_Idempotent"}))
      [] e.ev = "sizes" ->
           (* C18: recorded size = nodes actually contained, for every node of every value;   *)
           (*      instruction results stay within the limit                                   *)
           (IF \A p \in ToSet(e.pairs) : p[1] = p[2] THEN {} ELSE {"Inv_C18_Accounting"})
           \cup (LET over == {p \in ToSet(e.tops) : p.count > e.limit} IN
                 IF over = {} THEN {}
                 \* the known way this fails: the placeholder recorded in storage for a read of a never-written slot
                 \* wraps its key outside the value builder, so it can exceed the limit by one node
                 ELSE IF \A p \in over : p.ctor = "UnwrittenStorageValue" /\ p.count <= e.limit + 1
                      THEN {"Inv_C18_Limit/unwritten-placeholder"} ELSE {"Inv_C18_Limit"})
           \cup (IF e.culled_regrow THEN {"Inv_C18_Accounting"} ELSE {})
      [] OTHER -> {}

Init == l = 1 /\ viol = << >> /\ cnt = [folds |-> 0, nodes |-> 0, sizes |-> 0, bad |-> 0] /\ TLCSet(1, << >>) /\ TLCSet(2, cnt)

Next ==
    /\ l <= Len(Rec)
    /\ l' = l + 1
    /\ LET e == Rec[l]  f == Verdict(e) IN
       /\ viol' = IF f # {} /\ Len(SelectSeq(viol, LAMBDA v : v.inv = f)) < 8
                  THEN Append(viol, [at |-> l, inv |-> f]) ELSE viol
       /\ cnt' = [folds |-> cnt.folds + (IF e.ev = "fold" THEN 1 ELSE 0),
                  nodes |-> cnt.nodes + (IF e.ev = "fold" /\ "nodes" \in DOMAIN e THEN Len(e.nodes) ELSE 0),
                  sizes |-> cnt.sizes + (IF e.ev = "sizes" THEN 1 ELSE 0),
                  bad |-> cnt.bad + (IF f # {} THEN 1 ELSE 0)]
    /\ TLCSet(1, viol') /\ TLCSet(2, cnt')

TraceSpec == Init /\ [][Next]_<<l, viol, cnt>>

Matched == TLCGet("stats").diameter - 1
TraceAccepted ==
    /\ PrintT(<<"TRACE", ToJson([matched |-> Matched, records |-> Len(Rec), viol |-> TLCGet(1), cnt |-> TLCGet(2)])>>)
    /\ Matched = Len(Rec)
    /\ TLCGet(1) = << >>
===============================================================================
