------------------------------ MODULE MemoryMC ------------------------------
(* Every history of up to MaxOps calls over a few offsets - among them two that agree modulo 2^64 - and two  *)
(* values: a load returns the last value stored at exactly that offset, or zero; a store changes what one   *)
(* offset holds and nothing else; reads change nothing that a later load could see.                          *)
EXTENDS Memory, TLC

CONSTANTS KeySet, ValSet, MaxOps

VARIABLES n, prev, last,
          shadow     \* what a concrete memory holds: offset -> value (total, zero by default)

vars == <<mem, mres, n, prev, last, shadow>>

Plain(x) == <<"p", x>>
(* consecutive word offsets for slices: the successor of an offset in KeySet, if it is in KeySet *)
Succ32(k) == CASE k = "c0" -> "c20" [] k = "c10000000000000000" -> "c10000000000000020" [] OTHER -> "none"
SliceKeys(k, w) == IF w = 0 THEN << >> ELSE IF w = 1 \/ Succ32(k) = "none" THEN <<k>> ELSE <<k, Succ32(k)>>

Init == MInit /\ n = 0 /\ prev = << >> /\ last = [op |-> "init", k |-> "", v |-> MNone, ks |-> << >>]
        /\ shadow = [k \in KeySet |-> Zero]

Step(op, k, v, ks, A) == /\ n < MaxOps /\ n' = n + 1 /\ prev' = mem /\ last' = [op |-> op, k |-> k, v |-> v, ks |-> ks] /\ A

Next == \/ \E k \in KeySet, v \in {Plain(x) : x \in ValSet} :
              Step("store", k, v, << >>, Store(k, v)) /\ shadow' = [shadow EXCEPT ![k] = v]
        \/ \E k \in KeySet : Step("load", k, MNone, << >>, Load(k)) /\ UNCHANGED shadow
        \/ \E k \in {"c0", "c10000000000000000"}, w \in 0..2 :
              Step("slice", k, MNone, SliceKeys(k, w), LoadSliceConst(SliceKeys(k, w))) /\ UNCHANGED shadow
        \/ Step("entries", "", MNone, << >>, Entries) /\ UNCHANGED shadow

Spec == Init /\ [][Next]_vars

(* the point of the model: the memory agrees with a concrete one, offset by offset *)
Inv_LoadIsLastStore == last.op = "load" => mres = shadow[last.k]
Inv_SliceIsLastStores == last.op = "slice" => mres = Concat([i \in 1..Len(last.ks) |-> shadow[last.ks[i]]])
Inv_Agrees == \A k \in DOMAIN mem : Last(mem[k]) = shadow[k]
Inv_Unwritten == \A k \in KeySet \ DOMAIN mem : shadow[k] = Zero
Inv_AppendOnly == \A k \in DOMAIN prev : k \in DOMAIN mem /\ IsPrefix(prev[k], mem[k])
Inv_StoreLocal == last.op = "store" =>
                        /\ Last(mem[last.k]) = last.v
                        /\ \A k \in DOMAIN mem \ {last.k} : k \in DOMAIN prev /\ mem[k] = prev[k]
Inv_ReadsInvisible == last.op \in {"load", "slice", "entries"} =>
                        \A k \in DOMAIN mem : IF k \in DOMAIN prev THEN mem[k] = prev[k] ELSE mem[k] = <<Zero>>
==============================================================================
