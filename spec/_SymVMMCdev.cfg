SPECIFICATION MCSpec
CONSTANTS
  MaxTokens = 4
  Ls = {1, 2}
  Fs = {1, 2}
  Gs = {30000000}
  Dev = {"fork-entry-unchecked"}
INVARIANTS AllInvariants Inv_C03_Variant Inv_C03_Terminates Emit
CHECK_DEADLOCK FALSE
