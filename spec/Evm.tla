----------------------------------- MODULE Evm -----------------------------------
(***************************************************************************)
(* A concrete EVM for the fragment of C07 (PUSH0..32, DUP/SWAP1..16, POP,  *)
(* every ALU opcode, PC, CODESIZE, word-aligned MSTORE/MLOAD, SLOAD/SSTORE,*)
(* JUMP/JUMPI with forced branch decisions), as a *checker of a claimed    *)
(* execution*: a path is a sequence of steps [pc, claim, hint]; the machine *)
(* takes its operands from its own stack, verifies the claimed result of   *)
(* each instruction with Word's functions and relations, and follows the   *)
(* control flow the path dictates, verifying that the EVM allows it.       *)
(*                                                                         *)
(* State: [ok, pc, stack (top first), mem (offset word -> word), writes         *)
(* (sequence of <<key, value>>), halted].                                  *)
(***************************************************************************)
EXTENDS Value, DisasmLib

(* --- opcode numbers not already named in Opcodes --- *)
OpName(b) ==
    CASE b = 1 -> "Add" [] b = 2 -> "Multiply" [] b = 3 -> "Subtract" [] b = 4 -> "Divide" [] b = 5 -> "SignedDivide"
      [] b = 6 -> "Modulo" [] b = 7 -> "SignedModulo" [] b = 10 -> "Exp"
      [] b = 16 -> "LessThan" [] b = 17 -> "GreaterThan" [] b = 18 -> "SignedLessThan" [] b = 19 -> "SignedGreaterThan"
      [] b = 20 -> "Equals" [] b = 21 -> "IsZero" [] b = 22 -> "And" [] b = 23 -> "Or" [] b = 24 -> "Xor" [] b = 25 -> "Not"
      [] b = 27 -> "LeftShift" [] b = 28 -> "RightShift" [] b = 29 -> "ArithmeticRightShift"
      [] OTHER -> "?"

Init(code) == [ok |-> TRUE, why |-> "", pc |-> 0, stack |-> << >>, mem |-> << >>, writes |-> << >>, halted |-> FALSE]

Fail(s, why) == [s EXCEPT !.ok = FALSE, !.why = IF s.ok THEN why ELSE s.why]

Push(s, w) == [s EXCEPT !.stack = <<w>> \o s.stack]
Drop(s, n) == [s EXCEPT !.stack = SubSeq(s.stack, n + 1, Len(s.stack))]

(* the word pushed by the PUSHn at pc: its n immediate bytes, big-endian, zero-padded on the right *)
(* when the code ends early; as a little-endian word                                             *)
PushWord(code, pc, n) ==
    [i \in 1..N |-> IF i <= n THEN (IF pc + 1 + (n - i) + 1 <= Len(code) THEN code[pc + 1 + (n - i) + 1] ELSE 0) ELSE 0]

LastWrite(writes, key) ==
    LET RECURSIVE F(_) F(i) == IF i = 0 THEN Zero ELSE IF writes[i][1] = key THEN writes[i][2] ELSE F(i - 1)
    IN F(Len(writes))

MemAt(mem, off) == IF off \in DOMAIN mem THEN mem[off] ELSE Zero

(* One step.  st = [pc, claim, hint, next]: the offset executed, the claimed result (for instructions that  *)
(* compute one), the quotient hint, and the offset the path executes next (-1 at the end of the path).      *)
Step(code, jd, s, st) ==
    IF ~s.ok THEN s
    ELSE IF s.halted THEN Fail(s, "step after halt")
    ELSE IF st.pc # s.pc THEN Fail(s, "path leaves the control flow of the EVM")
    ELSE
    LET b == code[st.pc + 1]
        d == Len(s.stack)
        seq(nx) == [s EXCEPT !.pc = nx]
        a == IF d >= 1 THEN s.stack[1] ELSE Zero
        bb == IF d >= 2 THEN s.stack[2] ELSE Zero
        cc == IF d >= 3 THEN s.stack[3] ELSE Zero
    IN
    IF d < Pops(b) THEN Fail(s, "stack underflow in a stack-safe program")
    ELSE IF b = PUSH0 THEN Push(seq(st.pc + 1), Zero)
    ELSE IF IsPush(b) THEN Push(seq(st.pc + 1 + PushLen(b)), PushWord(code, st.pc, PushLen(b)))
    ELSE IF IsDup(b) THEN Push(seq(st.pc + 1), s.stack[DupN(b)])
    ELSE IF IsSwap(b) THEN
        LET n == SwapN(b) + 1 IN
        [seq(st.pc + 1) EXCEPT !.stack = [i \in 1..d |-> IF i = 1 THEN s.stack[n] ELSE IF i = n THEN s.stack[1] ELSE s.stack[i]]]
    ELSE IF b = POP THEN Drop(seq(st.pc + 1), 1)
    ELSE IF OpName(b) \in Binary THEN
        IF IsWord(st.claim) /\ ResultOK(OpName(b), a, bb, st.claim, st.hint)
        THEN Push(Drop(seq(st.pc + 1), 2), st.claim) ELSE Fail(s, "scratch result rejected")
    ELSE IF OpName(b) \in Unary THEN
        IF IsWord(st.claim) /\ ResultOK(OpName(b), a, Zero, st.claim, st.hint)
        THEN Push(Drop(seq(st.pc + 1), 1), st.claim) ELSE Fail(s, "scratch result rejected")
    ELSE IF b = ADDMOD THEN
        IF IsWord(st.claim) /\ AddModOK(a, bb, cc, st.hint2, st.claim) THEN Push(Drop(seq(st.pc + 1), 3), st.claim)
        ELSE Fail(s, "scratch result rejected")
    ELSE IF b = MULMOD THEN
        IF IsWord(st.claim) /\ MulModOK(a, bb, cc, st.hint2, st.claim) THEN Push(Drop(seq(st.pc + 1), 3), st.claim)
        ELSE Fail(s, "scratch result rejected")
    ELSE IF b = SIGNEXTEND THEN Push(Drop(seq(st.pc + 1), 2), SignExtendW(a, bb))
    ELSE IF b = BYTE THEN Push(Drop(seq(st.pc + 1), 2), ByteW(a, bb))
    ELSE IF b = PC THEN Push(seq(st.pc + 1), FromNat(st.pc))
    ELSE IF b = CODESIZE THEN Push(seq(st.pc + 1), FromNat(Len(code)))
    ELSE IF b = MSTORE THEN
        \* memory is keyed by the offset WORD (the lowest limb decides alignment): offsets may be of any magnitude
        IF a[1] % 32 = 0
        THEN [Drop(seq(st.pc + 1), 2) EXCEPT !.mem = (a :> bb) @@ s.mem]
        ELSE Fail(s, "unaligned memory access in generated program")
    ELSE IF b = MLOAD THEN
        IF a[1] % 32 = 0
        THEN Push(Drop(seq(st.pc + 1), 1), MemAt(s.mem, a))
        ELSE Fail(s, "unaligned memory access in generated program")
    ELSE IF b = SLOAD THEN Push(Drop(seq(st.pc + 1), 1), LastWrite(s.writes, a))
    ELSE IF b = SSTORE THEN [Drop(seq(st.pc + 1), 2) EXCEPT !.writes = Append(s.writes, <<a, bb>>)]
    ELSE IF b = JUMPDEST THEN seq(st.pc + 1)
    ELSE IF b = JUMP THEN
        \* the tool lands on the JUMPDEST and steps over it without executing it: both are the same EVM edge
        IF SmallVal(a) \in jd
        THEN Drop(seq(IF st.next = SmallVal(a) + 1 THEN SmallVal(a) + 1 ELSE SmallVal(a)), 1)
        ELSE [Drop(s, 1) EXCEPT !.halted = TRUE]
    ELSE IF b = JUMPI THEN
        \* forced decision: the path says which way this execution went; both must be EVM edges
        IF st.next = st.pc + 1 \/ st.next = -1 THEN Drop(seq(st.pc + 1), 2)
        ELSE IF SmallVal(a) \in jd /\ st.next = SmallVal(a) THEN Drop(seq(SmallVal(a)), 2)
        ELSE Fail(s, "conditional jump to something that is no JUMPDEST")
    ELSE IF b \in Halting THEN [s EXCEPT !.halted = TRUE]
    ELSE Fail(s, "opcode outside the fragment")

RECURSIVE RunSteps(_, _, _, _, _)
RunSteps(code, jd, s, steps, i) == IF i > Len(steps) THEN s ELSE RunSteps(code, jd, Step(code, jd, s, steps[i]), steps, i + 1)

Execute(code, steps) == RunSteps(code, JumpDests(code), Init(code), steps, 1)

------------------------------------------------------------------------------
(* Denotation of the symbolic values of one path.  nodes: post-order list of  *)
(* [op, w, kids (indices), claim, hint, hint2]; each claim is verified from   *)
(* the (already verified) claims of the operands.                             *)

NodeClaimOK(nodes, i) ==
    LET n == nodes[i]
        k(j) == nodes[n.kids[j]].claim
    IN
    /\ IsWord(n.claim)
    /\ \A j \in 1..Len(n.kids) : n.kids[j] < i
    /\ CASE n.op = "KnownData" -> n.claim = n.w
         [] n.op \in Binary -> Len(n.kids) = 2 /\ ResultOK(n.op, k(1), k(2), n.claim, n.hint)
         [] n.op \in Unary -> Len(n.kids) = 1 /\ ResultOK(n.op, k(1), Zero, n.claim, n.hint)
         \* SIGNEXTEND(b, x): children are [size, value] = [b, x]
         [] n.op = "SignExtend" -> Len(n.kids) = 2 /\ n.claim = SignExtendW(k(1), k(2))
         \* a storage read denotes the value read (second child); never-written storage reads as zero
         [] n.op = "SLoad" -> Len(n.kids) = 2 /\ n.claim = k(2)
         [] n.op = "UnwrittenStorageValue" -> n.claim = Zero
         [] OTHER -> FALSE

Denotes(nodes) == \A i \in 1..Len(nodes) : NodeClaimOK(nodes, i)
=================================================================================
