SPECIFICATION TraceSpec
CONSTANT MaxCopy = 96
POSTCONDITION TraceAccepted
CHECK_DEADLOCK FALSE
