------------------------------ MODULE WatchdogMC ------------------------------
(***************************************************************************)
(* Mirror of the implementation's poll discipline: every loop keeps a      *)
(* counter and polls exactly when counter mod I = 0; a stop in a copy loop *)
(* raises an error that kills the thread (the main loop goes on), a stop   *)
(* anywhere else returns at once.  The "program" is a main loop of Main    *)
(* iterations, each of which may run a copy loop of up to Copy iterations, *)
(* followed by the type-checker loops of Tc iterations each.  TLC explores *)
(* every interval, every loop size and every poll at which the environment *)
(* starts answering stop, and checks the envelope invariants.              *)
(***************************************************************************)
EXTENDS Watchdog

CONSTANTS Intervals, MaxMain, MaxCopy, MaxTc

VARIABLES plan,    \* [main |-> sequence of copy-loop sizes, tc |-> iterations per type-checker loop]
          stage,   \* "main" | "copy" | the tc site | "done"
          mi,      \* main iterations begun
          ci,      \* copy iterations begun in the current instruction
          ti,      \* iterations begun in the current tc loop
          mctr,    \* the main loop's poll counter
          uctr,    \* unify's counter survives rounds; here: a plain counter per tc loop
          needPoll,\* the iteration in progress still has to consult the watchdog
          stopErr  \* a stopped-by-watchdog error sits in the VM's error buffer

mvars == <<wvars, plan, stage, mi, ci, ti, mctr, uctr, needPoll, stopErr>>

TcOrder == <<"tc::lift", "tc::assign", "tc::infer", "tc::unify", "tc::layout">>

MCInit ==
    \E i \in Intervals, m \in 0..MaxMain, t \in 0..MaxTc :
    \E copies \in [1..m -> 0..MaxCopy] :
        /\ I = i /\ since = [s \in Sites |-> 0] /\ polled = [s \in Sites |-> FALSE] /\ cur = "none" /\ polls = 0
        /\ stopSeen = FALSE /\ stopSite = "none" /\ afterPolls = 0 /\ afterMain = 0 /\ ended = FALSE
        /\ wchk = WGood
        /\ plan = [main |-> copies, tc |-> t]
        /\ stage = "main" /\ mi = 0 /\ ci = 0 /\ ti = 0 /\ mctr = 0 /\ uctr = 0
        /\ needPoll = FALSE /\ stopErr = FALSE

Keep == UNCHANGED <<plan>>

(* main loop: begin an iteration *)
MainIter ==
    /\ stage = "main" /\ ~needPoll /\ mi < Len(plan.main) /\ ~ended
    /\ Iter(MainSite)
    /\ mi' = mi + 1 /\ ci' = 0
    /\ needPoll' = (mctr % I = 0)
    /\ mctr' = mctr + 1
    /\ stage' = IF mctr % I = 0 THEN "main" ELSE IF plan.main[mi + 1] > 0 THEN "copy" ELSE "main"
    /\ Keep /\ UNCHANGED <<ti, uctr, stopErr>>

MainPollGo ==
    /\ stage = "main" /\ needPoll /\ ~ended /\ ~stopSeen
    /\ Poll(FALSE)
    /\ needPoll' = FALSE
    /\ stage' = IF plan.main[mi] > 0 THEN "copy" ELSE "main"
    /\ Keep /\ UNCHANGED <<mi, ci, ti, mctr, uctr, stopErr>>

MainPollStop ==
    /\ stage = "main" /\ needPoll /\ ~ended
    /\ Poll(TRUE)
    /\ needPoll' = FALSE
    /\ stage' = "return-stopped"
    /\ Keep /\ UNCHANGED <<mi, ci, ti, mctr, uctr, stopErr>>

(* copy loop inside the current instruction *)
CopyIter ==
    /\ stage = "copy" /\ ~needPoll /\ ci < plan.main[mi] /\ ~ended
    /\ Iter("op::calldatacopy")
    /\ ci' = ci + 1
    /\ needPoll' = (ci % I = 0)
    /\ Keep /\ UNCHANGED <<stage, mi, ti, mctr, uctr, stopErr>>

CopyDone ==
    /\ stage = "copy" /\ ~needPoll /\ ci >= plan.main[mi] /\ ~ended
    /\ stage' = "main"
    /\ UNCHANGED <<wvars, plan, mi, ci, ti, mctr, uctr, needPoll, stopErr>>

CopyPollGo ==
    /\ stage = "copy" /\ needPoll /\ ~stopSeen
    /\ Poll(FALSE)
    /\ needPoll' = FALSE
    /\ Keep /\ UNCHANGED <<stage, mi, ci, ti, mctr, uctr, stopErr>>

CopyPollStop ==
    /\ stage = "copy" /\ needPoll
    /\ Poll(TRUE)
    /\ needPoll' = FALSE
    /\ stopErr' = TRUE            \* the error is recorded and the thread killed ...
    /\ stage' = "main"            \* ... and the main loop goes on with the next thread
    /\ Keep /\ UNCHANGED <<mi, ci, ti, mctr, uctr>>

(* the main loop ran out of work *)
MainDone ==
    /\ stage = "main" /\ ~needPoll /\ mi >= Len(plan.main) /\ ~ended
    /\ stage' = IF stopErr THEN "return-stopped" ELSE TcOrder[1]
    /\ ti' = 0 /\ uctr' = 0
    /\ UNCHANGED <<wvars, plan, mi, ci, mctr, needPoll, stopErr>>

TcIdx(s) == CHOOSE k \in 1..5 : TcOrder[k] = s

TcIter ==
    /\ stage \in TcSites /\ ~needPoll /\ ti < plan.tc /\ ~ended
    /\ Iter(stage)
    /\ ti' = ti + 1
    /\ needPoll' = (uctr % I = 0)
    /\ uctr' = uctr + 1
    /\ Keep /\ UNCHANGED <<stage, mi, ci, mctr, stopErr>>

TcPollGo ==
    /\ stage \in TcSites /\ needPoll /\ ~stopSeen
    /\ Poll(FALSE)
    /\ needPoll' = FALSE
    /\ Keep /\ UNCHANGED <<stage, mi, ci, ti, mctr, uctr, stopErr>>

TcPollStop ==
    /\ stage \in TcSites /\ needPoll
    /\ Poll(TRUE)
    /\ needPoll' = FALSE
    /\ stage' = "return-stopped"
    /\ Keep /\ UNCHANGED <<mi, ci, ti, mctr, uctr, stopErr>>

TcDone ==
    /\ stage \in TcSites /\ ~needPoll /\ ti >= plan.tc /\ ~ended
    /\ stage' = IF TcIdx(stage) = 5 THEN "return-layout" ELSE TcOrder[TcIdx(stage) + 1]
    /\ ti' = 0 /\ uctr' = 0
    /\ UNCHANGED <<wvars, plan, mi, ci, mctr, needPoll, stopErr>>

Return ==
    /\ stage \in {"return-stopped", "return-layout"} /\ ~ended
    /\ End(IF stage = "return-stopped" THEN "stopped" ELSE "layout", TRUE)
    /\ stage' = "done"
    /\ UNCHANGED <<plan, mi, ci, ti, mctr, uctr, needPoll, stopErr>>

MCNext == MainIter \/ MainPollGo \/ MainPollStop \/ CopyIter \/ CopyDone \/ CopyPollGo \/ CopyPollStop
          \/ MainDone \/ TcIter \/ TcPollGo \/ TcPollStop \/ TcDone \/ Return

MCSpec == MCInit /\ [][MCNext]_mvars

AllInvariants == WFailing(wchk) = {}
Terminates == (~ENABLED MCNext) => ended
(* not vacuous: some behaviour stops in a copy loop and still uses I further polls (the envelope allows I + 1) *)
SomeLatency == ~(stopSeen /\ stopSite \in CopySites /\ afterPolls = I /\ I > 1)
===============================================================================
