--------------------------------- MODULE Unify ---------------------------------
(***************************************************************************)
(* The unifier of src/tc/unification.rs (C14, C15, C02) over the evidence  *)
(* of TypeLattice (no packed encodings).                                   *)
(*                                                                         *)
(* A configuration is the union-find forest seen abstractly: a partition   *)
(* of the type variables with one set of evidence per class.               *)
(*   Seed(J)            forest construction: every variable inserted,      *)
(*                      declared equalities united, evidence added         *)
(*   Round(c, order)    one pass of the main loop: every class is folded   *)
(*                      to a single expression in the order `order` gives, *)
(*                      then the equalities the folds produced are applied *)
(* The iteration order of each class's evidence set is NOT fixed by the    *)
(* design (it is a hash set), so Round takes it as a parameter and Succ(c)  *)
(* is the set of configurations one round can produce.                     *)
(***************************************************************************)
EXTENDS TypeLattice

(* A judgement is <<v, e>>: evidence e for variable v, or an equality [k |-> "eq", id |-> w]. *)
EqJ(w) == [k |-> "eq", id |-> w]

ClassOf(P, v) == CHOOSE c \in P : v \in c

(* Merging partition classes along a set of equalities (unordered pairs). *)
RECURSIVE Unite(_, _)
Unite(P, eqs) ==
    IF eqs = {} THEN P
    ELSE LET p == CHOOSE p \in eqs : TRUE
             cs == {c \in P : c \cap p # {}}
         IN Unite((P \ cs) \cup {UNION cs}, eqs \ {p})

(* Evidence of the new classes is the union of the evidence of the classes they absorbed. *)
Carry(P, infs, Q) == [q \in Q |-> UNION {infs[c] : c \in {c \in P : c \subseteq q}}]

Seed(V, J) ==
    LET P0   == {{v} : v \in V}
        eqs  == {{j[1], j[2].id} : j \in {j \in J : j[2].k = "eq"}}
        inf0 == [c \in P0 |-> {j[2] : j \in {j \in J : j[1] \in c /\ j[2].k # "eq"}}]
        P1   == Unite(P0, eqs)
    IN [part |-> P1, infs |-> Carry(P0, inf0, P1), done |-> FALSE, rounds |-> 0]

(* All orders in which a finite set can be iterated. *)
RECURSIVE Perms(_)
Perms(S) == IF S = {} THEN {<< >>}
            ELSE UNION {{<<x>> \o p : p \in Perms(S \ {x})} : x \in S}

RECURSIVE FoldSeq(_, _)
FoldSeq(r, s) == IF s = << >> THEN r ELSE FoldSeq(MergeR(r, Head(s)), Tail(s))
Fold(s) == FoldSeq(Res(Head(s), {}), Tail(s))

(* One round under a choice of iteration order per class. *)
Round(c, order) ==
    LET nonEmpty == {k \in c.part : c.infs[k] # {}}
        folded   == [k \in nonEmpty |-> Fold(order[k])]
        progress == \E k \in nonEmpty : Cardinality(c.infs[k]) > 1
        infs1    == [k \in c.part |-> IF k \in nonEmpty THEN {folded[k].e} ELSE {}]
        eqs      == UNION {folded[k].eqs : k \in nonEmpty}
        P2       == Unite(c.part, {p \in eqs : Cardinality(p) = 2})
    IN [part |-> P2, infs |-> Carry(c.part, infs1, P2), done |-> ~progress, rounds |-> c.rounds + 1]

(* The canonical iteration order of the implementation: the derived `Ord` of            *)
(* TypeExpression - by variant in declaration order (Any, Equal, Word, Bytes, FixedArray, *)
(* Mapping, DynamicArray, Packed, Conflict), then field by field.                         *)
KindRank(e) == CASE e.k = "any" -> 0 [] e.k = "eq" -> 1 [] e.k = "word" -> 2 [] e.k = "bytes" -> 3
                 [] e.k = "fix" -> 4 [] e.k = "map" -> 5 [] e.k = "dyn" -> 6 [] e.k = "packed" -> 7 [] OTHER -> 8
UsageRank(u) == CASE u = "bytes" -> 0 [] u = "numeric" -> 1 [] u = "unsigned" -> 2 [] u = "signed" -> 3
                  [] u = "bool" -> 4 [] u = "address" -> 5 [] u = "selector" -> 6 [] OTHER -> 7
Key(e) == CASE e.k = "word" -> <<2, e.w, UsageRank(e.u)>>       \* None (0) sorts before Some(w)
            [] e.k = "fix"  -> <<4, e.len, e.el>>       \* shape (the length) before type variables
            [] e.k = "map"  -> <<5, e.key, e.val>>
            [] e.k = "dyn"  -> <<6, e.el, 0>>
            [] OTHER        -> <<KindRank(e), 0, 0>>
LessKey(a, b) == \/ a[1] < b[1]
                 \/ (a[1] = b[1] /\ a[2] < b[2])
                 \/ (a[1] = b[1] /\ a[2] = b[2] /\ a[3] < b[3])

RECURSIVE Sorted(_)
Sorted(S) == IF S = {} THEN << >>
             ELSE LET m == CHOOSE m \in S : \A x \in S \ {m} : LessKey(Key(m), Key(x))
                  IN <<m>> \o Sorted(S \ {m})

RECURSIVE Orders(_, _)
Orders(c, ks) ==    \* all functions class -> iteration order of its evidence
    IF ks = {} THEN {<< >>}
    ELSE LET k == CHOOSE k \in ks : TRUE IN
         {(k :> p) @@ o : p \in Perms(c.infs[k]), o \in Orders(c, ks \ {k})}

CanonOrder(c) == [k \in {k \in c.part : c.infs[k] # {}} |-> Sorted(c.infs[k])]

(* The design as implemented folds in canonical order; HashOrder is the deviation "iterate the *)
(* hash set as it comes", which is what makes the result order-dependent (C02).               *)
Succ(c, HashOrder) ==
    IF c.done THEN {c}
    ELSE IF HashOrder THEN {Round(c, o) : o \in Orders(c, {k \in c.part : c.infs[k] # {}})}
    ELSE {Round(c, CanonOrder(c))}

------------------------------------------------------------------------------
(* What a finished configuration says about each variable. *)
Resolved(c, v) == LET s == c.infs[ClassOf(c.part, v)] IN
                  IF s = {} THEN TAny ELSE CHOOSE e \in s : TRUE

(* Classes as sets of variables: the only representative-independent view. *)
NormExpr(c, e) ==
    CASE e.k = "map" -> [k |-> "map", key |-> ClassOf(c.part, e.key), val |-> ClassOf(c.part, e.val)]
      [] e.k = "dyn" -> [k |-> "dyn", el |-> ClassOf(c.part, e.el)]
      [] e.k = "fix" -> [k |-> "fix", el |-> ClassOf(c.part, e.el), len |-> e.len]
      [] OTHER -> e
Outcome(c, V) == [v \in V |-> [cls |-> ClassOf(c.part, v), typ |-> NormExpr(c, Resolved(c, v))]]

------------------------------------------------------------------------------
(* C14: post-conditions of a finished configuration for judgement set J. *)

DeclaredEqs(J) == {{j[1], j[2].id} : j \in {j \in J : j[2].k = "eq"}}

PostOne(c) == \A k \in c.part : Cardinality(c.infs[k]) <= 1 /\ \A e \in c.infs[k] : e.k # "eq"
PostEq(c, J) == \A p \in DeclaredEqs(J) : \E k \in c.part : p \subseteq k

(* Evidence that reaches a class through declared equalities alone. *)
DeclaredClasses(V, J) == Unite({{v} : v \in V}, DeclaredEqs(J))
EvidenceOf(J, cls) == {j[2] : j \in {j \in J : j[1] \in cls /\ j[2].k # "eq"}}

(* The full congruence closure, ignoring contradictions: the coarsest the classes can get. *)
ComponentEqs(J, P) ==
    UNION {LET ev == EvidenceOf(J, k) IN
           {{a.key, b.key} : a, b \in {e \in ev : e.k = "map"}}
           \cup {{a.val, b.val} : a, b \in {e \in ev : e.k = "map"}}
           \cup {{a.el, b.el} : a, b \in {e \in ev : e.k = "dyn"}}
           \cup UNION {{{a.el, b.el} : b \in {e \in ev : e.k = "fix" /\ e.len = a.len}} : a \in {e \in ev : e.k = "fix"}}
           : k \in P}

RECURSIVE FullClosure(_, _)
FullClosure(J, P) ==
    LET Q == Unite(P, {p \in ComponentEqs(J, P) : Cardinality(p) = 2}) IN
    IF Q = P THEN P ELSE FullClosure(J, Q)

(* A class is clean when nothing in it contradicts anything else in it and no absorbing *)
(* evidence (Bytes) sits next to a constructor: then every order merges it the same way. *)
Clean(ev) == /\ \A a, b \in ev : ~Contradictory(a, b)
             /\ ~(TBytes \in ev /\ \E e \in ev : e.k \in {"dyn", "map", "fix"})
             /\ \A a, b \in ev : Merge(a, b).e.k # "conflict"

(* Component equalities that every order must produce: those inside clean classes of the full closure. *)
DemandedEqs(V, J) ==
    LET F == FullClosure(J, DeclaredClasses(V, J)) IN
    UNION {IF Clean(EvidenceOf(J, k)) THEN {p \in ComponentEqs(J, {k}) : Cardinality(p) = 2} ELSE {} : k \in F}

PostComponents(c, V, J) == \A p \in DemandedEqs(V, J) : \E k \in c.part : p \subseteq k

------------------------------------------------------------------------------
(* C15: joins and conflicts. *)

(* compatible evidence joins to the fold of Merge, which is order-independent on clean sets *)
JoinOf(ev) == IF ev = {} THEN TAny ELSE Fold(CHOOSE s \in Perms(ev) : TRUE).e

PostJoin(c, V, J) ==
    \A k \in c.part :
        LET ev == EvidenceOf(J, k) IN
        (Clean(ev) /\ k \in FullClosure(J, DeclaredClasses(V, J))) =>
            LET got == IF c.infs[k] = {} THEN TAny ELSE CHOOSE e \in c.infs[k] : TRUE IN
            /\ got.k # "conflict"
            /\ got.k = JoinOf(ev).k
            /\ got.k = "word" => got = JoinOf(ev)

(* When every class of the full closure is clean, every component equality is demanded, so the classes the  *)
(* evidence implies are exactly the closure's, and every variable must resolve to the join of all the evidence *)
(* about its closure class - also evidence that reaches it only through a component equality.                 *)
AllClean(V, J) == \A k \in FullClosure(J, DeclaredClasses(V, J)) : Clean(EvidenceOf(J, k))
PostJoinClosure(c, V, J) ==
    AllClean(V, J) =>
        \A K \in FullClosure(J, DeclaredClasses(V, J)) : \A v \in K :
            LET ev == EvidenceOf(J, K)
                got == Resolved(c, v) IN
            /\ got.k # "conflict"
            /\ got.k = JoinOf(ev).k
            /\ got.k = "word" => got = JoinOf(ev)

(* plainly contradictory evidence, already joined by declared equalities, must end as a conflict *)
MustConflict(V, J) == {k \in DeclaredClasses(V, J) : \E a, b \in EvidenceOf(J, k) : Contradictory(a, b)}
PostConflict(c, V, J) ==
    \A k \in MustConflict(V, J) : \A v \in k : Resolved(c, v).k = "conflict"
(* ... the known way this fails: an absorbing constructor swallowed the contradiction (C16 family A) *)
Absorbed(J, k) == \E e \in EvidenceOf(J, k) : e.k \in {"bytes", "dyn"}
================================================================================
