----------------------------- MODULE StorageTrace -----------------------------
(* Acceptor for call histories recorded from the real `Storage` (harness `storage-trace`): each call is the   *)
(* action of Storage.tla with the recorded arguments; what the call returned and what the storage then holds  *)
(* for the key (its history, and the set of keys) must be what the specification computes.                    *)
(*   Inv_C07_Storage/storage-model   a history that is not exactly the writes, in order; a load that does not *)
(*                                   denote the last write                                                    *)
(*   Inv_C06_NoMissed/storage-model  a read of a never-written key that the storage does not remember         *)
EXTENDS Storage, Json, IOUtils, TLC

Rec == ndJsonDeserialize(IOEnv.TRACE)

VARIABLES l, viol, cnt


Act(e) == CASE e.op = "store" -> Store(e.k, e.v)
            [] e.op = "load" -> Load(e.k)
            [] e.op = "generations" -> Generations(e.k)
            [] e.op = "keys" -> Keys

Verdict(e, s2, r2) ==
    (IF e.op = "load" /\ e.k \notin ToSet(e.keys) THEN {"Inv_C06_NoMissed/storage-model"} ELSE {})
    \cup (IF \/ ToSet(e.keys) # DOMAIN s2 /\ ~(e.op = "load" /\ e.k \notin ToSet(e.keys))
             \/ (e.k \in DOMAIN s2 /\ e.k \in ToSet(e.keys) /\ e.hist # s2[e.k])
             \/ (e.op = "load" /\ e.res # r2)
             \/ (e.op = "generations" /\ e.res # r2)
          THEN {"Inv_C07_Storage/storage-model"} ELSE {})

Init == StInit /\ l = 1 /\ viol = << >> /\ cnt = [calls |-> 0, loads |-> 0, runs |-> 0] /\ TLCSet(1, << >>) /\ TLCSet(2, cnt)

Next ==
    /\ l <= Len(Rec)
    /\ l' = l + 1
    /\ LET e == Rec[l] IN
       IF e.op \in {"begin", "reset"}
       THEN /\ sto' = << >> /\ sres' = None
            /\ viol' = viol /\ cnt' = [cnt EXCEPT !.runs = @ + (IF e.op = "reset" THEN 1 ELSE 0)]
       ELSE /\ Act(e)
            /\ LET f == Verdict(e, sto', sres') IN
               viol' = IF f # {} /\ Len(SelectSeq(viol, LAMBDA v : v.inv = f)) < 6 THEN Append(viol, [at |-> l, inv |-> f]) ELSE viol
            /\ cnt' = [cnt EXCEPT !.calls = @ + 1, !.loads = @ + (IF e.op = "load" THEN 1 ELSE 0)]
    /\ TLCSet(1, viol') /\ TLCSet(2, cnt')

TraceSpec == Init /\ [][Next]_<<stvars, l, viol, cnt>>

Matched == TLCGet("stats").diameter - 1
TraceAccepted ==
    /\ PrintT(<<"TRACE", ToJson([matched |-> Matched, records |-> Len(Rec), viol |-> TLCGet(1), cnt |-> TLCGet(2)])>>)
    /\ Matched = Len(Rec)
    /\ TLCGet(1) = << >>
===============================================================================
