--------------------------------- MODULE Cfg ---------------------------------
(***************************************************************************)
(* Which offsets of a code the EVM can possibly execute: an                *)
(* over-approximation of the EVM control-flow graph computed from the code *)
(* bytes alone (no stack, no gas - those only take executions away).       *)
(*                                                                         *)
(*   - execution starts at offset 0                                        *)
(*   - STOP, RETURN, REVERT, SELFDESTRUCT, INVALID, unassigned bytes and a *)
(*     PUSH cut short by the end of the code have no successor             *)
(*   - JUMP / JUMPI can only be entered by falling through from the        *)
(*     instruction before them (only a JUMPDEST can be jumped to), so when *)
(*     that instruction is a PUSH its immediate IS the target: the only    *)
(*     jump edge goes there, and only if it is the offset of a JUMPDEST at *)
(*     an instruction boundary; otherwise the target is unknown and every  *)
(*     JUMPDEST is a possible successor                                    *)
(*   - JUMPI also falls through; everything else falls through             *)
(*                                                                         *)
(* Serves C05: a storage instruction outside MayReach(code) is not "a      *)
(* storage access the analysed code performs", whatever the tool executed. *)
(***************************************************************************)
EXTENDS DisasmLib, Integers, Sequences, FiniteSets

(* the instruction boundaries in ascending order *)
RECURSIVE Walk(_, _, _)
Walk(bytes, o, acc) == IF o >= Len(bytes) THEN acc ELSE Walk(bytes, o + 1 + PushLen(bytes[o + 1]), Append(acc, o))
Instrs(bytes) == Walk(bytes, 0, << >>)

(* the value of the immediate of the PUSH at offset o, capped just above the code length (any such value is no offset) *)
RECURSIVE Imm(_, _, _, _)
Imm(bytes, i, n, acc) == IF n = 0 \/ acc > Len(bytes) THEN acc ELSE Imm(bytes, i + 1, n - 1, acc * 256 + bytes[i])
PushValue(bytes, o) == Imm(bytes, o + 2, PushLen(bytes[o + 1]), 0)
Complete(bytes, o) == o + 1 + PushLen(bytes[o + 1]) <= Len(bytes)

Succs(bytes, ins, jd, k) ==
    LET o == ins[k]
        b == bytes[o + 1]
        fall == IF k < Len(ins) THEN {ins[k + 1]} ELSE {}
        targets == IF k > 1 /\ IsPush(bytes[ins[k - 1] + 1])
                   THEN (IF PushValue(bytes, ins[k - 1]) \in jd THEN {PushValue(bytes, ins[k - 1])} ELSE {})
                   ELSE jd
    IN IF b \in Halting \/ ~Complete(bytes, o) THEN {}
       ELSE IF b = JUMP THEN targets
       ELSE IF b = JUMPI THEN targets \cup fall
       ELSE fall

IndexOf(ins, o) == CHOOSE k \in 1..Len(ins) : ins[k] = o

RECURSIVE Close(_, _, _, _, _)
Close(bytes, ins, jd, seen, frontier) ==
    IF frontier = {} THEN seen
    ELSE LET new == UNION {Succs(bytes, ins, jd, IndexOf(ins, o)) : o \in frontier} \ seen
         IN Close(bytes, ins, jd, seen \cup new, new)

(* the JUMPDEST bytes at instruction boundaries (the same set as DisasmLib!JumpDests, computed from the walk: a *)
(* LET-bound disassembly would be evaluated again at every use, which is cubic in the code length)            *)
DestsOf(bytes, ins) == {ins[k] : k \in {j \in 1..Len(ins) : bytes[ins[j] + 1] = JUMPDEST}}
MayReachFrom(bytes, ins) == Close(bytes, ins, DestsOf(bytes, ins), {0}, {0})
MayReach(bytes) == IF Len(bytes) = 0 THEN {} ELSE MayReachFrom(bytes, Instrs(bytes))

(* The tool steps through the immediate bytes of a PUSH it executed as no-ops: those offsets belong to the PUSH. *)
WithImmediates(bytes, R) == R \cup {x \in 0..(Len(bytes) - 1) : \E o \in R : x > o /\ x <= o + PushLen(bytes[o + 1])}

(* the storage instructions the code can possibly execute *)
StorageReach(bytes) == {o \in MayReach(bytes) : bytes[o + 1] \in {SLOAD, SSTORE}}
==============================================================================
