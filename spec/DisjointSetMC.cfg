SPECIFICATION MCSpec
CONSTANTS
  Elem = {0, 1, 2, 3}
  Atom = {"a", "b"}
  MaxDepth = 5
INVARIANT TypeOK
PROPERTIES UnionConserves Monotone
CONSTRAINT DepthBound
VIEW View
CHECK_DEADLOCK FALSE
