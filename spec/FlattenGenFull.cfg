SPECIFICATION Spec
CONSTANT N = 8
CHECK_DEADLOCK FALSE
