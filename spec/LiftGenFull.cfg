SPECIFICATION Spec
CONSTANT Full = TRUE
CHECK_DEADLOCK FALSE
