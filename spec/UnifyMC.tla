-------------------------------- MODULE UnifyMC --------------------------------
(***************************************************************************)
(* All judgement sets of up to MaxJ judgements over NVars variables and a  *)
(* small evidence alphabet.  The state is the SET of configurations the    *)
(* unifier can be in after n rounds under ANY iteration order (powerset    *)
(* construction), so properties that compare schedules (C02 confluence)    *)
(* are state predicates.  When every configuration is finished one CASE    *)
(* line is printed: the judgement set, every outcome some schedule yields, *)
(* and the verdict of each post-condition; the harness replays each on the *)
(* real unifier.                                                           *)
(***************************************************************************)
EXTENDS Unify, Json

CONSTANTS NVars, MaxJ,
          HashOrder   \* FALSE: the design as implemented (canonical fold order); TRUE: the deviation

VARIABLES J, S, steps

V == 0..(NVars - 1)

Alphabet == {TWord("numeric", 0), TWord("unsigned", 8), TWord("signed", 0), TWord("address", 160),
             TWord("address", 0), TWord("signed", 160),
             TWord("bytes", 32), TBytes, TAny, TDyn(0), TDyn(1), TMap(0, 1), TMap(1, 2), TMap(2, 2), TFix(0, 3)}

(* sets of four judgements are drawn from a smaller alphabet (one word per usage class, one constructor of each kind) *)
Alphabet4 == {TWord("numeric", 0), TWord("unsigned", 8), TWord("address", 160), TWord("signed", 160), TBytes,
              TDyn(1), TMap(0, 1), TMap(1, 2), TFix(0, 3)}

AllJOver(A) == {<<v, e>> : v \in V, e \in A} \cup {<<v, EqJ(w)>> : v \in V, w \in V}
AllJ == AllJOver(Alphabet)

Sets == IF MaxJ = 2 THEN {{a, b} : a, b \in AllJ}
        ELSE IF MaxJ = 3 THEN {{a, b, c} : a, b, c \in AllJ}
        ELSE {{a, b, c} : a, b, c \in AllJ}

(* MaxJ = 4: additionally every set of three judgements over the smaller alphabet extended by a fourth *)
A4 == AllJOver(Alphabet4)
Sets3of4 == {{a, b, c} : a, b, c \in A4}

Init == \/ \E j \in Sets : J = j /\ S = {Seed(V, j)} /\ steps = 0
        \/ /\ MaxJ = 4
           /\ \E s \in Sets3of4, d \in A4 : J = s \cup {d} /\ S = {Seed(V, J)} /\ steps = 0

AllDone == \A c \in S : c.done

Next == /\ ~AllDone
        /\ S' = UNION {Succ(c, HashOrder) : c \in S}
        /\ steps' = steps + 1
        /\ UNCHANGED J

Spec == Init /\ [][Next]_<<J, S, steps>>

(* C14 / C03: unification terminates (on this evidence: within a few rounds) *)
Inv_C14_Terminates == steps <= 2 * NVars + 2

JudgeJson == {[v |-> j[1], e |-> j[2]] : j \in J}
OutcomeJson(c) == [v \in V |-> [cls |-> ClassOf(c.part, v), typ |-> Resolved(c, v)]]

Verdicts ==
    [one       |-> \A c \in S : PostOne(c),
     eq        |-> \A c \in S : PostEq(c, J),
     comps     |-> \A c \in S : PostComponents(c, V, J),
     join      |-> \A c \in S : PostJoin(c, V, J) /\ PostJoinClosure(c, V, J),
     conflict  |-> \A c \in S : PostConflict(c, V, J),
     absorbed  |-> \E k \in MustConflict(V, J) : Absorbed(J, k),
     confluent |-> Cardinality({Outcome(c, V) : c \in S}) = 1]

Emit == AllDone =>
    PrintT(<<"CASE", ToJson([j |-> JudgeJson, rounds |-> steps,
                             outcomes |-> {OutcomeJson(c) : c \in S}, v |-> Verdicts])>>)

(* Design-level demands that must hold for every judgement set (no known exception): *)
Inv_C14_One  == AllDone => Verdicts.one
Inv_C14_Eq   == AllDone => Verdicts.eq
Inv_C14_Components == AllDone => Verdicts.comps
Inv_C15_Join == AllDone => Verdicts.join
Inv_C15_Conflict == AllDone => Verdicts.conflict
Inv_C02_Confluent == AllDone => Verdicts.confluent
(* On clean evidence every schedule agrees - this is what makes JoinOf well defined. *)
Inv_CleanConfluent ==
    AllDone => ((\A k \in FullClosure(J, DeclaredClasses(V, J)) : Clean(EvidenceOf(J, k))) => Verdicts.confluent)
================================================================================
