SPECIFICATION Spec
CONSTANTS
  KeySet = {"c0", "c20", "c10000000000000000", "c10000000000000020", "s0"}
  ValSet = {"1", "2"}
  MaxOps = 6
  MaxCopy = 64
INVARIANTS Inv_LoadIsLastStore Inv_SliceIsLastStores Inv_Agrees Inv_Unwritten Inv_AppendOnly Inv_StoreLocal Inv_ReadsInvisible
CHECK_DEADLOCK FALSE
