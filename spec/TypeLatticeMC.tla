----------------------------- MODULE TypeLatticeMC -----------------------------
(* C16 on the specification: all ordered pairs and triples of the 40-element  *)
(* evidence domain of the property statement.  Prints the pair table (for the *)
(* comparison with the real merge) and every grouping-dependent triple.       *)
EXTENDS TypeLattice, Json

VARIABLE phase

Widths == {0, 8, 32, 160, 192, 256}
X == 0
Y == 1

Dom == {TAny, TBytes, TConflict}
       \cup {TWord(u, w) : u \in FreeUsages, w \in Widths}
       \cup {TWord(u, FixedWidth(u)) : u \in Usages \ FreeUsages}
       \cup {TMap(a, b) : a \in {X, Y}, b \in {X, Y}}
       \cup {TDyn(X), TDyn(Y)}
       \cup {TFix(X, 3), TFix(Y, 3), TFix(X, 5)}

NonComm  == {p \in Dom \X Dom : ~Commutes(p[1], p[2])}
NonAssoc == {t \in Dom \X Dom \X Dom : ~Assoc(t[1], t[2], t[3])}
Unexplained == {t \in NonAssoc : ~FamilyA(t[1], t[2], t[3]) /\ ~FamilyB(t[1], t[2], t[3])}

Report ==
    /\ PrintT(<<"SUMMARY", ToJson([dom |-> Cardinality(Dom), noncomm |-> Cardinality(NonComm),
                                   nonassoc |-> Cardinality(NonAssoc),
                                   familyA |-> Cardinality({t \in NonAssoc : FamilyA(t[1], t[2], t[3])}),
                                   familyB |-> Cardinality({t \in NonAssoc : ~FamilyA(t[1], t[2], t[3]) /\ FamilyB(t[1], t[2], t[3])}),
                                   unexplained |-> Cardinality(Unexplained)])>>)
    /\ \A p \in NonComm : PrintT(<<"NONCOMM", ToJson([a |-> p[1], b |-> p[2]])>>)
    /\ \A t \in Unexplained : PrintT(<<"UNEXPLAINED", ToJson([a |-> t[1], b |-> t[2], c |-> t[3]])>>)
    /\ \A t \in {t \in NonAssoc : FamilyA(t[1], t[2], t[3])} :
          PrintT(<<"FAMILYA", ToJson([a |-> t[1], b |-> t[2], c |-> t[3]])>>)

Init == phase = 0
Next == phase = 0 /\ phase' = 1 /\ Report
Spec == Init /\ [][Next]_phase
================================================================================
