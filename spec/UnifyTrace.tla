------------------------------- MODULE UnifyTrace -------------------------------
(***************************************************************************)
(* Acceptor for runs of the real unifier (C14, C15, C02 at unifier level). *)
(* A record holds a judgement set and, for each of several runs on it      *)
(* (fresh hash seeds, shuffled insertion order), the projected forest:     *)
(* per variable its class and the expressions left in its inference set.   *)
(* The post-conditions of Unify.tla are evaluated on every run.            *)
(***************************************************************************)
EXTENDS Unify, Json, IOUtils

Rec == ndJsonDeserialize(IOEnv.TRACE)

VARIABLES l, viol, cnt

ToSet(seq) == {seq[i] : i \in DOMAIN seq}

JOf(e) == {<<j.v, j.e>> : j \in ToSet(e.j)}
VOf(e) == 0..(e.nv - 1)

(* The configuration a projected run denotes, restricted to the declared variables. *)
CfgOf(e, run) ==
    LET V == VOf(e)
        vs == {x \in ToSet(run.vars) : x.v \in V}
        P == {ToSet(x.cls) \cap V : x \in vs}
    IN [part |-> P,
        infs |-> [k \in P |-> UNION {ToSet(x.exprs) : x \in {x \in vs : x.v \in k}}],
        done |-> TRUE, rounds |-> 0]

PackedFree(e) == \A j \in ToSet(e.j) : j.e.k # "packed"
Finished(run) == ~run.stopped /\ "panic" \notin DOMAIN run

RunVerdict(e, run) ==
    IF ~Finished(run) THEN {"Inv_C14_Terminates"}
    ELSE LET c == CfgOf(e, run)  V == VOf(e)  J == JOf(e) IN
         \* every variable of the state - those the unifier allocated included - is known to the resulting forest
         (IF PostOne(c) /\ Len(run.unknown) = 0 THEN {} ELSE {"Inv_C14_One"})
         \cup (IF PostEq(c, J) THEN {} ELSE {"Inv_C14_Eq"})
         \cup (IF PackedFree(e) /\ ~PostComponents(c, V, J) THEN {"Inv_C14_Components"} ELSE {})
         \cup (IF PackedFree(e) /\ PostOne(c) /\ ~(PostJoin(c, V, J) /\ PostJoinClosure(c, V, J)) THEN {"Inv_C15_Join"} ELSE {})
         \cup (IF PackedFree(e) /\ PostOne(c) /\ ~PostConflict(c, V, J)
               THEN (IF \E k \in MustConflict(V, J) : Absorbed(J, k)
                     THEN {"Inv_C15_Conflict/absorbed"} ELSE {"Inv_C15_Conflict"})
               ELSE {})

Verdict(e) ==
    IF e.ev = "repeat" THEN
         \* C02 on the whole pipeline: the same bytes and configuration analysed n times
         (IF e.distinct = 1 THEN {} ELSE {"Inv_C02_Deterministic"})
    ELSE IF e.ev # "unify" THEN {}
    ELSE UNION {RunVerdict(e, r) : r \in ToSet(e.runs)}
         \* C02: the same judgement set gives the same forest every time
         \cup (IF e.distinct > 1 /\ \A r \in ToSet(e.runs) : Finished(r) THEN {"Inv_C02_Deterministic"} ELSE {})

Init == l = 1 /\ viol = << >> /\ cnt = [sets |-> 0, runs |-> 0, bad |-> 0] /\ TLCSet(1, << >>) /\ TLCSet(2, cnt)

Next ==
    /\ l <= Len(Rec)
    /\ l' = l + 1
    /\ LET e == Rec[l]  f == Verdict(e) IN
       /\ viol' = IF f # {} /\ Len(SelectSeq(viol, LAMBDA v : v.inv = f)) < 5
                  THEN Append(viol, [at |-> l, inv |-> f]) ELSE viol
       /\ cnt' = [sets |-> cnt.sets + (IF e.ev \in {"unify", "repeat"} THEN 1 ELSE 0),
                  runs |-> cnt.runs + (IF e.ev = "unify" THEN Len(e.runs) ELSE IF e.ev = "repeat" THEN e.n ELSE 0),
                  bad |-> cnt.bad + (IF f # {} THEN 1 ELSE 0)]
    /\ TLCSet(1, viol') /\ TLCSet(2, cnt')

TraceSpec == Init /\ [][Next]_<<l, viol, cnt>>

Matched == TLCGet("stats").diameter - 1
TraceAccepted ==
    /\ PrintT(<<"TRACE", ToJson([matched |-> Matched, records |-> Len(Rec), viol |-> TLCGet(1), cnt |-> TLCGet(2)])>>)
    /\ Matched = Len(Rec)
    /\ TLCGet(1) = << >>
=================================================================================
