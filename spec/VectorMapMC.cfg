SPECIFICATION MCSpec
CONSTANTS
  Key = {0, 1, 2, 3}
  Val = {7, 9}
  MaxDepth = 5
INVARIANT TypeOK
PROPERTY LenStep
CONSTRAINT DepthBound
VIEW View
CHECK_DEADLOCK FALSE
