---------------------------- MODULE LayoutJsonTrace ----------------------------
(* Acceptor for JSON round trips of layout entries performed by the real serde  *)
(* implementations (C20).                                                       *)
EXTENDS LayoutJson, Json, IOUtils

Rec == ndJsonDeserialize(IOEnv.TRACE)

VARIABLES l, viol, cnt

Verdict(e) ==
    IF e.ev # "json" THEN {}
    ELSE (IF e.ok /\ e.eq /\ e.type_back = e.type /\ e.idx_back = e.idx /\ e.offset_back = e.offset
          THEN {} ELSE {"Inv_C20_RoundTrip"})
         \cup (IF ~e.ok \/ (e.index_chars = IndexChars(e.idx) /\ e.top_fields = <<"index", "offset", "type">>
                            /\ e.len_chars_ok)
               THEN {} ELSE {"Inv_C20_IndexFormat"})
         \cup (IF ~e.ok \/ e.shape = WireShape(e.type) THEN {} ELSE {"Inv_C20_WireShape"})

Init == l = 1 /\ viol = << >> /\ cnt = [entries |-> 0, bad |-> 0] /\ TLCSet(1, << >>) /\ TLCSet(2, cnt)

Next ==
    /\ l <= Len(Rec)
    /\ l' = l + 1
    /\ LET e == Rec[l]  f == Verdict(e) IN
       /\ viol' = IF f # {} /\ Len(SelectSeq(viol, LAMBDA v : v.inv = f)) < 8
                  THEN Append(viol, [at |-> l, inv |-> f]) ELSE viol
       /\ cnt' = [entries |-> cnt.entries + (IF e.ev = "json" THEN 1 ELSE 0), bad |-> cnt.bad + (IF f # {} THEN 1 ELSE 0)]
    /\ TLCSet(1, viol') /\ TLCSet(2, cnt')

TraceSpec == Init /\ [][Next]_<<l, viol, cnt>>

Matched == TLCGet("stats").diameter - 1
TraceAccepted ==
    /\ PrintT(<<"TRACE", ToJson([matched |-> Matched, records |-> Len(Rec), viol |-> TLCGet(1), cnt |-> TLCGet(2)])>>)
    /\ Matched = Len(Rec)
    /\ TLCGet(1) = << >>
================================================================================
