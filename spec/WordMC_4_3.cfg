SPECIFICATION Spec
CONSTANTS
  B = 4
  N = 3
INVARIANTS Arith Logic Shifts Division Exponent Ternary
CHECK_DEADLOCK FALSE
