SPECIFICATION Spec
CONSTANTS
  Cap = 3
  Vals = {1, 2}
  MaxOps = 6
  MaxFrame = 3
INVARIANTS Inv_Stack_Bounded Inv_FailUnchanged Inv_Grow Inv_Shrink Inv_PushTop Inv_DupTop Inv_SwapPerm Inv_Demand
CHECK_DEADLOCK FALSE
