------------------------------- MODULE Opcodes -------------------------------
(***************************************************************************)
(* The Shanghai opcode table as data: which bytes are assigned, immediate  *)
(* lengths, stack effect, which opcodes end a path.  Written from the EVM  *)
(* specification (not from the tool's byte-to-opcode table), so that the   *)
(* tool's table is checked against it.                                     *)
(***************************************************************************)
EXTENDS Integers, Sequences

Byte == 0..255

Assigned ==
    (0..11) \cup (16..29) \cup {32} \cup (48..72) \cup (80..91) \cup (95..127)
    \cup (128..143) \cup (144..159) \cup (160..164) \cup (240..245) \cup {250, 253, 254, 255}

STOP == 0       ADD == 1        MUL == 2       SUB == 3       DIV == 4
SDIV == 5       MOD == 6        SMOD == 7      ADDMOD == 8    MULMOD == 9
EXP == 10       SIGNEXTEND == 11
LT == 16        GT == 17        SLT == 18      SGT == 19      EQ == 20
ISZERO == 21    AND == 22       OR == 23       XOR == 24      NOT == 25
BYTE == 26      SHL == 27       SHR == 28      SAR == 29
SHA3 == 32
CALLDATALOAD == 53  CALLDATASIZE == 54  CODESIZE == 56
POP == 80       MLOAD == 81     MSTORE == 82   MSTORE8 == 83
SLOAD == 84     SSTORE == 85    JUMP == 86     JUMPI == 87
PC == 88        MSIZE == 89     GAS == 90      JUMPDEST == 91
PUSH0 == 95
RETURN == 243   REVERT == 253   INVALID == 254 SELFDESTRUCT == 255

IsPush(b)  == b \in 96..127          \* PUSH1..PUSH32
PushLen(b) == IF IsPush(b) THEN b - 95 ELSE 0
IsDup(b)   == b \in 128..143
DupN(b)    == b - 127
IsSwap(b)  == b \in 144..159
SwapN(b)   == b - 143
IsLog(b)   == b \in 160..164

(* Opcodes after which the EVM executes nothing more on this path. *)
Halting == {STOP, RETURN, REVERT, INVALID, SELFDESTRUCT} \cup (Byte \ Assigned)

(* Stack items popped / pushed. *)
Pops(b) ==
    CASE b \in {STOP, JUMPDEST, PUSH0, PC, MSIZE, GAS, CALLDATASIZE, CODESIZE, INVALID} -> 0
      [] b \in {48, 50, 51, 52, 58, 61, 65, 66, 67, 68, 69, 70, 71, 72} -> 0
      [] IsPush(b) -> 0
      [] b \in {ISZERO, NOT, POP, MLOAD, SLOAD, JUMP, CALLDATALOAD, 49, 59, 63, 64, SELFDESTRUCT} -> 1
      [] b \in (1..7) \cup {EXP, SIGNEXTEND} \cup (16..20) \cup {AND, OR, XOR, BYTE, SHL, SHR, SAR, SHA3,
                MSTORE, MSTORE8, SSTORE, JUMPI, RETURN, REVERT} -> 2
      [] b \in {ADDMOD, MULMOD, 55, 57, 62, 240} -> 3
      [] b \in {60, 245} -> 4
      [] b \in {244, 250} -> 6
      [] b \in {241, 242} -> 7
      [] IsDup(b) -> DupN(b)
      [] IsSwap(b) -> SwapN(b) + 1
      [] IsLog(b) -> (b - 160) + 2
      [] OTHER -> 0

Pushes(b) ==
    CASE b \in {STOP, JUMPDEST, POP, MSTORE, MSTORE8, SSTORE, JUMP, JUMPI, RETURN, REVERT, INVALID,
                SELFDESTRUCT, 55, 57, 60, 62} -> 0
      [] IsLog(b) -> 0
      [] IsDup(b) -> DupN(b) + 1
      [] IsSwap(b) -> SwapN(b) + 1
      [] b \in Byte \ Assigned -> 0
      [] OTHER -> 1
==============================================================================
