----------------------------- MODULE MemoryTrace -----------------------------
(* Acceptor for call histories recorded from the real `Memory` (harness `memory-trace`): each call is the     *)
(* action of Memory.tla with the recorded arguments; what a load or a slice returned must be what the         *)
(* specification computes from the history of stores.                                                        *)
(*   Inv_C07_Memory/memory-model   a load that does not return the last value stored at exactly that offset  *)
(*                                 (or zero), a slice that is not the words at k, k+32, ...                   *)
(* Offsets: <<"c", hi, lo>> is the constant hi * 2^24 + lo (hi the big-endian bytes of the high part without  *)
(* leading zeros, so that offsets that agree in any number of low bits stay distinct); <<"s", <<i>>, 0>> the  *)
(* i-th symbolic offset.  Slices are only taken where lo + n < 2^24, so the word offsets of a slice are       *)
(* <<"c", hi, lo + 32 i>>.  Deliberate deviation of the code, named here: a constant offset of 2^64 or more   *)
(* (`Wide`) is tracked like a symbolic one - a slice taken there is the single word at that offset.           *)
(* How many entries the memory reports is compared too, but a difference is only counted (`drift`): no listed *)
(* property says that reads are remembered.                                                                   *)
EXTENDS Memory, Json, IOUtils, TLC

Rec == ndJsonDeserialize(IOEnv.TRACE)

VARIABLES l, viol, cnt

Wide(k) == k[1] = "c" /\ Len(k[2]) > 5
SliceKeys(k, n) == [i \in 1..WordsOf(n) |-> <<"c", k[2], k[3] + 32 * (i - 1)>>]

Act(e) == CASE e.op \in {"store", "store8"} -> Store(e.k, e.v)
            [] e.op = "load" -> Load(e.k)
            [] e.op = "slice" -> IF e.k[1] = "c" /\ ~Wide(e.k) /\ e.n >= 0 THEN LoadSliceConst(SliceKeys(e.k, e.n)) ELSE Load(e.k)
            [] e.op = "entries" -> Entries

(* what offset k holds, whether or not it was ever touched *)
Holds(m, k) == IF k \in DOMAIN m THEN Last(m[k]) ELSE Zero
(* a slice at a wide constant offset may also be answered word by word (no property forbids either form) *)
WideSliceOK(e, m) == /\ e.op = "slice" /\ Wide(e.k) /\ e.n >= 0
                     /\ e.res = Concat([i \in 1..WordsOf(e.n) |-> Holds(m, SliceKeys(e.k, e.n)[i])])
Verdict(e, m2, r2) ==
    IF e.op \in {"load", "slice"} /\ e.res # r2 /\ ~WideSliceOK(e, m2) THEN {"Inv_C07_Memory/memory-model"} ELSE {}

Init == MInit /\ l = 1 /\ viol = << >> /\ cnt = [calls |-> 0, loads |-> 0, slices |-> 0, runs |-> 0, drift |-> 0] /\ TLCSet(1, << >>) /\ TLCSet(2, cnt)

Next ==
    /\ l <= Len(Rec)
    /\ l' = l + 1
    /\ LET e == Rec[l] IN
       IF e.op \in {"begin", "reset"}
       THEN /\ mem' = << >> /\ mres' = MNone
            /\ viol' = viol /\ cnt' = [cnt EXCEPT !.runs = @ + (IF e.op = "reset" THEN 1 ELSE 0)]
       ELSE /\ Act(e)
            /\ LET f == Verdict(e, mem', mres') IN
               viol' = IF f # {} /\ Len(viol) < 8 THEN Append(viol, [at |-> l, inv |-> f]) ELSE viol
            /\ cnt' = [cnt EXCEPT !.calls = @ + 1, !.loads = @ + (IF e.op = "load" THEN 1 ELSE 0),
                                  !.slices = @ + (IF e.op = "slice" THEN 1 ELSE 0),
                                  !.drift = @ + (IF e.entries # Cardinality(DOMAIN mem') THEN 1 ELSE 0)]
    /\ TLCSet(1, viol') /\ TLCSet(2, cnt')

TraceSpec == Init /\ [][Next]_<<mvars, l, viol, cnt>>

Matched == TLCGet("stats").diameter - 1
TraceAccepted ==
    /\ PrintT(<<"TRACE", ToJson([matched |-> Matched, records |-> Len(Rec), viol |-> TLCGet(1), cnt |-> TLCGet(2)])>>)
    /\ Matched = Len(Rec)
    /\ TLCGet(1) = << >>
===============================================================================
