------------------------------- MODULE LayoutGen -------------------------------
(* Every AbiType tree of depth <= 2 over all 17 variants (option fields none / *)
(* 8 / 256, array lengths from a boundary set, conflicts with and without      *)
(* payloads), one CASE line each; the harness builds the value, serialises it, *)
(* parses it back and LayoutJsonTrace judges the result.                       *)
EXTENDS LayoutJson, Json

VARIABLE t

Opt == {0, 8, 256}
T(k, n, sub, offs, len) == [k |-> k, n |-> n, sub |-> sub, offs |-> offs, len |-> len]
NoLen == << >>
Word32(hi, lo) == [i \in 1..32 |-> IF i = 16 THEN hi ELSE IF i = 32 THEN lo ELSE 0]
Lens == {Word32(0, 0), Word32(0, 3), Word32(1, 0), [i \in 1..32 |-> 255], [i \in 1..32 |-> IF i = 1 THEN 128 ELSE 0]}

Leaves == {T(k, 0, << >>, << >>, NoLen) : k \in {"any", "address", "selector", "function", "bool", "dyn_bytes", "infinite"}}
          \cup {T(k, n, << >>, << >>, NoLen) : k \in {"number", "uint", "int", "bytes", "bits"}, n \in Opt}
          \cup {T("conflict", p, << >>, << >>, NoLen) : p \in {0, 2}}      \* n = number of payload strings

Depth2 == {T("array", 0, <<a>>, << >>, l) : a \in Leaves, l \in Lens}
          \cup {T("dyn_array", 0, <<a>>, << >>, NoLen) : a \in Leaves}
          \cup {T("mapping", 0, <<a, b>>, << >>, NoLen) : a \in Leaves, b \in Leaves}
          \cup {T("struct", 0, <<a>>, <<o>>, NoLen) : a \in Leaves, o \in {0, 248}}
          \cup {T("struct", 0, <<a, b>>, <<0, 128>>, NoLen) : a \in Leaves, b \in {T("address", 0, << >>, << >>, NoLen), T("uint", 8, << >>, << >>, NoLen)}}
          \cup {T("struct", 0, << >>, << >>, NoLen)}

Init == t \in Leaves \cup Depth2
Next == FALSE /\ t' = t
Spec == Init /\ [][Next]_t
Emit == PrintT(<<"CASE", ToJson([type |-> t])>>)
================================================================================
