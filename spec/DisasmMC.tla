------------------------------- MODULE DisasmMC -------------------------------
(* All byte strings up to MaxLen over a class-representative alphabet.  Every *)
(* terminal state is printed as one replay case for the real disassembler.    *)
EXTENDS Disasm, Json
CONSTANT MaxLen
Alphabet == {STOP, JUMPDEST, JUMP, 96, 97, 127, 12, ADD}
MCNext == Next(Alphabet)
MCSpec == Init /\ [][MCNext]_vars
Bound == Len(code) <= MaxLen
Emit == status # "reading" =>
          PrintT(<<"CASE", ToJson([code |-> code, status |-> status,
                                   kinds |-> [i \in 1..Len(out) |-> out[i].k]])>>)
(* Every non-empty string has an accepting end: no reading state is stuck. *)
NoStuck == (status = "reading" /\ Len(code) > 0) => (ENABLED EndComplete \/ ENABLED EndTruncated)
===============================================================================
