----------------------------- MODULE PackedMerge -----------------------------
(***************************************************************************)
(* What it means to combine two packed encodings of one word               *)
(* (src/tc/unification.rs, the (Packed, Packed) arm of `merge`).           *)
(*                                                                         *)
(* A packed encoding is a set of spans <<off, size, var>> that do not      *)
(* overlap: "bits off .. off+size-1 of the word are the value of type      *)
(* variable var".  Two encodings of the same word say so about the same    *)
(* bits, so their combination is their common refinement:                  *)
(*                                                                         *)
(*   Cuts(P, Q)      every offset where a span of P or Q begins or ends    *)
(*   Refined(P, Q)   the intervals between consecutive cuts                *)
(*                                                                         *)
(* and every input span is exactly the concatenation of the refined spans  *)
(* that lie within it: its variable is equated with the one refined span,  *)
(* or is itself a packed encoding of the refined spans *re-based to the    *)
(* start of the span* (bit 0 of a variable is its own lowest bit).         *)
(*                                                                         *)
(* The predicates below judge an observed outcome [spans, eqs, judgs] of   *)
(* the real merge on inputs P, Q without fixing the names of the fresh     *)
(* variables or the form in which a single-piece span is equated:          *)
(*                                                                         *)
(*   WithinExtent   (C12) the resulting spans do not overlap and lie       *)
(*                  within the extent of the inputs                        *)
(*   PiecesInside   (C12) every piece that a judgement places in an input  *)
(*                  span's variable lies within that span's width          *)
(*   Components     (C14) the resulting spans tile every input span        *)
(*                  exactly, and the span's variable is tied to exactly    *)
(*                  those spans, re-based to its start                     *)
(*   Refines        the resulting spans are exactly Refined(P, Q): what    *)
(*                  the code does today; a finer result would satisfy      *)
(*                  every demand above, so this one is only counted        *)
(***************************************************************************)
EXTENDS Integers, Sequences, FiniteSets

Off(s) == s[1]
Size(s) == s[2]
Var(s) == s[3]
End(s) == s[1] + s[2]

Disjoint(S) == \A a, b \in S : a = b \/ End(a) <= Off(b) \/ End(b) <= Off(a)
Cuts(P, Q) == {Off(s) : s \in P \cup Q} \cup {End(s) : s \in P \cup Q}
(* the intervals <<lo, hi>> between consecutive cuts *)
Refined(P, Q) == LET C == Cuts(P, Q) IN {<<a, b>> \in C \X C : a < b /\ ~\E c \in C : a < c /\ c < b}
Inside(r, s) == Off(s) <= Off(r) /\ End(r) <= End(s)

WithinExtent(P, Q, out) ==
    LET R == {out.spans[i] : i \in 1..Len(out.spans)}
        C == Cuts(P, Q)
    IN /\ Disjoint(R) /\ Cardinality(R) = Len(out.spans)
       /\ \A r \in R : \E lo, hi \in C : lo <= Off(r) /\ End(r) <= hi /\ Size(r) > 0

Refines(P, Q, out) ==
    {<<Off(out.spans[i]), End(out.spans[i])>> : i \in 1..Len(out.spans)} = Refined(P, Q)

(* what the outcome says about variable v: the packed encodings judged for it, as sets of spans *)
JudgedFor(out, v) == {{out.judgs[i].spans[k] : k \in 1..Len(out.judgs[i].spans)} : i \in {j \in 1..Len(out.judgs) : out.judgs[j].var = v}}
Equated(out, a, b) == a = b \/ \E i \in 1..Len(out.eqs) : {out.eqs[i][1], out.eqs[i][2]} = {a, b}

PiecesInside(P, Q, out) ==
    \A s \in P \cup Q : \A J \in JudgedFor(out, Var(s)) : \A p \in J : Off(p) >= 0 /\ End(p) <= Size(s)

RECURSIVE SumSizes(_)
SumSizes(S) == IF S = {} THEN 0 ELSE LET x == CHOOSE x \in S : TRUE IN Size(x) + SumSizes(S \ {x})

Components(P, Q, out) ==
    LET R == {out.spans[i] : i \in 1..Len(out.spans)} IN
    \A s \in P \cup Q :
        LET pieces == {r \in R : Inside(r, s)}
            rebased == {<<Off(r) - Off(s), Size(r), Var(r)>> : r \in pieces}
        IN \* the resulting spans within s tile it exactly (they do not overlap: WithinExtent), and none straddles its ends
           /\ SumSizes(pieces) = Size(s)
           /\ \A r \in R : Inside(r, s) \/ End(r) <= Off(s) \/ End(s) <= Off(r)
           /\ (IF Cardinality(pieces) = 1
               THEN (\E r \in pieces : Equated(out, Var(s), Var(r))) \/ rebased \in JudgedFor(out, Var(s))
               ELSE rebased \in JudgedFor(out, Var(s)))
==============================================================================
