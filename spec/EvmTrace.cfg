SPECIFICATION TraceSpec
CONSTANTS
  B = 256
  N = 32
POSTCONDITION TraceAccepted
CHECK_DEADLOCK FALSE
