SPECIFICATION Spec
INVARIANTS TypeOK LayoutOnlyAtEnd NoStuck
CHECK_DEADLOCK FALSE
