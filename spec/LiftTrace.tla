----------------------------- MODULE LiftTrace -----------------------------
(* Acceptor for the real lifting passes run on the terms of LiftGen.tla (harness `lift-replay`).  Each record   *)
(* carries the generated term (`case`), the real value built from it written back as a term (`orig`: must mean  *)
(* the same as `case`, or the harness is wrong) and what the crate's default passes made of it (`lifted`).      *)
(*   Inv_C12_InSlot/lift           a sub-word or span that does not lie inside the 256-bit word                *)
(*   Inv_C04_Expected/lift-bits    no reading of the lifted value draws exactly the bits the original draws    *)
(*   Inv_C04_Expected/lift-packed  a packed write whose fields are not reported as spans at their offsets and  *)
(*                                 widths, supplied by the right bits                                          *)
(*   Inv_C04_Expected/lift-packed-update  a read-modify-write chain that is not a packed encoding some reading *)
(*                                 of which has every written field's bits in place                            *)
EXTENDS Lift, Json, IOUtils, TLC

Rec == ndJsonDeserialize(IOEnv.TRACE)

VARIABLES l, viol, cnt

RECURSIVE Judgeable(_)
RECURSIVE SpansJudgeable(_)
SpansJudgeable(spans) == spans = << >> \/ (Judgeable(Head(spans)[3]) /\ SpansJudgeable(Tail(spans)))
Judgeable(T) ==
    CASE T[1] \in {"x", "sload"} -> TRUE
      [] T[1] \in {"and", "keep", "shr", "shl", "shifted", "subword"} -> Judgeable(T[2])
      [] T[1] = "or" -> Judgeable(T[2]) /\ Judgeable(T[3])
      [] T[1] = "packed" -> SpansJudgeable(T[2])
      [] T[1] = "write" -> Judgeable(T[3])
      [] OTHER -> FALSE

Verdict(e) ==
    IF e.outcome # "ok" \/ ~Judgeable(e.orig) THEN {"Harness/lift-outcome"}
    ELSE IF BitsSet(e.case) # BitsSet(Body(e.orig)) THEN {"Harness/describe"}
    ELSE (IF ~InWord(e.lifted) THEN {"Inv_C12_InSlot/lift"} ELSE {})
         \cup (IF Judgeable(e.lifted) /\ ~LiftKeepsBits(e.orig, e.lifted) THEN {"Inv_C04_Expected/lift-bits"} ELSE {})
         \* a fresh packed write: what is demanded is the meaning (PackedMeans); that every field is a span of its own
         \* (PackedPlaces) is what the code does today and is only counted when it fails (`drift`)
         \cup (IF e.fam = "write" /\ ~PackedMeans(e.orig, e.lifted) THEN {"Inv_C04_Expected/lift-packed"} ELSE {})
         \cup (IF e.fam = "update" /\ ~PackedMeans(e.orig, e.lifted) THEN {"Inv_C04_Expected/lift-packed-update"} ELSE {})

Init == l = 1 /\ viol = << >> /\ cnt = [cases |-> 0, judged |-> 0, writes |-> 0, drift |-> 0] /\ TLCSet(1, << >>) /\ TLCSet(2, cnt)

Next ==
    /\ l <= Len(Rec)
    /\ l' = l + 1
    /\ LET e == Rec[l] IN
       IF e.ev # "lift" THEN UNCHANGED <<viol, cnt>>
       ELSE LET f == Verdict(e) IN
            /\ viol' = IF f # {} /\ Len(viol) < 40 THEN Append(viol, [at |-> l, inv |-> f]) ELSE viol
            /\ cnt' = [cnt EXCEPT !.cases = @ + 1, !.judged = @ + (IF e.outcome = "ok" /\ Judgeable(e.lifted) THEN 1 ELSE 0),
                                  !.writes = @ + (IF e.fam \in {"write", "update"} THEN 1 ELSE 0),
                                  !.drift = @ + (IF e.fam = "write" /\ e.outcome = "ok" /\ Judgeable(e.orig) /\ ~PackedPlaces(e.orig, e.lifted) THEN 1 ELSE 0)]
    /\ TLCSet(1, viol') /\ TLCSet(2, cnt')

TraceSpec == Init /\ [][Next]_<<l, viol, cnt>>

Matched == TLCGet("stats").diameter - 1
TraceAccepted ==
    /\ PrintT(<<"TRACE", ToJson([matched |-> Matched, records |-> Len(Rec), viol |-> TLCGet(1), cnt |-> TLCGet(2)])>>)
    /\ Matched = Len(Rec)
    /\ TLCGet(1) = << >>
===============================================================================
