------------------------------ MODULE StackTrace ------------------------------
(* Acceptor for histories recorded from the real operand stack (harness `stack-trace`): every call is      *)
(* matched to the action of Stack.tla, and what the call reported (result class, value, depth, the top few *)
(* items) must be what the specification computes.                                                        *)
(*   Inv_C17_Demand/stack-model   an under- or overflow was not raised (or raised without cause), or a     *)
(*                                failing call changed the stack                                           *)
(*   Inv_C07_Stack/stack-model    a successful call returned or left behind the wrong values               *)
EXTENDS Stack, Json, IOUtils, TLC

Rec == ndJsonDeserialize(IOEnv.TRACE)

VARIABLES l, viol, cnt

TopItems(s, k) == [i \in 1..(IF Len(s) < k THEN Len(s) ELSE k) |-> s[Len(s) + 1 - i]]    \* top first

Act(e) == CASE e.op = "push" -> Push(e.a)
            [] e.op = "pop" -> Pop
            [] e.op = "read" -> Read(e.a)
            [] e.op = "dup" -> Dup(e.a)
            [] e.op = "swap" -> Swap(e.a)

Failing(k) == k \in {"underflow", "overflow"}

(* judged on the successor state the specification computed *)
Verdict(e, s1, s2, r2) ==
    (IF Failing(e.res) # Failing(r2.k)
        \/ (Failing(e.res) /\ e.res # r2.k /\ ~(e.op = "dup" /\ e.a >= Len(s1) /\ Len(s1) + 1 > Cap))
     THEN {"Inv_C17_Demand/stack-model"} ELSE {})
    \cup (IF ~Failing(e.res) /\ ~Failing(r2.k) /\
             (e.depth # Len(s2) \/ e.top # TopItems(s2, 4) \/ (r2.k = "val" /\ e.val # r2.v))
          THEN {"Inv_C07_Stack/stack-model"} ELSE {})
    \cup (IF Failing(e.res) /\ (e.depth # Len(s2) \/ e.top # TopItems(s2, 4)) THEN {"Inv_C17_Demand/stack-model"} ELSE {})

Init == SInit /\ l = 1 /\ viol = << >> /\ cnt = [calls |-> 0, failing |-> 0, runs |-> 0] /\ TLCSet(1, << >>) /\ TLCSet(2, cnt)

Next ==
    /\ l <= Len(Rec)
    /\ l' = l + 1
    /\ LET e == Rec[l] IN
       IF e.op \in {"begin", "reset"}
       THEN /\ stk' = [i \in 1..(IF e.op = "reset" THEN e.fill ELSE 0) |-> 0 - i] /\ res' = Ok
            /\ viol' = viol /\ cnt' = [cnt EXCEPT !.runs = @ + (IF e.op = "reset" THEN 1 ELSE 0)]
       ELSE /\ Act(e)
            /\ LET f == Verdict(e, stk, stk', res') IN
               viol' = IF f # {} /\ Len(SelectSeq(viol, LAMBDA v : v.inv = f)) < 6 THEN Append(viol, [at |-> l, inv |-> f]) ELSE viol
            /\ cnt' = [cnt EXCEPT !.calls = @ + 1, !.failing = @ + (IF Failing(e.res) THEN 1 ELSE 0)]
    /\ TLCSet(1, viol') /\ TLCSet(2, cnt')

TraceSpec == Init /\ [][Next]_<<svars, l, viol, cnt>>

Matched == TLCGet("stats").diameter - 1
TraceAccepted ==
    /\ PrintT(<<"TRACE", ToJson([matched |-> Matched, records |-> Len(Rec), viol |-> TLCGet(1), cnt |-> TLCGet(2)])>>)
    /\ Matched = Len(Rec)
    /\ TLCGet(1) = << >>
===============================================================================
