-------------------------------- MODULE Stack --------------------------------
(***************************************************************************)
(* The operand stack of the symbolic machine (src/vm/state/stack.rs): a    *)
(* bounded LIFO of values with the generalised DUP / SWAP the opcodes use. *)
(* One action per public method; every call reports a result in `res`.     *)
(*                                                                         *)
(*   Push(x)   push       overflow when the stack already holds Cap items  *)
(*   Pop       pop        underflow on the empty stack                     *)
(*   Read(d)   read       frame d counted from the top (0 = top)           *)
(*   Dup(f)    duplicate  frame f must exist and there must be room        *)
(*   Swap(f)   swap       top <-> frame f; both must exist                 *)
(*                                                                         *)
(* A failing call leaves the stack as it was.  Serves C17 (under- and      *)
(* overflow are raised, never absorbed) and C07 (DUPn / SWAPn / POP move   *)
(* exactly the values the EVM moves).                                      *)
(***************************************************************************)
EXTENDS Naturals, Sequences

CONSTANT Cap          \* 1024 in the EVM

VARIABLES stk,        \* sequence of values, the top is the LAST element
          res         \* result of the last call: [k, v]  k in {"ok", "val", "underflow", "overflow"}

svars == <<stk, res>>

Depth == Len(stk)
Frame(d) == stk[Depth - d]                 \* defined when d < Depth
Ok == [k |-> "ok", v |-> 0]
Val(x) == [k |-> "val", v |-> x]
Under == [k |-> "underflow", v |-> 0]
Over == [k |-> "overflow", v |-> 0]

SInit == stk = << >> /\ res = Ok

Push(x) == IF Depth + 1 > Cap THEN res' = Over /\ UNCHANGED stk
           ELSE stk' = Append(stk, x) /\ res' = Ok

Pop == IF Depth = 0 THEN res' = Under /\ UNCHANGED stk
       ELSE stk' = SubSeq(stk, 1, Depth - 1) /\ res' = Val(stk[Depth])

Read(d) == /\ UNCHANGED stk
           /\ res' = IF d < Depth THEN Val(Frame(d)) ELSE Under

(* when the frame is missing AND the stack is full, which of the two errors is reported is not pinned down; *)
(* the specification reports the missing frame (acceptors allow the other)                                 *)
Dup(f) == IF f >= Depth THEN res' = Under /\ UNCHANGED stk
          ELSE IF Depth + 1 > Cap THEN res' = Over /\ UNCHANGED stk
          ELSE stk' = Append(stk, Frame(f)) /\ res' = Ok

Swap(f) == IF f >= Depth THEN res' = Under /\ UNCHANGED stk
           ELSE /\ stk' = [i \in 1..Depth |-> IF i = Depth THEN Frame(f) ELSE IF i = Depth - f THEN stk[Depth] ELSE stk[i]]
                /\ res' = Ok

(* what every state satisfies *)
Inv_Stack_Bounded == Depth <= Cap
=============================================================================
