----------------------------- MODULE PackedTrace -----------------------------
(* Acceptor for the real `merge` on pairs of packed encodings (harness `packed-replay`) against PackedMerge.tla. *)
(*   Inv_C12_InSlot/packed-merge       resulting spans overlap or leave the extent of the inputs; a piece that a   *)
(*                                     judgement places in an input span's variable leaves that span's width       *)
(*   Inv_C14_Components/packed-merge   the resulting spans do not tile an input span, or its variable is not tied   *)
(*                                     to exactly the spans within it (a result other than the common refinement    *)
(*                                     that satisfies this is only counted: `drift`)                               *)
(*   Inv_C01_Total/packed-merge        the combination panicked                                                    *)
EXTENDS PackedMerge, Json, IOUtils, TLC

Rec == ndJsonDeserialize(IOEnv.TRACE)

VARIABLES l, viol, cnt

AsSet(sq) == {sq[i] : i \in 1..Len(sq)}

Verdict(e) ==
    LET P == AsSet(e.a)
        Q == AsSet(e.b)
    IN IF e.kind = "panic" THEN {"Inv_C01_Total/packed-merge"}
       ELSE IF e.kind # "packed" THEN {"Inv_C14_Components/packed-merge"}
       ELSE (IF WithinExtent(P, Q, e.out) /\ PiecesInside(P, Q, e.out) THEN {} ELSE {"Inv_C12_InSlot/packed-merge"})
            \cup (IF Components(P, Q, e.out) THEN {} ELSE {"Inv_C14_Components/packed-merge"})

Init == l = 1 /\ viol = << >> /\ cnt = [pairs |-> 0, refined |-> 0, drift |-> 0] /\ TLCSet(1, << >>) /\ TLCSet(2, cnt)

Next ==
    /\ l <= Len(Rec)
    /\ l' = l + 1
    /\ LET e == Rec[l] IN
       IF e.ev # "packed" THEN UNCHANGED <<viol, cnt>>
       ELSE LET f == Verdict(e) IN
            /\ viol' = IF f # {} /\ Len(viol) < 12 THEN Append(viol, [at |-> l, inv |-> f]) ELSE viol
            /\ cnt' = [cnt EXCEPT !.pairs = @ + 1, !.refined = @ + (IF Len(e.out.judgs) > 0 THEN 1 ELSE 0),
                                  !.drift = @ + (IF e.kind = "packed" /\ ~Refines(AsSet(e.a), AsSet(e.b), e.out) THEN 1 ELSE 0)]
    /\ TLCSet(1, viol') /\ TLCSet(2, cnt')

TraceSpec == Init /\ [][Next]_<<l, viol, cnt>>

Matched == TLCGet("stats").diameter - 1
TraceAccepted ==
    /\ PrintT(<<"TRACE", ToJson([matched |-> Matched, records |-> Len(Rec), viol |-> TLCGet(1), cnt |-> TLCGet(2)])>>)
    /\ Matched = Len(Rec)
    /\ TLCGet(1) = << >>
===============================================================================
