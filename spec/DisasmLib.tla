------------------------------ MODULE DisasmLib ------------------------------
(***************************************************************************)
(* The variable-free part of the disassembler specification: entry kinds   *)
(* and the disassembler as a function of a whole byte string.  Shared by   *)
(* Disasm.tla (the streaming machine) and by every module that needs to    *)
(* know where the instruction boundaries and jump destinations of a code   *)
(* are (SymVM, Evm).                                                       *)
(***************************************************************************)
EXTENDS Opcodes, TLC

(* Entry kinds:                                                            *)
(*   "push"     a PUSHn with its whole immediate present                   *)
(*   "imm"      a byte of a complete immediate: NOT an instruction         *)
(*   "jumpdest" a JUMPDEST at an instruction boundary                      *)
(*   "op"       any other assigned opcode at an instruction boundary       *)
(*   "invalid"  an unassigned byte at an instruction boundary, or 0xfe     *)
(*   "trunc"    the PUSH byte and the partial immediate of a PUSH that the *)
(*              end of the code cut short; tolerated, never a jump target  *)
Entry(k, b) == [k |-> k, b |-> b]

KindAtBoundary(b) ==
    IF IsPush(b) THEN "push"
    ELSE IF b = JUMPDEST THEN "jumpdest"
    ELSE IF b \in Assigned /\ b # INVALID THEN "op"
    ELSE "invalid"

(* The same machine as a function of a whole byte string, for acceptors.  *)

RECURSIVE Run(_, _, _, _, _)
Run(bytes, i, pend, pAt, acc) ==
    IF i > Len(bytes)
    THEN IF pend = 0 THEN [status |-> "complete", out |-> acc]
         ELSE [status |-> "truncated",
               out |-> [j \in 1..Len(acc) |-> IF j >= pAt THEN Entry("trunc", acc[j].b) ELSE acc[j]]]
    ELSE LET b == bytes[i] IN
         IF pend > 0 THEN Run(bytes, i + 1, pend - 1, pAt, Append(acc, Entry("imm", b)))
         ELSE Run(bytes, i + 1, PushLen(b), IF IsPush(b) THEN i ELSE pAt,
                  Append(acc, Entry(KindAtBoundary(b), b)))

Disassemble(bytes) == Run(bytes, 1, 0, 0, << >>)

(* 0-based offsets of valid jump destinations. *)
JumpDests(bytes) ==
    LET d == Disassemble(bytes).out IN {i - 1 : i \in {j \in 1..Len(d) : d[j].k = "jumpdest"}}

(* 0-based offsets that are instruction boundaries. *)
Boundaries(bytes) ==
    LET d == Disassemble(bytes).out IN {i - 1 : i \in {j \in 1..Len(d) : d[j].k \notin {"imm"}}}


(* The opcode byte at a 0-based offset, and its entry kind. *)
ByteAt(bytes, off) == bytes[off + 1]
==============================================================================
