SPECIFICATION Spec
CONSTANTS
  B = 16
  N = 2
INVARIANTS Arith Logic Shifts Division Exponent Ternary Bytes
CHECK_DEADLOCK FALSE
