SPECIFICATION Spec
CONSTANT Full = FALSE
INVARIANT Emit
CHECK_DEADLOCK FALSE
