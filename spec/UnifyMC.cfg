SPECIFICATION Spec
CONSTANTS
  NVars = 3
  MaxJ = 3
  HashOrder = FALSE
INVARIANTS Inv_C14_Terminates Inv_C14_One Inv_C14_Eq Inv_C14_Components Inv_C15_Join Inv_CleanConfluent Inv_C15_Conflict Inv_C02_Confluent Emit
CHECK_DEADLOCK FALSE
