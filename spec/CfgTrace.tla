------------------------------ MODULE CfgTrace ------------------------------
(* Acceptor for the offsets the real VM executed (harness `cfg-trace`) against Cfg.tla.                        *)
(*   Inv_C08_Edge/cfg   the VM executed an offset that the EVM cannot possibly reach in this code              *)
(*   Inv_C08_Both/cfg   (programs marked exact: constant targets, no loops, generous limits, permissive mode)  *)
(*                      the VM did not execute an offset the EVM reaches (the tool steps over the JUMPDEST it   *)
(*                      lands on without an event of its own, so destinations are not demanded)                *)
EXTENDS Cfg, Json, IOUtils, TLC

Rec == ndJsonDeserialize(IOEnv.TRACE)

VARIABLES l, viol, cnt

Verdict(e) ==
    LET reach == WithImmediates(e.code, MayReach(e.code))
        ex == {e.executed[i] : i \in 1..Len(e.executed)}
    IN (IF ex \subseteq reach THEN {} ELSE {"Inv_C08_Edge/cfg"})
       \cup (IF e.exact /\ ~e.panic /\ ~((reach \ DestsOf(e.code, Instrs(e.code))) \subseteq ex) THEN {"Inv_C08_Both/cfg"} ELSE {})

Init == l = 1 /\ viol = << >> /\ cnt = [programs |-> 0, exact |-> 0] /\ TLCSet(1, << >>) /\ TLCSet(2, cnt)

Next ==
    /\ l <= Len(Rec)
    /\ l' = l + 1
    /\ LET e == Rec[l] IN
       IF e.ev # "cfg" THEN UNCHANGED <<viol, cnt>>
       ELSE LET f == Verdict(e) IN
            /\ viol' = IF f # {} /\ Len(viol) < 12 THEN Append(viol, [at |-> l, inv |-> f]) ELSE viol
            /\ cnt' = [cnt EXCEPT !.programs = @ + 1, !.exact = @ + (IF e.exact THEN 1 ELSE 0)]
    /\ TLCSet(1, viol') /\ TLCSet(2, cnt')

TraceSpec == Init /\ [][Next]_<<l, viol, cnt>>

Matched == TLCGet("stats").diameter - 1
TraceAccepted ==
    /\ PrintT(<<"TRACE", ToJson([matched |-> Matched, records |-> Len(Rec), viol |-> TLCGet(1), cnt |-> TLCGet(2)])>>)
    /\ Matched = Len(Rec)
    /\ TLCGet(1) = << >>
===============================================================================
