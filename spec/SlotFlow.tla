------------------------------- MODULE SlotFlow -------------------------------
(***************************************************************************)
(* Which slots a layout may and must mention, given the storage accesses   *)
(* the explored paths performed (C05, C06).  The harness walks the values  *)
(* the VM produced (public API) and reports, for every executed SLOAD /    *)
(* SSTORE / read of unwritten storage:                                     *)
(*   consts        constants occurring in the KEY term                     *)
(*   derived       what the documented derivations make of them: the value *)
(*                 a constant sub-term folds to, the pre-image n of a       *)
(*                 constant equal to keccak(n) for n < 10000, sums and      *)
(*                 differences of two constants of the same key            *)
(*   literal       keys that are literal constants (except keccak(n))      *)
(*   value_consts  the same closure for constants in stored VALUES only    *)
(*   storage_ops   executed offsets whose code byte is SLOAD / SSTORE      *)
(*   exec_literal  literal keys of the SLOAD / SSTORE instructions the VM   *)
(*                 executed, as reported by the StorageAccess hook          *)
(***************************************************************************)
EXTENDS Layout

Attributable(keys) == ToSet(keys.consts) \cup ToSet(keys.derived)
Required(keys)     == ToSet(keys.literal) \cup ToSet(keys.exec_literal)

(* C05: no phantom slots; in particular no access at all means an empty layout *)
NoPhantom(entries, keys) == /\ Slots(entries) \subseteq Attributable(keys)
                            /\ (keys.storage_ops = 0 => entries = << >>)
Phantoms(entries, keys)  == Slots(entries) \ Attributable(keys)
(* the known way this fails: the slot occurs only inside the VALUE operand of a store *)
OnlyInValue(entries, keys) == /\ Phantoms(entries, keys) # {}
                              /\ Phantoms(entries, keys) \subseteq ToSet(keys.value_consts)
                              /\ keys.storage_ops > 0

(* C06: no missed slots *)
NoMissed(entries, keys) == Required(keys) \subseteq Slots(entries)
===============================================================================
