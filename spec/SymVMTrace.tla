------------------------------ MODULE SymVMTrace ------------------------------
(***************************************************************************)
(* Trace acceptor for executions of the real VM recorded with the          *)
(* cfg(sle_verif) hooks (C03, C08, C17).  Each record is one event emitted *)
(* at a linearisation point of VM::execute; each is mapped to the SymVM    *)
(* action of the same name with the recorded parameters.  The acceptor is  *)
(* total on well-formed records; the properties are the named invariants   *)
(* of SymVM over `chk`, whose failures are collected (with the record      *)
(* index) and reported by the POSTCONDITION.                               *)
(***************************************************************************)
EXTENDS SymVM, Json, IOUtils

Rec == ndJsonDeserialize(IOEnv.TRACE)

VARIABLES l, viol

tvars == <<vars, l, viol>>

(* The thread that executes next: StoreErr happens inside an instruction,  *)
(* before the Exec record of that instruction.                             *)
RECURSIVE NextExecTid(_)
NextExecTid(i) ==
    IF i > Len(Rec) THEN -1
    ELSE IF Rec[i].ev = "exec" THEN Rec[i].tid
    ELSE IF Rec[i].ev \in {"reset", "finish"} THEN -1
    ELSE NextExecTid(i + 1)

Idle == /\ chk' = AllGood
        /\ UNCHANGED <<cfg, thr, retired, forks, created, errs, pend, fin>>

ModesOK(e) ==
    \* C17: whenever strict mode succeeds, permissive mode returns the same layout
    /\ chk' = [AllGood EXCEPT !.c17_finish = (e.strict = "ok") => (e.perm = "ok" /\ e.same)]
    /\ UNCHANGED <<cfg, thr, retired, forks, created, errs, pend, fin>>

Observed(e) ==
    \* hook-free cross-observation of the stored states through public API
    /\ chk' = [AllGood EXCEPT !.c03_visits = e.max_visit <= cfg.L,
                              !.conform = e.stopped \/ e.states = retired]
    /\ UNCHANGED <<cfg, thr, retired, forks, created, errs, pend>>

Step(e) ==
    CASE e.ev = "begin"    -> Idle
      [] e.ev = "reset"    -> Start(e.code, e.L, e.F, e.G, e.perm)
      [] e.ev = "operand"  -> Operand(e.word)
      [] e.ev = "fork"     -> Fork(e.parent, e.child, e.target, e.forks)
      [] e.ev = "storeerr" -> StoreErr(NextExecTid(l), e.kind, e.loc)
      [] e.ev = "exec"     -> Exec(e.tid, [ip |-> e.ip, ok |-> e.ok, kind |-> e.kind, loc |-> e.loc,
                                          recorded |-> e.recorded, cost |-> e.cost,
                                          gasAfter |-> e.gas_after, visits |-> e.visits, depth |-> e.depth])
      [] e.ev = "advance"  -> Advance(e.tid, e.ip, e.next, e.gas_err)
      [] e.ev = "finish"   -> Finish(e.ok, e.errors, e.stopped)
      [] e.ev = "modes"    -> ModesOK(e)
      [] e.ev = "panic"    -> /\ chk' = [AllGood EXCEPT !.c03_halts = FALSE]
                              /\ UNCHANGED <<cfg, thr, retired, forks, created, errs, pend, fin>>
      [] OTHER             -> Idle

TraceInit ==
    /\ cfg = MkCfg(<<0>>, 1, 1, 1, FALSE)
    /\ thr = << >> /\ retired = 0 /\ forks = <<0>> /\ created = 0 /\ errs = << >>
    /\ pend = NoPend /\ chk = AllGood /\ fin = "run"
    /\ l = 1 /\ viol = << >> /\ TLCSet(1, << >>)

TraceNext ==
    /\ l <= Len(Rec)
    /\ Step(Rec[l])
    /\ l' = l + 1
    /\ viol' = IF Failing(chk') # {} /\ Len(SelectSeq(viol, LAMBDA v : v.inv = Failing(chk'))) < 6
               THEN Append(viol, [at |-> l, inv |-> Failing(chk')]) ELSE viol
    /\ TLCSet(1, viol')

TraceSpec == TraceInit /\ [][TraceNext]_tvars

Matched == TLCGet("stats").diameter - 1
TraceAccepted ==
    /\ PrintT(<<"TRACE", ToJson([matched |-> Matched, records |-> Len(Rec), viol |-> TLCGet(1)])>>)
    /\ Matched = Len(Rec)
    /\ TLCGet(1) = << >>
===============================================================================
