-------------------------------- MODULE Layout --------------------------------
(***************************************************************************)
(* Storage layouts as the tool reports them (C12, C04, C11, C20): a        *)
(* sequence of entries [slot, idx, offset, type] where `slot` is the       *)
(* 256-bit index as 64 hex digits, `idx` the same index as 32 big-endian   *)
(* bytes (so that order can be compared), `offset` a bit offset and `type` *)
(* a tree [k, n, sub, offs].                                               *)
(***************************************************************************)
EXTENDS Integers, Sequences, FiniteSets, TLC

ToSet(seq) == {seq[i] : i \in DOMAIN seq}

(* lexicographic order on equally long byte sequences = numeric order of the words *)
RECURSIVE LexLess(_, _, _)
LexLess(a, b, i) == IF i > Len(a) THEN FALSE
                    ELSE IF a[i] < b[i] THEN TRUE
                    ELSE IF a[i] > b[i] THEN FALSE
                    ELSE LexLess(a, b, i + 1)
WordLess(a, b) == LexLess(a, b, 1)

EntryLeq(e, f) == \/ WordLess(e.idx, f.idx)
                  \/ (e.idx = f.idx /\ e.offset <= f.offset)

(* C12: ordered by slot index and, within a slot, by bit offset *)
Sorted(entries) == \A i \in 1..(Len(entries) - 1) : EntryLeq(entries[i], entries[i + 1])

(* bit width of a type when it is known, else 0 *)
Width(t) ==
    CASE t.k \in {"uint", "int", "number", "bytes", "bits"} -> t.n
      [] t.k = "address" -> 160 [] t.k = "bool" -> 8 [] t.k = "selector" -> 32 [] t.k = "function" -> 192
      [] t.k \in {"mapping", "dyn_array", "dyn_bytes"} -> 256
      [] OTHER -> 0

(* C12: every entry starts inside its slot and, when its width is known, ends inside it *)
InSlot(e) == e.offset >= 0 /\ e.offset < 256 /\ (Width(e.type) > 0 => e.offset + Width(e.type) <= 256)

Slots(entries) == {e.slot : e \in ToSet(entries)}
At(entries, s) == {e \in ToSet(entries) : e.slot = s}

(* entries as a set, without the positional information: what C11 compares *)
AsSet(entries) == {[slot |-> e.slot, offset |-> e.offset, type |-> e.type] : e \in ToSet(entries)}
===============================================================================
