-------------------------------- MODULE Idioms --------------------------------
(***************************************************************************)
(* Ground-truth contracts (C04, C11): a contract is a set of storage       *)
(* variables, each accessed through the standard compiler idiom for its    *)
(* kind (the harness's assembler turns a description into bytecode):       *)
(*   word     sload/sstore at a constant slot                              *)
(*   addr     the same, the value masked to 160 bits                       *)
(*   map      keccak(key || slot) nested Len(keys) times; "addr" keys are  *)
(*            masked to 160 bits; val_addr: the value is masked            *)
(*   dyn      length at slot, element at keccak(slot) + index              *)
(*   packed   fields [bit offset, bit width] read by shr/and and written by *)
(*            and-not / shl / or                                           *)
(* Expected(v, entries) is what a correct layout must say about v.         *)
(***************************************************************************)
EXTENDS Layout

Slot(v) == SubSeq(v.slot, 3, Len(v.slot))          \* strip "0x"

Is20Bytes(t) == (t.k = "address") \/ (t.k \in {"bytes", "uint", "number"} /\ t.n = 160)

RECURSIVE MapShape(_, _, _, _)
(* t is a mapping nested exactly Len(keys) - i + 1 deep from level i, with 20-byte keys where masked *)
MapShape(t, keys, i, valAddr) ==
    IF i > Len(keys) THEN t.k # "mapping" /\ (valAddr => Is20Bytes(t))
    ELSE /\ t.k = "mapping"
         /\ (keys[i] = "addr" => Is20Bytes(t.sub[1]))
         /\ MapShape(t.sub[2], keys, i + 1, valAddr)

FieldOK(v, i, here) == \E e \in here : e.offset = v.fields[i][1] /\ Width(e.type) = v.fields[i][2]

Expected(v, entries) ==
    LET here == At(entries, Slot(v)) IN
    /\ here # {}
    /\ CASE v.kind = "word" -> \E e \in here : e.offset = 0 /\ e.type.k \notin {"mapping", "dyn_array", "array"}
         [] v.kind = "addr" -> \E e \in here : e.offset = 0 /\ Is20Bytes(e.type)
         [] v.kind = "map"  -> \E e \in here : e.offset = 0 /\ MapShape(e.type, v.keys, 1, v.val_addr)
         [] v.kind = "dyn"  -> \E e \in here : e.offset = 0 /\ e.type.k = "dyn_array"
                                              /\ (v.val_addr => Is20Bytes(e.type.sub[1]))
         [] v.kind = "packed" -> \A i \in 1..Len(v.fields) : FieldOK(v, i, here)
         [] OTHER -> FALSE

(* the fields of a packed variable the layout does not describe *)
MissingFields(v, entries) == {i \in 1..Len(v.fields) : ~FieldOK(v, i, At(entries, Slot(v)))}

(* field i of packed variable v is only ever written, and moved into place by a left shift (not by a        *)
(* multiplication with a power of two): the one way of writing a field the tool is known not to understand  *)
(* on its own (known_findings.json, C04-packed-write-only)                                                    *)
(* field i of packed variable v starts at bit 0, is only ever written, and its source value is shifted down  *)
(* before it is masked: the tool represents (x >> j) & m and x & (m << j) alike as "bits [j, j + n) of x" and  *)
(* places an unshifted operand of a packed write at that offset j instead of at bit 0                           *)
(* (known_findings.json, C04-preshifted-low-field)                                                              *)
WriteOnlyField(v, i) == v.access = "w" \/ (v.top_w /\ Len(v.fields) > 1 /\ i = Len(v.fields))
(* when all fields are written by one store the misplaced low field overlaps its neighbours, the `or` is not     *)
(* understood at all, and every field that is not also read is lost with it                                     *)
PreShiftedLow(v, i) ==
    v.kind = "packed" /\ v.pre > 0 /\ WriteOnlyField(v, i) /\ (v.fields[i][1] = 0 \/ v.wall > 0)

WriteOnlyShifted(v, i) ==
    /\ v.kind = "packed" /\ ~v.wmul
    /\ \/ /\ v.fields[i][1] > 0
          /\ (v.access = "w" \/ (v.top_w /\ Len(v.fields) > 1 /\ i = Len(v.fields)))
       \* all fields written by one store: a left-shifted operand keeps the whole `or` from being understood,
       \* so the unshifted first field is lost with the others
       \/ (v.wall > 0 /\ v.access = "w" /\ Len(v.fields) > 1)
===============================================================================
