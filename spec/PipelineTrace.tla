------------------------------ MODULE PipelineTrace ------------------------------
(* Acceptor for C01 (and the after-execution half of C03: "halt" records).          *)
(* C01: every input x configuration is driven through the staged API                *)
(* and through the one-call entry point; the recorded stage outcomes must be a      *)
(* behaviour of Pipeline.tla ending in a terminal state, and both ways of running   *)
(* must agree on the result class.                                                  *)
EXTENDS Pipeline, Json, IOUtils

Rec == ndJsonDeserialize(IOEnv.TRACE)

VARIABLES l, viol, cnt

ToSet(seq) == {seq[i] : i \in DOMAIN seq}

(* replay the staged calls of one run from the initial typestate *)
RECURSIVE Replay(_, _, _, _)
Replay(calls, i, d, out) ==
    IF i > Len(calls) THEN [done |-> d, outcome |-> out, ok |-> TRUE]
    ELSE LET c == calls[i] IN
         IF out # "running" \/ d >= 5 \/ Stages[d + 1] # c.name THEN [done |-> d, outcome |-> out, ok |-> FALSE]
         ELSE IF c.res = "ok" THEN Replay(calls, i + 1, d + 1, IF d + 1 = 5 THEN "layout" ELSE "running")
         ELSE IF c.res = "err" /\ c.name # "prepare_unifier" THEN Replay(calls, i + 1, d, "error")
         ELSE [done |-> d, outcome |-> out, ok |-> FALSE]      \* a panic, or an outcome the typestate does not have

(* C03: the whole analysis halts.  A "halt" record is one analyze() under a watchdog that never asks to stop  *)
(* but counts polls: the run must have reached a terminal state of the typestate before the poll budget ran   *)
(* out (a stop forced by the exhausted budget means lifting, inference or unification was still looping).     *)
(* A panic does halt; it is C01's business, not C03's.                                                        *)
HaltVerdict(e) ==
    IF e.exhausted \/ e.polls >= e.budget THEN {"Inv_C03_AnalysisHalts/budget"}
    ELSE IF e.outcome \in {"layout", "error", "panic"} THEN {}
    ELSE {"Inv_C03_AnalysisHalts"}

Verdict(e) ==
    IF e.ev = "abort" THEN {"Inv_C01_Total/abort"}
    ELSE IF e.ev = "halt" THEN HaltVerdict(e)
    ELSE IF e.ev # "run" THEN {}
    ELSE LET r == Replay(e.calls, 1, 0, "running") IN
         \* C01: every call returned a value, and the run ended in a terminal state
         \* (a run may also be a prefix of the stages: then every call made returned, and the run is simply not over)
         (IF r.ok /\ (r.outcome \in {"layout", "error"} \/ (e.prefix /\ r.outcome = "running")) THEN {}
          ELSE IF \E c \in ToSet(e.calls) : c.res = "panic" THEN {"Inv_C01_Total/panic"} ELSE {"Inv_C01_Total"})
         \* the one-call entry point returns too, with the same class of result
         \cup (IF e.analyze = "skipped" THEN {}
               ELSE IF e.analyze = "panic" THEN {"Inv_C01_Total/panic"}
               ELSE IF r.ok /\ r.outcome = "layout" /\ e.analyze # "layout" /\ e.stable THEN {"Inv_C01_Consistent"}
               ELSE IF r.ok /\ r.outcome = "error" /\ e.analyze # "error" /\ e.stable THEN {"Inv_C01_Consistent"}
               ELSE {})

Init0 == /\ done = 0 /\ outcome = "running"
         /\ l = 1 /\ viol = << >> /\ cnt = [runs |-> 0, layouts |-> 0, errors |-> 0, bad |-> 0] /\ TLCSet(1, << >>) /\ TLCSet(2, cnt)

Next ==
    /\ l <= Len(Rec)
    /\ l' = l + 1
    \* the typestate variables show where the run just consumed ended
    /\ IF Rec[l].ev = "run"
       THEN LET r == Replay(Rec[l].calls, 1, 0, "running") IN done' = r.done /\ outcome' = r.outcome
       ELSE UNCHANGED pvars
    /\ LET e == Rec[l]  f == Verdict(e) IN
       /\ viol' = IF f # {} /\ Len(SelectSeq(viol, LAMBDA v : v.inv = f)) < 12
                  THEN Append(viol, [at |-> l, inv |-> f]) ELSE viol
       /\ cnt' = [runs |-> cnt.runs + (IF e.ev = "run" THEN 1 ELSE 0),
                  layouts |-> cnt.layouts + (IF e.ev = "run" /\ e.analyze = "layout" THEN 1 ELSE 0),
                  errors |-> cnt.errors + (IF e.ev = "run" /\ e.analyze = "error" THEN 1 ELSE 0),
                  bad |-> cnt.bad + (IF f # {} THEN 1 ELSE 0)]
    /\ TLCSet(1, viol') /\ TLCSet(2, cnt')

TraceSpec == Init0 /\ [][Next]_<<pvars, l, viol, cnt>>

Matched == TLCGet("stats").diameter - 1
TraceAccepted ==
    /\ PrintT(<<"TRACE", ToJson([matched |-> Matched, records |-> Len(Rec), viol |-> TLCGet(1), cnt |-> TLCGet(2)])>>)
    /\ Matched = Len(Rec)
    /\ TLCGet(1) = << >>
==================================================================================
