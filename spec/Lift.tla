-------------------------------- MODULE Lift --------------------------------
(***************************************************************************)
(* The word-level lifting passes (src/tc/lift/sub_word.rs, mul_shifted.rs, *)
(* packed_encoding.rs) judged by what they are for: telling which bits of  *)
(* which value sit where in a 256-bit word.                                *)
(*                                                                         *)
(* Terms are tuples whose first component names the node:                  *)
(*   <<"x", id>>                 an opaque value                           *)
(*   <<"sload", c>>              what slot c held                          *)
(*   <<"and", T, off, len, side>> T masked with ones at off..off+len-1     *)
(*   <<"keep", T, off, len, side>> T masked with zeros at off..off+len-1   *)
(*   <<"shr", T, n, form>>       T moved down by n (SHR, or DIV by 2^n     *)
(*                               written as literal, EXP or 1 << n)        *)
(*   <<"shl", T, n, form>>       T moved up by n (SHL, or MUL by 2^n)      *)
(*   <<"or", A, B>>                                                        *)
(* and the constructors the passes introduce:                              *)
(*   <<"subword", T, off, size>> `size` bits of T starting at bit `off`    *)
(*   <<"shifted", T, off>>       T moved up to begin at bit `off`          *)
(*   <<"packed", spans>>         spans <<off, size, T>> of one word        *)
(*   <<"write", key, T>>         a store of T                              *)
(*                                                                         *)
(* The meaning of a term is its bit provenance: for each of the 256        *)
(* positions, which bit of which opaque value stands there (or a constant  *)
(* zero).  The tool's `subword` stands both for (T >> off) & m - the field *)
(* moved down to bit 0 - and for T & (m << off) - the field left in place  *)
(* (known_findings.json, C04-preshifted-low-field); a term containing it   *)
(* therefore has a set of possible meanings (`BitsSet`).                   *)
(*                                                                         *)
(*   LiftKeepsBits(o, t)  (C04)  some reading of the lifted term t draws   *)
(*                        exactly the bits of the opaque values that the   *)
(*                        original o draws                                 *)
(*   PackedPlaces(o, t)   (C04)  t is a packed encoding with one span at   *)
(*                        exactly the offset and width of every field that *)
(*                        o places in the word from an opaque value, and   *)
(*                        the span's value supplies exactly those bits     *)
(*   PackedMeans(o, t)    (C04)  the weaker form for read-modify-write    *)
(*                        chains: t is a packed encoding and some reading *)
(*                        of it has every such field's bits in place      *)
(*   InWord(t)            (C12)  every sub-word and span of t lies inside  *)
(*                        the 256-bit word                                 *)
(***************************************************************************)
EXTENDS Integers, Sequences, FiniteSets

W == 256
ZeroB == <<"0", "", 0>>
MixB == <<"mix", "", 0>>
UnkB == <<"?", "", 0>>

Leaf(kind, id) == [j \in 1..W |-> <<kind, id, j - 1>>]
AllZero == [j \in 1..W |-> ZeroB]

Masked(b, off, len) == [j \in 1..W |-> IF j - 1 >= off /\ j - 1 < off + len THEN b[j] ELSE ZeroB]
Kept(b, off, len) == [j \in 1..W |-> IF j - 1 >= off /\ j - 1 < off + len THEN ZeroB ELSE b[j]]
Down(b, n) == [j \in 1..W |-> IF n < W /\ j + n <= W THEN b[j + n] ELSE ZeroB]
Up(b, n) == [j \in 1..W |-> IF n < W /\ j - n >= 1 THEN b[j - n] ELSE ZeroB]
Ored(a, b) == [j \in 1..W |-> IF a[j] = ZeroB THEN b[j] ELSE IF b[j] = ZeroB THEN a[j] ELSE MixB]

RECURSIVE BitsSet(_)
RECURSIVE SpansBits(_, _)
(* the spans of a packed encoding: span <<off, size, T>> supplies positions off..off+size-1; its value is a    *)
(* sub-word read moved down (bits 0..size-1) - whichever reading, the bits it draws from T are the same       *)
SpansBits(spans, acc) ==
    IF spans = << >> THEN acc
    ELSE LET s == Head(spans)
             v == s[3]
             inner == IF v[1] = "subword" THEN {Down(b, v[3]) : b \in BitsSet(v[2])} ELSE BitsSet(v)
         IN SpansBits(Tail(spans), {Ored(a, Up(Masked(b, 0, s[2]), s[1])) : a \in acc, b \in inner})

BitsSet(T) ==
    CASE T[1] = "x" -> {Leaf("x", T[2])}
      [] T[1] = "sload" -> {Leaf("s", T[2])}
      [] T[1] = "and" -> {Masked(b, T[3], T[4]) : b \in BitsSet(T[2])}
      [] T[1] = "keep" -> {Kept(b, T[3], T[4]) : b \in BitsSet(T[2])}
      [] T[1] = "shr" -> {Down(b, T[3]) : b \in BitsSet(T[2])}
      [] T[1] = "shl" -> {Up(b, T[3]) : b \in BitsSet(T[2])}
      [] T[1] = "or" -> {Ored(a, b) : a \in BitsSet(T[2]), b \in BitsSet(T[3])}
      [] T[1] = "subword" -> {Masked(Down(b, T[3]), 0, T[4]) : b \in BitsSet(T[2])}
                             \cup {Masked(b, T[3], T[4]) : b \in BitsSet(T[2])}
      [] T[1] = "shifted" -> {Up(b, T[3]) : b \in BitsSet(T[2])}
      [] T[1] = "packed" -> SpansBits(T[2], {AllZero})
      [] T[1] = "write" -> BitsSet(T[3])
      [] OTHER -> {[j \in 1..W |-> UnkB]}

(* the bits of opaque values ("x...") that a meaning draws *)
IsX(s) == s[1] = "x"
Drawn(b) == {b[j] : j \in {i \in 1..W : IsX(b[i])}}

LiftKeepsBits(o, t) ==
    LET want == Drawn(CHOOSE b \in BitsSet(o) : TRUE) IN \E b \in BitsSet(t) : Drawn(b) = want

(* the fields a meaning places: maximal runs of consecutive bits of one opaque value at consecutive positions *)
StartsRun(b, j) == IsX(b[j]) /\ (j = 1 \/ ~IsX(b[j - 1]) \/ b[j - 1][2] # b[j][2] \/ b[j - 1][3] + 1 # b[j][3])
RECURSIVE RunLen(_, _)
RunLen(b, j) == IF j < W /\ IsX(b[j + 1]) /\ b[j + 1][2] = b[j][2] /\ b[j + 1][3] = b[j][3] + 1 THEN 1 + RunLen(b, j + 1) ELSE 1
Fields(b) == {<<j - 1, RunLen(b, j), b[j]>> : j \in {i \in 1..W : StartsRun(b, i)}}

Body(t) == IF t[1] = "write" THEN t[3] ELSE t
PackedPlaces(o, t) ==
    LET ob == CHOOSE b \in BitsSet(o) : TRUE
        p == Body(t)
    IN /\ p[1] = "packed"
       /\ \A f \in Fields(ob) :
            \E i \in 1..Len(p[2]) :
                /\ p[2][i][1] = f[1] /\ p[2][i][2] = f[2]
                /\ \E sb \in SpansBits(<<p[2][i]>>, {AllZero}) : \A j \in 1..f[2] : sb[f[1] + j] = <<"x", f[3][2], f[3][3] + j - 1>>

(* the same demand on meanings only, for encodings whose spans are themselves built from earlier encodings *)
(* (a read-modify-write of several fields, one after the other): some reading of t has, at every position of *)
(* every field o places from an opaque value, the very bit o has there                                      *)
PackedMeans(o, t) ==
    LET ob == CHOOSE b \in BitsSet(o) : TRUE
    IN /\ Body(t)[1] = "packed"
       /\ \E b \in BitsSet(t) : \A f \in Fields(ob) : \A j \in 1..f[2] : b[f[1] + j] = ob[f[1] + j]

RECURSIVE InWord(_)
RECURSIVE SpansInWord(_)
SpansInWord(spans) == spans = << >> \/ (/\ Head(spans)[1] < W /\ Head(spans)[1] + Head(spans)[2] <= W
                                        /\ InWord(Head(spans)[3]) /\ SpansInWord(Tail(spans)))
InWord(T) ==
    CASE T[1] \in {"x", "sload"} -> TRUE
      [] T[1] \in {"and", "keep", "shr", "shl", "shifted"} -> InWord(T[2])
      [] T[1] = "or" -> InWord(T[2]) /\ InWord(T[3])
      [] T[1] = "subword" -> T[3] < W /\ T[3] + T[4] <= W /\ InWord(T[2])
      [] T[1] = "packed" -> SpansInWord(T[2])
      [] T[1] = "write" -> InWord(T[3])
      [] OTHER -> TRUE
==============================================================================
