SPECIFICATION Spec
CONSTANTS
  KeySet = {"c0", "s0"}
  ValSet = {"1", "2"}
  MaxOps = 5
INVARIANTS Inv_AppendOnly Inv_StoreAppends Inv_LoadRemembers Inv_ReadOnly Inv_NonEmpty
CHECK_DEADLOCK FALSE
