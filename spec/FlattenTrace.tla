----------------------------- MODULE FlattenTrace -----------------------------
(* Acceptor for the layout entries the real type checker builds from a resolved slot type (harness `flatten-replay`) *)
(* against Flatten.tla.  Every generated tree is well formed, so:                                                   *)
(*   Inv_C12_InSlot/flatten    an entry outside the slot                                                            *)
(*   Inv_C12_Sorted/flatten    entries not ordered by offset                                                        *)
(*   Inv_C04_Expected/flatten  a leaf of the tree without an entry of its width at the sum of the offsets on its way *)
(*   Inv_C01_Total/flatten     the conversion failed or panicked on a well-formed type                              *)
EXTENDS Flatten, Json, IOUtils, TLC

Rec == ndJsonDeserialize(IOEnv.TRACE)

VARIABLES l, viol, cnt

Verdict(e) ==
    IF e.res # "ok" THEN {"Inv_C01_Total/flatten"}
    ELSE IF ~WellFormed(e.tree, 256) THEN {"Harness/flatten-tree"}
    ELSE (IF EntriesInSlot(e.entries) THEN {} ELSE {"Inv_C12_InSlot/flatten"})
         \cup (IF EntriesSorted(e.entries) THEN {} ELSE {"Inv_C12_Sorted/flatten"})
         \cup (IF LeavesReported(e.tree, e.entries) THEN {} ELSE {"Inv_C04_Expected/flatten"})

Init == l = 1 /\ viol = << >> /\ cnt = [trees |-> 0, nested |-> 0] /\ TLCSet(1, << >>) /\ TLCSet(2, cnt)

Next ==
    /\ l <= Len(Rec)
    /\ l' = l + 1
    /\ LET e == Rec[l] IN
       IF e.ev # "flatten" THEN UNCHANGED <<viol, cnt>>
       ELSE LET f == Verdict(e) IN
            /\ viol' = IF f # {} /\ Len(viol) < 12 THEN Append(viol, [at |-> l, inv |-> f]) ELSE viol
            /\ cnt' = [cnt EXCEPT !.trees = @ + 1,
                                  !.nested = @ + (IF \E i \in 1..Len(e.tree[2]) : e.tree[2][i][3][1] = "p" THEN 1 ELSE 0)]
    /\ TLCSet(1, viol') /\ TLCSet(2, cnt')

TraceSpec == Init /\ [][Next]_<<l, viol, cnt>>

Matched == TLCGet("stats").diameter - 1
TraceAccepted ==
    /\ PrintT(<<"TRACE", ToJson([matched |-> Matched, records |-> Len(Rec), viol |-> TLCGet(1), cnt |-> TLCGet(2)])>>)
    /\ Matched = Len(Rec)
    /\ TLCGet(1) = << >>
===============================================================================
