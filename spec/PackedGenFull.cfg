SPECIFICATION Spec
CONSTANTS
 N = 6
 MaxSpans = 3
CHECK_DEADLOCK FALSE
