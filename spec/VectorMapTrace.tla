-------------------------- MODULE VectorMapTrace --------------------------
(* Trace acceptor for histories recorded from the real VectorMap (C19). *)
EXTENDS VectorMap, Json, IOUtils, Sequences

Rec == ndJsonDeserialize(IOEnv.TRACE)

VARIABLE l

TKey == 0..63
TVal == 0..7

ToSet(seq) == {seq[i] : i \in DOMAIN seq}
Items(m) == {<<k, m[k]>> : k \in DOMAIN m}

Step(e) ==
    CASE e.op = "begin"   -> UNCHANGED vars
      [] e.op = "reset"   -> map' = << >> /\ res' = [op |-> "init"]
      [] e.op = "insert"  -> Insert(e.k, e.v)
      [] e.op = "remove"  -> Remove(e.k)
      [] e.op = "get"     -> Get(e.k)
      [] e.op = "observe" -> Observe

Conforms(e) ==
    /\ "panic" \notin DOMAIN e
    /\ IF e.op \in {"begin", "reset"} THEN TRUE
       ELSE /\ ToSet(e.proj.items) = Items(map')
            /\ e.proj.len = Cardinality(DOMAIN map')
    /\ e.op \in {"remove", "get"} => e.out = res'.out
    /\ e.op = "observe" =>
         /\ e.len = res'.len
         /\ e.is_empty = (res'.len = 0)
         /\ ToSet(e.items) = res'.items
         /\ Len(e.items) = res'.len

TraceInit == Init /\ l = 1

TraceNext == /\ l <= Len(Rec)
             /\ Step(Rec[l])
             /\ Conforms(Rec[l])
             /\ l' = l + 1

TraceSpec == TraceInit /\ [][TraceNext]_<<vars, l>>

Matched == TLCGet("stats").diameter - 1
TraceAccepted ==
    /\ PrintT(<<"TRACE", ToJson([matched |-> Matched, records |-> Len(Rec)])>>)
    /\ Matched = Len(Rec)
===========================================================================
