SPECIFICATION Spec
CONSTANT N = 6
CHECK_DEADLOCK FALSE
