--------------------------------- MODULE RolesGen ---------------------------------
(***************************************************************************)
(* Boundary-constant programs (C01): every opcode that takes operands x    *)
(* every operand position x every boundary constant, with the other        *)
(* operands small.  The harness assembles each case in three contexts      *)
(* (direct, computed, after a fork) and keeps / stores / uses as a key the *)
(* result if there is one.                                                 *)
(***************************************************************************)
EXTENDS Opcodes, TLC, Json, FiniteSets

VARIABLE c

(* boundary constants as (name, big-endian hex) - the harness parses the hex *)
Boundary == {"00", "01", "1f", "20", "ff", "0100", "0101", "0100000000", "0100000000000000",
             "ffffffffffffffff", "010000000000000000", "0100000000000000000000000000000000",
             "8000000000000000000000000000000000000000000000000000000000000000",
             "ffffffffffffffffffffffffffffffffffffffffffffffffffffffffffffffff"}

WithOperands == {b \in Assigned : Pops(b) > 0 /\ ~IsDup(b) /\ ~IsSwap(b)}

Cases == {[op |-> b, pos |-> p, val |-> v] : b \in WithOperands, p \in 1..7, v \in Boundary}

Init == c \in {x \in Cases : x.pos <= Pops(x.op)}
Next == FALSE /\ c' = c
Spec == Init /\ [][Next]_c
Emit == PrintT(<<"CASE", ToJson([op |-> c.op, pops |-> Pops(c.op), pushes |-> Pushes(c.op), pos |-> c.pos, val |-> c.val])>>)
===================================================================================
