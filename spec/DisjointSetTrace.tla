------------------------- MODULE DisjointSetTrace -------------------------
(* Trace acceptor for histories recorded from the real DisjointSet (C19).  *)
(* Every record is one public call: its arguments, what it returned, and   *)
(* the projection of the real forest after the call.  A record is accepted *)
(* iff the corresponding action of DisjointSet.tla is enabled with that    *)
(* result and leads to exactly the projected state.                        *)
EXTENDS DisjointSet, Json, IOUtils

Rec == ndJsonDeserialize(IOEnv.TRACE)

VARIABLE l

TElem == 0..63
TAtom == {"a", "b", "c", "d"}

ToSet(seq) == {seq[i] : i \in DOMAIN seq}

ProjOf(K, P, D) == [known |-> K, classes |-> {[members |-> c, b |-> D[c]] : c \in P}]
ObsProj(e) == [known |-> ToSet(e.proj.known),
               classes |-> {[members |-> ToSet(c.members), b |-> c.b] : c \in ToSet(e.proj.classes)}]

Step(e) ==
    CASE e.op = "begin"    -> UNCHANGED vars
      [] e.op = "reset"    -> known' = {} /\ part' = {} /\ data' = << >> /\ res' = [op |-> "init"]
      [] e.op = "insert"   -> Insert(e.x)
      [] e.op = "find"     -> Find(e.x)
      [] e.op = "get_data" -> GetData(e.x)
      [] e.op = "union"    -> Union(e.x, e.y)
      [] e.op = "add_data" -> AddData(e.x, e.b)
      [] e.op = "set_data" -> SetData(e.x, e.b)
      [] e.op = "sets"     -> Sets

Conforms(e) ==
    /\ "panic" \notin DOMAIN e
    /\ IF e.op \in {"begin", "reset"} THEN TRUE ELSE ObsProj(e) = ProjOf(known', part', data')
    /\ e.op = "find" => e.rep \in res'.cls
    /\ e.op = "get_data" => e.out = res'.b
    /\ e.op = "sets" =>
         LET ps == ToSet(e.pairs) IN
         /\ Len(e.pairs) = Cardinality(part')
         /\ \A p \in ps : \E c \in part' : p.m \in c /\ p.b = data'[c]
         /\ Cardinality({ClassOf(part', p.m) : p \in ps}) = Len(e.pairs)

TraceInit == Init /\ l = 1

TraceNext == /\ l <= Len(Rec)
             /\ Step(Rec[l])
             /\ Conforms(Rec[l])
             /\ l' = l + 1

TraceSpec == TraceInit /\ [][TraceNext]_<<vars, l>>

Matched == TLCGet("stats").diameter - 1
TraceAccepted ==
    /\ PrintT(<<"TRACE", ToJson([matched |-> Matched, records |-> Len(Rec)])>>)
    /\ Matched = Len(Rec)
===========================================================================
