SPECIFICATION Spec
CONSTANTS
 N = 5
 MaxSpans = 2
CHECK_DEADLOCK FALSE
