SPECIFICATION Spec
CONSTANTS
 N = 6
 MaxSpans = 2
CHECK_DEADLOCK FALSE
