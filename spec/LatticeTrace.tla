------------------------------ MODULE LatticeTrace ------------------------------
(* Acceptor for the real `merge` evaluated on every ordered pair and triple of  *)
(* the evidence domain (C16).  Records carry the raw result (expression and     *)
(* emitted equalities) of each grouping; normalisation and the laws live here.  *)
EXTENDS TypeLattice, Json, IOUtils

Rec == ndJsonDeserialize(IOEnv.TRACE)

VARIABLES l, viol, cnt

ToSet(seq) == {seq[i] : i \in DOMAIN seq}
ResOf(r) == Res(r.e, {{p[1], p[2]} : p \in ToSet(r.eqs)})

Verdict(e) ==
    CASE e.ev = "pair" ->
           (IF Norm(ResOf(e.ab)) = Norm(ResOf(e.ba)) THEN {} ELSE {"Inv_C16_Comm"})
           \cup (IF Norm(ResOf(e.ab)) = Norm(Merge(e.a, e.b)) THEN {} ELSE {"Mirror"})
      [] e.ev = "triple" ->
           IF Norm(ResOf(e.left)) = Norm(ResOf(e.right)) THEN {}
           ELSE IF FamilyA(e.a, e.b, e.c) THEN {"Inv_C16_Assoc/familyA"}
           ELSE IF FamilyB(e.a, e.b, e.c) THEN {"Inv_C16_Assoc/familyB"}
           ELSE {"Inv_C16_Assoc"}
      [] OTHER -> {}

Init == l = 1 /\ viol = << >> /\ cnt = [pairs |-> 0, triples |-> 0, bad |-> 0] /\ TLCSet(1, << >>) /\ TLCSet(2, cnt)

Next ==
    /\ l <= Len(Rec)
    /\ l' = l + 1
    /\ LET e == Rec[l]  f == Verdict(e) IN
       /\ viol' = IF f # {} /\ Len(SelectSeq(viol, LAMBDA v : v.inv = f)) < 6
                  THEN Append(viol, [at |-> l, inv |-> f]) ELSE viol
       /\ cnt' = [pairs |-> cnt.pairs + (IF e.ev = "pair" THEN 1 ELSE 0),
                  triples |-> cnt.triples + (IF e.ev = "triple" THEN 1 ELSE 0),
                  bad |-> cnt.bad + (IF f # {} THEN 1 ELSE 0)]
    /\ TLCSet(1, viol') /\ TLCSet(2, cnt')

TraceSpec == Init /\ [][Next]_<<l, viol, cnt>>

Matched == TLCGet("stats").diameter - 1
TraceAccepted ==
    /\ PrintT(<<"TRACE", ToJson([matched |-> Matched, records |-> Len(Rec), viol |-> TLCGet(1), cnt |-> TLCGet(2)])>>)
    /\ Matched = Len(Rec)
    /\ TLCGet(1) = << >>
=================================================================================
