---------------------------- MODULE VectorMapMC ----------------------------
EXTENDS VectorMap, Json
CONSTANT MaxDepth
StateJson(m) == [items |-> {<<k, m[k]>> : k \in DOMAIN m}]
Emit == PrintT(<<"EDGE", ToJson([s |-> StateJson(map), r |-> res', t |-> StateJson(map')])>>)
MCNext == Next /\ Emit
MCSpec == Init /\ [][MCNext]_vars
DepthBound == TLCGet("level") <= MaxDepth
View == map
============================================================================
