------------------------------- MODULE SymVMMC -------------------------------
(***************************************************************************)
(* The "mirror": an executable model of VM::execute for a fragment of the  *)
(* EVM (PUSH1, CALLDATASIZE, POP, JUMP, JUMPI, JUMPDEST, STOP, INVALID,    *)
(* SELFDESTRUCT), which chooses the parameters of the SymVM actions the    *)
(* way the implementation does: FIFO thread queue, visit mark before       *)
(* execution, fork refused at the fork limit or when the target is at its  *)
(* iteration limit, errors recorded according to the mode, advance()       *)
(* retiring at the iteration limit / gas limit / end of code.              *)
(*                                                                         *)
(* Because the mirror only ever takes SymVM actions, every behaviour of    *)
(* the mirror is a behaviour of the envelope (NextImpl => Next holds by    *)
(* construction), and TLC checks the envelope's invariants (C03, C08, C17) *)
(* on ALL programs of up to MaxTokens tokens under all small limits.       *)
(* Every terminal state is printed as a replay case for the real VM.       *)
(***************************************************************************)
EXTENDS SymVM, Json

CONSTANTS MaxTokens, Ls, Fs, Gs,
          Dev      \* set of named deviations of the design, {} for the design as implemented

VARIABLES stack,   \* tid -> abstract stack: sequence of naturals, or -1 for a symbolic value (top is the head)
          queue,   \* FIFO of thread ids
          ph,      \* micro-phase of the current instruction
          steps,   \* instructions executed so far
          seen     \* offsets executed by any thread

mvars == <<vars, stack, queue, ph, steps, seen>>

Sym == -1

Tokens == {<<JUMPDEST>>, <<JUMP>>, <<JUMPI>>, <<CALLDATASIZE>>, <<POP>>, <<STOP>>, <<12>>, <<SELFDESTRUCT>>,
           <<96, 0>>, <<96, 2>>, <<96, 3>>, <<96, 255>>}

RECURSIVE Flatten(_)
Flatten(ts) == IF ts = << >> THEN << >> ELSE Head(ts) \o Flatten(Tail(ts))

Programs == UNION {[1..n -> Tokens] : n \in 1..MaxTokens}

(* The 32-byte big-endian word of a small natural. *)
WordOf(n) == [i \in 1..32 |-> IF i = 32 THEN n % 256 ELSE IF i = 31 THEN (n \div 256) % 256 ELSE 0]

(* The tool's minimum gas costs for the fragment. *)
CostAt(off) ==
    IF KindAt(off) \in {"imm", "trunc", "invalid"} THEN 0
    ELSE CASE OpAt(off) = JUMP -> 8 [] OpAt(off) = JUMPI -> 10 [] OpAt(off) = JUMPDEST -> 1
           [] OpAt(off) = SELFDESTRUCT -> 5000 [] OpAt(off) = STOP -> 0 [] OpAt(off) = POP -> 2
           [] OpAt(off) = CALLDATASIZE -> 2 [] IsPush(OpAt(off)) -> 3 [] OTHER -> 0

MCInit ==
    \E p \in Programs, l \in Ls, f \in Fs, g \in Gs, perm \in BOOLEAN :
        LET code == Flatten(p) IN
        /\ cfg = MkCfg(code, l, f, g, perm)
        /\ thr = (0 :> NewThread(0, [i \in 1..Len(code) |-> 0], 0, 0))
        /\ retired = 0 /\ forks = [i \in 1..Len(code) |-> 0] /\ created = 1
        /\ errs = << >> /\ pend = NoPend /\ chk = AllGood /\ fin = "run"
        /\ stack = (0 :> << >>) /\ queue = <<0>> /\ ph = "fetch" /\ steps = 0 /\ seen = {}

Cur == Head(queue)
CurPc == thr[Cur].pc
CurStack == stack[Cur]
Top == CurStack[1]

JumpLike == (IsJumpAt(CurPc) \/ IsJumpIAt(CurPc))
EnoughStack == Len(CurStack) >= PopsAt(CurPc)

(* 1. a JUMP / JUMPI with enough stack first looks at its operand *)
MOperand ==
    /\ fin = "run" /\ queue # << >> /\ ph = "fetch"
    /\ JumpLike /\ EnoughStack
    /\ Operand(IF Top = Sym THEN NoWord ELSE WordOf(Top))
    /\ ph' = "looked"
    /\ UNCHANGED <<stack, queue, steps, seen>>

TargetOK == Top # Sym /\ Top \in cfg.jd

(* 2a. JUMPI with a valid target forks unless a limit says no *)
(* Named deviations (used only to show that the invariants bite):            *)
(*  "fork-entry-unchecked"  fork although the target is at its iteration limit *)
(*  "jumpi-store-always"    JUMPI records a bad target in permissive mode too  *)
(*  "selfdestruct-continues" SELFDESTRUCT does not end the path                 *)
MayFork == /\ forks[Top + 1] < cfg.F
           /\ ("fork-entry-unchecked" \in Dev \/ thr[Cur].visits[Top + 1] < cfg.L)

NewTid == created

MFork ==
    /\ ph = "looked" /\ IsJumpIAt(CurPc) /\ TargetOK /\ MayFork
    /\ Fork(Cur, NewTid, Top, forks[Top + 1] + 1)
    /\ stack' = stack @@ (NewTid :> SubSeq(CurStack, 3, Len(CurStack)))
    /\ queue' = Append(queue, NewTid)
    /\ ph' = "exec"
    /\ UNCHANGED <<steps, seen>>

(* 2b. JUMPI with a bad target stores the error, in strict mode only *)
MStoreErr ==
    /\ ph = "looked" /\ IsJumpIAt(CurPc) /\ ~TargetOK
    /\ (~cfg.permissive \/ "jumpi-store-always" \in Dev)
    /\ StoreErr(Cur, "BadJumpTarget", CurPc)
    /\ ph' = "exec"
    /\ UNCHANGED <<stack, queue, steps, seen>>

MSkip ==
    /\ ph = "looked"
    /\ ~(IsJumpIAt(CurPc) /\ TargetOK /\ MayFork)
    /\ ~(IsJumpIAt(CurPc) /\ ~TargetOK /\ (~cfg.permissive \/ "jumpi-store-always" \in Dev))
    /\ ph' = "exec"
    /\ UNCHANGED <<vars, stack, queue, steps, seen>>

(* 3. the instruction's own effect and the VM's error policy *)
Effect ==
    LET off == CurPc
        s   == CurStack
        under == Len(s) < PopsAt(off)
        over  == Len(s) - PopsAt(off) + PushesAt(off) > MaxStack
        badJump == IsJumpAt(off) /\ ~under /\ Top # Sym /\ ~TargetOK
        ok == ~under /\ ~over /\ ~badJump
        recorded == ~ok /\ ~(badJump /\ cfg.permissive)
        rest == SubSeq(s, PopsAt(off) + 1, Len(s))
        s2 == IF ~ok THEN s
              ELSE IF KindAt(off) = "push" THEN <<cfg.code[off + 2]>> \o s
              ELSE IF KindAt(off) = "op" /\ OpAt(off) = CALLDATASIZE THEN <<Sym>> \o s
              ELSE rest
    IN [ok |-> ok, recorded |-> recorded, s2 |-> s2,
        kind |-> IF under \/ over THEN "Stack" ELSE IF badJump THEN "BadJumpTarget" ELSE ""]

MExec ==
    /\ fin = "run" /\ queue # << >>
    /\ ph = "exec" \/ (ph = "fetch" /\ ~(JumpLike /\ EnoughStack))
    /\ LET e == Effect
           gas2 == IF e.ok THEN thr[Cur].gas + CostAt(CurPc) ELSE thr[Cur].gas
       IN /\ Exec(Cur, [ip |-> CurPc, ok |-> e.ok, kind |-> e.kind, loc |-> CurPc, recorded |-> e.recorded,
                        cost |-> CostAt(CurPc), gasAfter |-> gas2,
                        visits |-> thr[Cur].visits[CurPc + 1] + 1, depth |-> Len(e.s2)])
          /\ stack' = [stack EXCEPT ![Cur] = e.s2]
    /\ ph' = "advance"
    /\ steps' = steps + 1
    /\ seen' = seen \cup {CurPc}
    /\ UNCHANGED queue

(* 4. advance(): where the pointer is, and whether the thread goes on *)
MAdvance ==
    /\ ph = "advance"
    /\ LET p   == thr[Cur]
           off == p.lastOff
           jumped == IsJumpAt(off) /\ p.lastOk /\ p.operand # NoWord
           ip  == IF jumped THEN WordVal(p.operand) ELSE off
           halts == p.lastHalts /\ ~("selfdestruct-continues" \in Dev /\ KindAt(off) = "op" /\ OpAt(off) = SELFDESTRUCT)
           killed == ~p.lastOk \/ halts \/ (IsJumpAt(off) /\ p.lastOk /\ p.operand = NoWord)
           oob == ip + 1 >= cfg.len
           limit == ~oob /\ p.visits[ip + 2] >= cfg.L
           overGas == p.gas > cfg.G
           retire == killed \/ oob \/ limit \/ overGas
       IN /\ Advance(Cur, ip, IF retire THEN -1 ELSE ip + 1, overGas)
          /\ queue' = IF retire THEN Tail(queue) ELSE queue
          /\ stack' = IF retire THEN [x \in DOMAIN stack \ {Cur} |-> stack[x]] ELSE stack
    /\ ph' = "fetch"
    /\ UNCHANGED <<steps, seen>>

ErrSeq == LET RECURSIVE S(_) S(D) == IF D = {} THEN << >>
                                     ELSE LET x == CHOOSE x \in D : TRUE
                                          IN [i \in 1..errs[x] |-> x] \o S(D \ {x})
          IN S(DOMAIN errs)

MFinish ==
    /\ fin = "run" /\ queue = << >> /\ ph = "fetch"
    /\ Finish(BagSize(errs) = 0, ErrSeq, FALSE)
    /\ UNCHANGED <<stack, queue, ph, steps, seen>>

MCNext == MOperand \/ MFork \/ MStoreErr \/ MSkip \/ MExec \/ MAdvance \/ MFinish

MCSpec == MCInit /\ [][MCNext]_mvars

------------------------------------------------------------------------------
AllInvariants == Failing(chk) = {}

(* The variant behind termination: executed instructions are bounded by     *)
(* threads x code length x iteration limit.                                 *)
Inv_C03_Variant ==
    steps <= (1 + cfg.F * Cardinality(cfg.jd)) * cfg.len * cfg.L

(* Execution always reaches Finish: a state without successors is finished. *)
Inv_C03_Terminates == (~ENABLED MCNext) => fin # "run"

Emit == fin # "run" =>
    PrintT(<<"CASE", ToJson([code |-> cfg.code, L |-> cfg.L, F |-> cfg.F, G |-> cfg.G, perm |-> cfg.permissive,
                             ok |-> fin = "ok", nerr |-> BagSize(errs), states |-> retired,
                             executed |-> seen, steps |-> steps])>>)
==============================================================================
