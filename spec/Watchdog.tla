------------------------------- MODULE Watchdog -------------------------------
(***************************************************************************)
(* The watchdog discipline of every polled loop of every stage (C13).      *)
(*                                                                         *)
(*   Begin(i)        a monitored analysis starts, poll interval i          *)
(*   Iter(site)      an iteration of the polled loop `site` begins         *)
(*   Poll(stop)      the watchdog was asked; it answered stop / go         *)
(*   End(res, same)  the analysis returned: "layout" | "stopped" | "error" *)
(*                   same: equal to the unmonitored result                 *)
(* The environment may start answering stop at any poll and then keeps     *)
(* doing so.  As in SymVM, actions build the state and the demands are     *)
(* invariants over `chk`.                                                  *)
(***************************************************************************)
EXTENDS Integers, Sequences, FiniteSets, TLC

MainSite  == "vm::execute"
CopySites == {"op::calldatacopy", "op::codecopy", "op::extcodecopy", "op::returndatacopy", "op::call_return"}
TcSites   == {"tc::lift", "tc::assign", "tc::infer", "tc::unify", "tc::layout"}
Sites     == {MainSite} \cup CopySites \cup TcSites

VARIABLES
    I,          \* requested poll interval
    since,      \* site -> iterations begun since the last poll at that site
    polled,     \* site -> the current instance of the loop has polled already
    cur,        \* site of the iteration in progress ("none" before the first)
    polls,      \* polls so far
    stopSeen,   \* a poll has answered stop
    stopSite,   \* where it did
    afterPolls, \* polls after the first stop answer
    afterMain,  \* main-loop iterations begun after the first stop answer
    ended,      \* the analysis has returned
    wchk        \* verdicts on the step just taken

wvars == <<I, since, polled, cur, polls, stopSeen, stopSite, afterPolls, afterMain, ended, wchk>>

WGood == [rate |-> TRUE, latency |-> TRUE, stop |-> TRUE, same |-> TRUE, hooked |-> TRUE]

Begin(i) ==
    /\ I' = i
    /\ since' = [s \in Sites |-> 0]
    /\ polled' = [s \in Sites |-> FALSE]
    /\ cur' = "none" /\ polls' = 0 /\ stopSeen' = FALSE /\ stopSite' = "none"
    /\ afterPolls' = 0 /\ afterMain' = 0 /\ ended' = FALSE
    /\ wchk' = WGood

Iter(site) ==
    /\ site \in Sites
    \* a new main-loop iteration means every copy loop of the previous instruction is over: its next
    \* instance may poll first at any of its first iterations (polled' below) - but the iterations a loop
    \* ran since its last poll are carried over from instance to instance: a loop whose instances are each
    \* shorter than I must not run for ever without polling ("polls track the amount of work done")
    /\ since' = [s \in Sites |-> IF s = site THEN since[s] + 1 ELSE since[s]]
    /\ polled' = [s \in Sites |-> IF site = MainSite /\ s \in CopySites THEN FALSE ELSE polled[s]]
    /\ cur' = site
    /\ afterMain' = IF stopSeen /\ site = MainSite THEN afterMain + 1 ELSE afterMain
    /\ wchk' = [WGood EXCEPT
                  \* C13 rate: never more than I iterations of a loop without a poll
                  !.rate    = since[site] + 1 <= I,
                  \* C13 latency: a stop answered to the main loop or to a type-checker loop ends the
                  \* analysis at once; a stop answered to a copy loop only kills that thread, and the
                  \* main loop reaches its own poll within I iterations; no later stage is entered
                  !.latency = stopSeen =>
                                /\ stopSite \in CopySites
                                /\ site \in CopySites \cup {MainSite}
                                /\ (site = MainSite => afterMain + 1 <= I),
                  !.stop    = ~ended]
    /\ UNCHANGED <<I, polls, stopSeen, stopSite, afterPolls, ended>>

Poll(stop) ==
    /\ polls' = polls + 1
    /\ since' = IF cur \in Sites THEN [since EXCEPT ![cur] = 0] ELSE since
    /\ polled' = IF cur \in Sites THEN [polled EXCEPT ![cur] = TRUE] ELSE polled
    /\ stopSeen' = (stopSeen \/ stop)
    /\ stopSite' = IF ~stopSeen /\ stop THEN cur ELSE stopSite
    /\ afterPolls' = IF stopSeen THEN afterPolls + 1 ELSE afterPolls
    /\ wchk' = [WGood EXCEPT
                  \* every poll happens inside an iteration of a known polled loop
                  !.hooked  = cur \in Sites,
                  \* C13 rate, the other half: ONCE per I iterations - after its first poll a loop polls
                  \* exactly every I-th iteration, so that polls track the work done (at which of its first
                  \* I iterations a loop polls for the first time is the implementation's choice)
                  !.rate    = cur \in Sites =>
                                 IF polled[cur] THEN since[cur] = I ELSE since[cur] <= I,
                  \* at most I + 1 further polls: one per copy instruction met during the at most I
                  \* main-loop iterations left, plus the main loop's own
                  !.latency = stopSeen => afterPolls + 1 <= I + 1,
                  !.stop    = ~ended]
    /\ UNCHANGED <<I, cur, afterMain, ended>>

End(res, same) ==
    /\ ended' = TRUE
    /\ wchk' = [WGood EXCEPT
                  \* C13: once stop was answered the result is the stopped-by-watchdog error, never a layout
                  !.stop = stopSeen => res = "stopped",
                  \* C13: a watchdog that never says stop does not change the result
                  !.same = ~stopSeen => (same /\ res # "stopped")]
    /\ UNCHANGED <<I, since, polled, cur, polls, stopSeen, stopSite, afterPolls, afterMain>>

Inv_C13_Rate    == wchk.rate /\ wchk.hooked
Inv_C13_Latency == wchk.latency
Inv_C13_Stop    == wchk.stop
Inv_C13_Same    == wchk.same

WFailing(c) ==
    (IF c.rate /\ c.hooked THEN {} ELSE {"Inv_C13_Rate"}) \cup (IF c.latency THEN {} ELSE {"Inv_C13_Latency"})
    \cup (IF c.stop THEN {} ELSE {"Inv_C13_Stop"}) \cup (IF c.same THEN {} ELSE {"Inv_C13_Same"})
===============================================================================
