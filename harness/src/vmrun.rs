//! Runs the real VM / extractor with the `sle_verif` hooks on and turns what
//! happened into NDJSON records for `SymVMTrace.tla` (C03, C08, C17, C13).

use std::{cell::Cell, rc::Rc};

use rand::{rngs::StdRng, Rng, SeedableRng};
use serde_json::{json, Value as J};
use storage_layout_extractor as sle;
use storage_layout_extractor::{
    disassembly::InstructionStream,
    error::execution::Errors,
    extractor::{
        chain::{
            version::{ChainVersion, EthereumVersion},
            Chain,
        },
        contract::Contract,
    },
    tc,
    verif::{self, Event},
    vm::{Config, VM},
    watchdog::Watchdog,
    StorageLayout,
};

use crate::{
    progen::{self, Limits},
    util::{guarded, unhex, Ndjson, Opts, R},
};

/// A watchdog that logs every poll into the event sink, answers "stop" from a
/// scripted poll index on, and enforces a poll budget so no run can hang.
#[derive(Debug)]
pub struct ScriptedWatchdog {
    pub every:     usize,
    pub stop_from: Option<u64>,
    pub budget:    u64,
    pub polls:     Cell<u64>,
    pub exhausted: Cell<bool>,
}

impl ScriptedWatchdog {
    pub fn new(every: usize, stop_from: Option<u64>, budget: u64) -> Rc<Self> {
        Rc::new(Self {
            every,
            stop_from,
            budget,
            polls: Cell::new(0),
            exhausted: Cell::new(false),
        })
    }
}

impl Watchdog for ScriptedWatchdog {
    fn should_stop(&self) -> bool {
        let k = self.polls.get();
        self.polls.set(k + 1);
        let mut stop = self.stop_from.map_or(false, |s| k >= s);
        if k >= self.budget {
            self.exhausted.set(true);
            stop = true;
        }
        verif::emit(Event::LoopIter { site: if stop { "poll:stop" } else { "poll:go" } });
        stop
    }

    fn poll_every(&self) -> usize {
        self.every
    }
}

pub fn vm_config(l: &Limits) -> Config {
    Config::default()
        .with_max_iterations_per_opcode(l.l)
        .with_max_forks_per_fork_target(l.f)
        .with_gas_limit(l.g)
        .with_permissive_errors(l.perm)
}

fn kind_of(debug: &str) -> String {
    debug.split(|c: char| c == ' ' || c == '{' || c == '(').next().unwrap_or("").to_string()
}

pub fn errors_json(e: &Errors) -> Vec<J> {
    e.payloads()
        .iter()
        .map(|p| json!({"kind": kind_of(&format!("{:?}", p.payload)), "loc": p.location}))
        .collect()
}

fn event_json(e: &Event) -> Option<J> {
    Some(match e {
        Event::LoopIter { .. } | Event::StorageAccess { .. } => return None,
        Event::Exec {
            tid,
            ip,
            text,
            ok,
            err_kind,
            err_loc,
            recorded,
            cost,
            gas_after,
            visits,
            killed,
            stack_depth,
        } => json!({
            "ev": "exec", "tid": tid, "ip": ip, "text": text, "ok": ok,
            "kind": err_kind.as_deref().map_or(String::new(), kind_of),
            "loc": err_loc.unwrap_or(0), "recorded": recorded, "cost": cost,
            "gas_after": gas_after.min(&2_000_000_000), "visits": visits.min(&2_000_000_000),
            "killed": killed, "depth": stack_depth,
        }),
        Event::Fork {
            parent,
            child,
            from,
            target,
            forks,
        } => json!({"ev": "fork", "parent": parent, "child": child, "from": from, "target": target,
                    "forks": forks.min(&2_000_000_000)}),
        Event::JumpOperand { ip, word } => json!({
            "ev": "operand", "ip": ip,
            "word": word.map_or(vec![], |w| w.to_vec()),
        }),
        Event::StoreErr { kind, loc } => json!({"ev": "storeerr", "kind": kind_of(kind), "loc": loc}),
        Event::Advance {
            tid,
            ip,
            next,
            oob,
            limit,
            gas,
            killed,
            gas_err,
        } => json!({
            "ev": "advance", "tid": tid, "ip": ip, "next": next.map_or(-1i64, i64::from),
            "oob": oob, "limit": limit, "gas": gas, "killed": killed, "gas_err": gas_err,
        }),
    })
}

pub struct VmOutcome {
    pub records: Vec<J>,
    pub events:  usize,
    pub ok:      Option<bool>,
    pub panic:   Option<String>,
}

/// Runs `VM::execute` on `code` with hooks on; returns the trace records of one run.
pub fn run_vm(code: &[u8], lim: &Limits, run: usize, family: &str, budget: u64) -> VmOutcome {
    let mut records = vec![json!({
        "ev": "reset", "run": run, "family": family, "hex": hex::encode(code),
        "code": code, "L": lim.l, "F": lim.f, "G": lim.g.min(2_000_000_000), "perm": lim.perm,
    })];
    let wd = ScriptedWatchdog::new(1_000_000, None, budget);
    let wd2 = wd.clone();
    verif::start();
    let res = guarded(move || {
        let stream = InstructionStream::try_from(code).map_err(|e| format!("{:?}", e.payload))?;
        let mut vm = VM::new(stream, vm_config(lim), wd2).map_err(|e| format!("{:?}", e.payload))?;
        let r = vm.execute();
        // Hook-free cross-observation through public API.
        let result = vm.consume();
        let states = result.states.len();
        let mut max_visit = 0usize;
        let mut executed = std::collections::BTreeSet::new();
        for s in &result.states {
            for off in 0..code.len() {
                let c = s.visited_instructions().visit_count(off as u32).unwrap_or(0);
                if c > 0 {
                    executed.insert(off);
                }
                max_visit = max_visit.max(c);
            }
        }
        Ok::<_, String>((r, states, max_visit, executed))
    });
    let events = verif::take();
    let n_events = events.len();
    for e in &events {
        if let Some(j) = event_json(e) {
            records.push(j);
        }
    }
    let mut out = VmOutcome {
        records: vec![],
        events:  n_events,
        ok:      None,
        panic:   None,
    };
    match res {
        Err(p) => {
            out.panic = Some(p.clone());
            records.push(json!({"ev": "panic", "msg": p}));
        }
        Ok(Err(setup)) => {
            records.push(json!({"ev": "setup-error", "msg": setup}));
        }
        Ok(Ok((r, states, max_visit, executed))) => {
            let stopped = wd.exhausted.get();
            let (ok, errs) = match &r {
                Ok(()) => (true, vec![]),
                Err(e) => (false, errors_json(e)),
            };
            out.ok = Some(ok);
            records.push(json!({"ev": "finish", "ok": ok, "errors": errs, "stopped": stopped,
                                "states": states, "max_visit": max_visit,
                                "executed": executed.into_iter().collect::<Vec<_>>()}));
        }
    }
    out.records = records;
    out
}

pub fn layout_json(l: &StorageLayout) -> J {
    serde_json::to_value(l.slots()).unwrap_or(J::Null)
}

/// Runs the whole extractor; returns Ok(layout) / Err(description) / panic.
pub fn analyze(code: &[u8], lim: &Limits, wd: Rc<dyn Watchdog>) -> Result<Result<StorageLayout, String>, String> {
    let code = code.to_vec();
    let cfg = vm_config(lim);
    guarded(move || {
        let contract = Contract::new(
            code,
            Chain::Ethereum {
                version: EthereumVersion::latest(),
            },
        );
        sle::new(contract, cfg, tc::Config::default(), wd)
            .analyze()
            .map_err(|e| format!("{e:?}"))
    })
}

/// `vm-trace`: generated programs x limit settings, recorded for SymVMTrace.
pub fn trace(o: &Opts) -> R<()> {
    let seed: u64 = o.num("seed", 1);
    let n: usize = o.num("programs", 100);
    let shards: usize = o.num("shards", 1);
    let prefix = o.str("out")?;
    let budget: u64 = o.num("budget", 2_000_000);
    let max_events: usize = o.num("max-events", 6000);
    let mut ws = Vec::new();
    for s in 0..shards {
        let mut w = Ndjson::create(&format!("{prefix}.{s}.ndjson"))?;
        w.put(&json!({"ev": "begin"}));
        ws.push(w);
    }
    let mut rng = StdRng::seed_from_u64(seed ^ 0xc03);
    let mut fams = std::collections::BTreeMap::new();
    let mut total_events = 0usize;
    let mut run = 0usize;
    let mut skipped = 0usize;
    let mut extra: Vec<(String, Vec<u8>)> = Vec::new();
    let mut extra_limits: Vec<Option<Limits>> = Vec::new();
    if let Some(p) = o.get("programs-file") {
        for line in std::fs::read_to_string(p).map_err(|e| e.to_string())?.lines() {
            if let Ok(v) = serde_json::from_str::<J>(line) {
                if let Some(h) = v["hex"].as_str() {
                    extra.push((v["family"].as_str().unwrap_or("file").to_string(), unhex(h)?));
                    extra_limits.push(v["L"].as_u64().map(|l| Limits {
                        l:    l as usize,
                        f:    v["F"].as_u64().unwrap_or(1) as usize,
                        g:    v["G"].as_u64().unwrap_or(30_000_000) as usize,
                        perm: v["perm"].as_bool().unwrap_or(false),
                    }));
                }
            }
        }
    }
    // every opcode that does not transfer control once, deterministically (the stack effect of each)
    // families whose catches depend on rare shapes get a fixed share of their own, whatever the random mix does
    for k in 0..o.num("focus", 90usize) {
        let prog = match k % 9 {
            0..=3 => progen::reentry(&mut rng),
            4 | 5 => progen::spaghetti(&mut rng),
            6 => progen::code_edges(&mut rng),
            _ => progen::computed_targets(&mut rng),
        };
        extra.push((prog.family, prog.code));
        extra_limits.push(None);
    }
    for _ in 0..o.num("long", 0usize) {
        let prog = progen::long_code(&mut rng, 24_576);
        extra.push((prog.family, prog.code));
        extra_limits.push(None);
    }
    for prog in progen::stack_effects_all() {
        extra.push((prog.family, prog.code));
        extra_limits.push(None);
    }
    let mut modes = Vec::new();
    for i in 0..(n + extra.len()) {
        let prog = if i < extra.len() {
            progen::Program {
                family: extra[i].0.clone(),
                code:   extra[i].1.clone(),
            }
        } else {
            progen::any(&mut rng)
        };
        let fixed = if i < extra.len() { extra_limits[i].clone() } else { None };
        let settings = if fixed.is_some() { 1 } else if i < extra.len() { 4 } else { 2 };
        for _ in 0..settings {
            let mut lim = progen::limits(&mut rng);
            if let Some(f) = &fixed {
                lim = f.clone();
            }
            if fixed.is_none() && (prog.family.starts_with("gas") || rng.gen_bool(0.15)) {
                lim.g = *[150usize, 250, 400, 700, 1200].get(rng.gen_range(0..5)).unwrap();
            }
            if prog.family.contains("overflow") {
                lim.l = lim.l.max(1);
            }
            let out = run_vm(&prog.code, &lim, run, &prog.family, budget);
            // Very long runs are kept out of TLC (state size), but still counted.
            if out.records.len() > max_events {
                skipped += 1;
                continue;
            }
            total_events += out.records.len();
            let w = &mut ws[run % shards];
            for r in &out.records {
                w.put(r);
            }
            *fams.entry(prog.family.split('[').next().unwrap_or("?").to_string()).or_insert(0usize) += 1;
            run += 1;
        }
        // Strict vs permissive on the whole pipeline (C17: strict Ok => permissive same layout).
        if i % 2 == 0 {
            let base = progen::limits(&mut rng);
            let strict = Limits {
                perm: false,
                ..base.clone()
            };
            let perm = Limits {
                perm: true,
                ..base
            };
            let a = analyze(&prog.code, &strict, ScriptedWatchdog::new(1_000_000, None, budget));
            let b = analyze(&prog.code, &perm, ScriptedWatchdog::new(1_000_000, None, budget));
            let (sa, la) = match &a {
                Ok(Ok(l)) => ("ok", Some(l.clone())),
                Ok(Err(_)) => ("err", None),
                Err(_) => ("panic", None),
            };
            let (sb, lb) = match &b {
                Ok(Ok(l)) => ("ok", Some(l.clone())),
                Ok(Err(_)) => ("err", None),
                Err(_) => ("panic", None),
            };
            modes.push(json!({"ev": "modes", "hex": hex::encode(&prog.code), "family": prog.family,
                              "L": strict.l, "F": strict.f, "G": strict.g.min(2_000_000_000),
                              "strict": sa, "perm": sb, "same": la.is_some() && la == lb}));
        }
    }
    for (i, m) in modes.iter().enumerate() {
        ws[i % shards].put(m);
    }
    let mut recs = 0;
    for w in ws {
        recs += w.finish();
    }
    println!(
        "{}",
        json!({"runs": run, "records": recs, "events": total_events, "skipped_long": skipped,
               "mode_pairs": modes.len(), "families": fams})
    );
    Ok(())
}

/// One program / configuration, for `--replay`.
pub fn one(o: &Opts) -> R<()> {
    let code = unhex(&o.str("hex")?)?;
    let lim = Limits {
        l:    o.num("L", 10),
        f:    o.num("F", 50),
        g:    o.num("G", 30_000_000),
        perm: o.flag("perm"),
    };
    let mut w = Ndjson::create(&o.str("out")?)?;
    w.put(&json!({"ev": "begin"}));
    let out = run_vm(&code, &lim, 0, "replay", 2_000_000);
    for r in &out.records {
        w.put(r);
    }
    w.finish();
    Ok(())
}

/// `vm-replay`: runs the real VM on every case the mirror model produced and
/// compares the outcome TLC predicted with what the code does (spec -> impl).
pub fn replay(o: &Opts) -> R<()> {
    let text = std::fs::read_to_string(o.str("cases")?).map_err(|e| e.to_string())?;
    let mut n = 0u64;
    let mut nbad = 0u64;
    let mut bad: Vec<J> = Vec::new();
    let mut forks_seen = 0u64;
    let mut err_cases = 0u64;
    for line in text.lines().filter(|l| !l.trim().is_empty()) {
        let c: J = serde_json::from_str(line).map_err(|e| e.to_string())?;
        let code: Vec<u8> = c["code"].as_array().ok_or("code")?.iter().map(|b| b.as_u64().unwrap() as u8).collect();
        let lim = Limits {
            l:    c["L"].as_u64().unwrap_or(1) as usize,
            f:    c["F"].as_u64().unwrap_or(1) as usize,
            g:    c["G"].as_u64().unwrap_or(30_000_000) as usize,
            perm: c["perm"].as_bool().unwrap_or(false),
        };
        let out = run_vm(&code, &lim, 0, "mc", 1_000_000);
        n += 1;
        let fin = out.records.last().cloned().unwrap_or(J::Null);
        let mut why = Vec::new();
        if fin["ev"] != "finish" {
            why.push(format!("did not finish: {fin}"));
        } else {
            if fin["ok"] != c["ok"] {
                why.push(format!("result ok={} but the model says ok={}", fin["ok"], c["ok"]));
            }
            let nerr = fin["errors"].as_array().map_or(0, Vec::len) as u64;
            if Some(nerr) != c["nerr"].as_u64() {
                why.push(format!("{} errors recorded, model says {}", nerr, c["nerr"]));
            }
            if fin["states"].as_u64() != c["states"].as_u64() {
                why.push(format!("{} stored states, model says {}", fin["states"], c["states"]));
            }
            let mut want: Vec<u64> = c["executed"].as_array().map(|a| a.iter().filter_map(J::as_u64).collect()).unwrap_or_default();
            want.sort_unstable();
            let got: Vec<u64> = fin["executed"].as_array().map(|a| a.iter().filter_map(J::as_u64).collect()).unwrap_or_default();
            if got != want {
                why.push(format!("executed offsets {got:?}, model says {want:?}"));
            }
            if c["states"].as_u64().unwrap_or(1) > 1 {
                forks_seen += 1;
            }
            if c["ok"] == false {
                err_cases += 1;
            }
        }
        if !why.is_empty() {
            nbad += 1;
            if bad.len() < 40 {
                bad.push(json!({"hex": hex::encode(&code), "L": lim.l, "F": lim.f, "G": lim.g, "perm": lim.perm, "why": why}));
            }
        }
    }
    crate::util::write_json(
        &o.str("out")?,
        &json!({"cases": n, "mismatching": nbad, "mismatches": bad, "cases_with_forks": forks_seen, "cases_with_errors": err_cases}),
    )
}


/// Executed offsets against `Cfg.tla`: every generated program (and a few longer than 24 576 bytes, whose jumps aim
/// beyond that offset) is run with the hooks on; the record carries the code bytes and the offsets of the `exec`
/// events, and `CfgTrace.tla` checks that they are offsets the EVM can possibly reach - and, for the long programs
/// (constant targets, no loops, generous limits), exactly those.
pub fn cfg_trace(o: &Opts) -> R<()> {
    let seed: u64 = o.num("seed", 1);
    let n: usize = o.num("programs", 300);
    let long: usize = o.num("long", 3);
    let mut rng = StdRng::seed_from_u64(seed ^ 0xcf6);
    let mut w = Ndjson::create(&o.str("out")?)?;
    w.put(&json!({"ev": "begin"}));
    let lim = Limits { l: 3, f: 8, g: 30_000_000, perm: true };
    let mut fams = std::collections::BTreeMap::new();
    for i in 0..(n + long) {
        let prog = if i < long { progen::long_code(&mut rng, 24_576) } else if i % 10 == 1 { progen::long_code(&mut rng, [256usize, 300, 512][i % 3]) } else if i % 4 == 0 { progen::computed_targets(&mut rng) } else { progen::any(&mut rng) };
        if i >= long && prog.code.len() > 600 {
            continue;
        }
        let mut l = lim.clone();
        l.perm = rng.gen_bool(0.7);
        let out = run_vm(&prog.code, &l, i, &prog.family, 2_000_000);
        let executed: std::collections::BTreeSet<u64> =
            out.records.iter().filter(|r| r["ev"] == "exec").filter_map(|r| r["ip"].as_u64()).collect();
        let fam = prog.family.split('[').next().unwrap_or("").to_string();
        *fams.entry(fam).or_insert(0usize) += 1;
        w.put(&json!({"ev": "cfg", "family": prog.family, "hex": hex::encode(&prog.code), "code": prog.code, "perm": l.perm,
                      "executed": executed.into_iter().collect::<Vec<_>>(), "exact": (prog.family == "long-code" || prog.family == "far-jump") && l.perm,
                      "panic": out.panic.is_some()}));
    }
    w.finish();
    println!("{}", json!({"programs": n + long, "families": fams}));
    Ok(())
}
