//! C01: analysis is total.  Every input x configuration is driven through the
//! staged API (each call under `catch_unwind`) and through the one-call entry
//! point; stage outcomes are recorded for `PipelineTrace.tla`.  The id of the
//! case in flight is written to a progress file first, so that a crash of the
//! whole process (abort, native stack overflow) is attributed to its input.

use std::io::Write;

use rand::{rngs::StdRng, seq::SliceRandom, Rng, SeedableRng};
use serde_json::{json, Value as J};
use storage_layout_extractor as sle;
use storage_layout_extractor::{
    extractor::{
        chain::{
            version::{ChainVersion, EthereumVersion},
            Chain,
        },
        contract::Contract,
    },
    tc,
    vm::Config,
};

use crate::{
    progen::{self, assemble, Item},
    util::{guarded, unhex, Ndjson, Opts, R},
    vmrun::ScriptedWatchdog,
};

#[derive(Clone, Debug)]
pub struct Cfg {
    pub l:     usize,
    pub f:     usize,
    pub g:     usize,
    pub v:     usize,
    pub m:     usize,
    pub perm:  bool,
}

impl Cfg {
    fn vm(&self) -> Config {
        Config::default()
            .with_max_iterations_per_opcode(self.l)
            .with_max_forks_per_fork_target(self.f)
            .with_gas_limit(self.g)
            .with_value_size_limit(self.v)
            .with_memory_max_bytes(self.m)
            .with_permissive_errors(self.perm)
    }

    fn json(&self) -> J {
        json!({"L": self.l, "F": self.f, "G": self.g, "V": self.v, "M": self.m, "perm": self.perm})
    }
}

fn random_cfg(rng: &mut StdRng) -> Cfg {
    Cfg {
        l:    *[1usize, 2, 3, 5, 10, 12].choose(rng).unwrap(),
        f:    *[1usize, 2, 5, 20, 50, 60].choose(rng).unwrap(),
        g:    *[300usize, 1000, 100_000, 30_000_000].choose(rng).unwrap(),
        v:    *[1usize, 5, 50, 250, 1000].choose(rng).unwrap(),
        m:    *[1usize, 32, 394, 4096].choose(rng).unwrap(),
        perm: rng.gen_bool(0.5),
    }
}

/// The library's default limits (under which values are not culled before the type checker sees them).
fn default_cfg(perm: bool) -> Cfg {
    Cfg { l: 10, f: 50, g: 30_000_000, v: 250, m: 394, perm }
}

fn contract(code: &[u8]) -> Contract {
    Contract::new(
        code.to_vec(),
        Chain::Ethereum {
            version: EthereumVersion::latest(),
        },
    )
}

fn wd() -> std::rc::Rc<dyn storage_layout_extractor::watchdog::Watchdog> {
    ScriptedWatchdog::new(1_000_000, None, 20_000_000)
}

/// One input under one configuration: staged calls, then the one-call entry point.
fn run_case(code: &[u8], cfg: &Cfg, stages: usize) -> J {
    let mut calls: Vec<J> = Vec::new();
    let mut call = |name: &str, res: &str, msg: String| calls.push(json!({"name": name, "res": res, "msg": msg.chars().take(160).collect::<String>()}));
    // staged, each call guarded on its own
    let ex0 = sle::new(contract(code), cfg.vm(), tc::Config::default(), wd());
    'staged: {
        let ex1 = match guarded(|| ex0.disassemble()) {
            Err(p) => { call("disassemble", "panic", p); break 'staged; }
            Ok(Err(e)) => { call("disassemble", "err", format!("{e:?}")); break 'staged; }
            Ok(Ok(x)) => { call("disassemble", "ok", String::new()); x }
        };
        let ex2 = match guarded(|| ex1.prepare_vm()) {
            Err(p) => { call("prepare_vm", "panic", p); break 'staged; }
            Ok(Err(e)) => { call("prepare_vm", "err", format!("{e:?}")); break 'staged; }
            Ok(Ok(x)) => { call("prepare_vm", "ok", String::new()); x }
        };
        let ex3 = match guarded(|| ex2.execute()) {
            Err(p) => { call("execute", "panic", p); break 'staged; }
            Ok(Err(e)) => { call("execute", "err", format!("{e:?}")); break 'staged; }
            Ok(Ok(x)) => { call("execute", "ok", String::new()); x }
        };
        if stages <= 3 {
            break 'staged;
        }
        let ex4 = match guarded(|| ex3.prepare_unifier()) {
            Err(p) => { call("prepare_unifier", "panic", p); break 'staged; }
            Ok(x) => { call("prepare_unifier", "ok", String::new()); x }
        };
        match guarded(|| ex4.infer()) {
            Err(p) => call("infer", "panic", p),
            Ok(Err(e)) => call("infer", "err", format!("{e:?}")),
            Ok(Ok(_)) => call("infer", "ok", String::new()),
        }
    }
    if stages <= 3 {
        // a prefix of the stages only (configurations under which the later stages would run for ages)
        return json!({"ev": "run", "hex": hex::encode(code), "cfg": cfg.json(), "calls": calls, "analyze": "skipped",
                      "analyze_msg": "", "stable": true, "prefix": true});
    }
    // one call
    let code2 = code.to_vec();
    let cfg2 = cfg.clone();
    let analyze = match guarded(move || sle::new(contract(&code2), cfg2.vm(), tc::Config::default(), wd()).analyze()) {
        Err(p) => ("panic", p),
        Ok(Err(e)) => ("error", format!("{e:?}").chars().take(120).collect()),
        Ok(Ok(_)) => ("layout", String::new()),
    };
    json!({"ev": "run", "hex": hex::encode(code), "cfg": cfg.json(), "calls": calls, "analyze": analyze.0,
           "analyze_msg": analyze.1, "stable": true, "prefix": false})
}

fn push_word(hexs: &str) -> Item {
    Item::Push(unhex(hexs).unwrap_or(vec![0]))
}

/// A boundary-constant program from a RolesGen case, in context 0 (direct), 1 (computed), 2 (after a fork).
fn roles_program(c: &J, context: usize) -> Vec<u8> {
    let op = c["op"].as_u64().unwrap_or(0) as u8;
    let pops = c["pops"].as_u64().unwrap_or(0) as usize;
    let pushes = c["pushes"].as_u64().unwrap_or(0) as usize;
    let pos = c["pos"].as_u64().unwrap_or(1) as usize;
    let val = c["val"].as_str().unwrap_or("00");
    let mut items = Vec::new();
    if context == 2 {
        items.extend([Item::Op(0x36), Item::PushLabel { label: 0, width: 2, high: 0, delta: 0 }, Item::Op(0x57), Item::Op(0x00), Item::Label(0)]);
    }
    // operands are pushed last-first so that operand 1 ends on top
    for p in (1..=pops).rev() {
        if p == pos {
            if context == 1 {
                // (val - 1) + 1, computed at run time (wraps for 0)
                items.extend([push_word(val), Item::Push(vec![1]), Item::Op(0x90), Item::Op(0x03), Item::Push(vec![1]), Item::Op(0x01)]);
            } else {
                items.push(push_word(val));
            }
        } else if context == 3 {
            items.push(Item::Push(vec![(p * 0x30).min(0xf0) as u8]));
        } else {
            items.push(Item::Push(vec![(p as u8) * 4]));
        }
    }
    items.push(Item::Op(op));
    if pushes >= 1 {
        // use the result as a value, as a key, and as a memory offset
        items.extend([Item::Op(0x80), Item::Push(vec![0]), Item::Op(0x55), Item::Op(0x80), Item::Op(0x54), Item::Op(0x50), Item::Op(0x51), Item::Op(0x50)]);
    }
    items.push(Item::Op(0x00));
    assemble(&items)
}

/// Constants added to a slot, to the hash of a slot and to the hash of a key and a slot.
const SLOT_ARITHMETIC_CONSTANTS: [&str; 12] = ["01", "ff", "0100", "ffffffff", "0100000000", "00ffffffffffffff", "0100000000000000", "1000000000000001",
                                               "ffffffffffffffff", "010000000000000001", "8000000000000000000000000000000000000000000000000000000000000000",
                                               "ffffffffffffffffffffffffffffffffffffffffffffffffffffffffffffffff"];

/// Programs known to stress the type checker: cyclic types through dynamic arrays / mappings / packed words.
fn cyclic_programs() -> Vec<Vec<u8>> {
    ["6000543660006000526020600020015500",                                   // sstore(keccak(0)+i, sload(0))
     "6000600052600054366020600020015500",
     "600054366000526000602052604060002055",                                  // sstore(keccak(k||0), sload(0))
     "60005473ffffffffffffffffffffffffffffffffffffffff1680315060015560015460005500", // read-mask-write cycle
     "6001366000600020015500", "366000600020015400",                          // sha3 of an empty slice + i as key
     "60016101001b56", "60", "6000ff6001600555"]
        .iter()
        .filter_map(|h| unhex(h).ok())
        .chain([12usize, 24, 40, 64].iter().flat_map(|k| {
            // chains of loads keyed on loads: slot := sload(sload(...sload(0)...)); the same through memory
            let mut a = vec![0x60, 0x00];
            a.extend(std::iter::repeat(0x54).take(*k));
            a.extend([0x60, 0x01, 0x55, 0x00]);
            let mut b = vec![0x36];
            for _ in 0..*k {
                b.extend([0x54, 0x80, 0x01]); // x := sload(x) + sload(x)
            }
            b.extend([0x60, 0x01, 0x55, 0x00]);
            [a, b]
        }))
        .collect()
}

/// Straight-line programs whose storage locations feed each other: `sstore(loc(b), part(sload(loc(a))))` over
/// a handful of base slots, where a location is the slot itself, an element of the dynamic array or of
/// the mapping rooted at it, or the second word of such a mapping element.  With few base slots the type
/// evidence is cyclic in every way the constructors allow (T = T[], T = mapping(k => T), T inside its
/// own packed field, and cycles through several slots).
pub fn cyclic_dataflow(rng: &mut StdRng) -> Vec<u8> {
    fn loc(rng: &mut StdRng, c: &mut Vec<u8>, nslots: u8) {
        let slot = rng.gen_range(0..nslots);
        match rng.gen_range(0..8) {
            0..=2 => c.extend([0x60, slot]),
            3 | 4 => c.extend([0x60, slot, 0x60, 0x00, 0x52, 0x60, 0x20, 0x60, 0x00, 0x20, 0x60, 0x04, 0x35, 0x01]),
            _ => {
                c.extend([0x60, 0x00, 0x35, 0x60, 0x00, 0x52, 0x60, slot, 0x60, 0x20, 0x52, 0x60, 0x40, 0x60, 0x00, 0x20]);
                if rng.gen_bool(0.3) {
                    c.extend([0x60, 0x01, 0x01]);
                }
            }
        }
    }
    let nslots = rng.gen_range(1..4u8);
    let mut c: Vec<u8> = Vec::new();
    for _ in 0..rng.gen_range(1..5) {
        loc(rng, &mut c, nslots);
        c.push(0x54);
        // how the loaded word is used besides being copied: as an address, a signed number, a condition ...
        match rng.gen_range(0..8) {
            0 => c.extend([0x80, 0x31, 0x50]),             // balance(v)
            1 => c.extend([0x80, 0x3b, 0x50]),             // extcodesize(v)
            2 => c.extend([0x80, 0x60, 0x00, 0x12, 0x50]), // slt(0, v)
            3 => c.extend([0x80, 0x15, 0x50]),             // iszero(v)
            _ => {}
        }
        // now and then the word is written straight back through a mask: sstore(k, and(sload(k), mask))
        if rng.gen_bool(0.25) {
            let k = rng.gen_range(0..nslots);
            c.extend([0x60, k, 0x54]);
            match rng.gen_range(0..3) {
                0 => c.extend([0x80, 0x31, 0x50]),
                1 => c.extend([0x80, 0x60, 0x00, 0x12, 0x50]),
                _ => {}
            }
            c.push(0x73);
            c.extend([0xff; 20]);
            c.extend([0x16, 0x60, k, 0x55]);
        }
        for _ in 0..rng.gen_range(1..3) {
            c.push(0x80);
            match rng.gen_range(0..6) {
                0..=2 => {}
                3 => c.extend([0x60, 8 * rng.gen_range(0..20u8), 0x1c, 0x60, 0xff, 0x16]),
                4 => {
                    c.push(0x73);
                    c.extend([0xff; 20]);
                    c.push(0x16);
                }
                _ => c.extend([0x60, 8 * rng.gen_range(1..20u8), 0x1b]),
            }
            loc(rng, &mut c, nslots);
            c.push(0x55);
        }
        c.push(0x50);
    }
    c.push(0x00);
    c
}

/// C03, the half after execution: the whole analysis halts.  One analyze() per (program, configuration) under a
/// watchdog that never asks to stop but counts polls: running out of the poll budget means the analysis was
/// still looping.  A process that dies (unbounded recursion) or hangs in an unpolled loop is seen by the driver.
pub fn halt_run(o: &Opts) -> R<()> {
    let seed: u64 = o.num("seed", 1);
    let skip: usize = o.num("skip", 0);
    let n: usize = o.num("programs", 300);
    let budget: u64 = o.num("budget", 2_000_000u64);
    let out = o.str("out")?;
    let progress = o.str("progress")?;
    let mut rng = StdRng::seed_from_u64(seed ^ 0xc03);
    let mut cases: Vec<(String, Vec<u8>, Cfg)> = Vec::new();
    for code in cyclic_programs() {
        for _ in 0..2 {
            cases.push(("crafted".into(), code.clone(), random_cfg(&mut rng)));
        }
    }
    for i in 0..n {
        let (fam, code): (&str, Vec<u8>) = match i % 4 {
            0 | 1 => ("cyclic-dataflow", cyclic_dataflow(&mut rng)),
            2 => ("control-flow", progen::any(&mut rng).code),
            _ => ("idioms", crate::idioms::random_contract(&mut rng).1),
        };
        cases.push((fam.to_string(), code, random_cfg(&mut rng)));
    }
    let mut w = Ndjson::create(&out)?;
    if skip == 0 {
        w.put_now(&json!({"ev": "begin"}));
    }
    let mut fams = std::collections::BTreeMap::new();
    for (i, (fam, code, cfg)) in cases.iter().enumerate().skip(skip) {
        if let Ok(mut f) = std::fs::File::create(&progress) {
            let _ = writeln!(f, "{}", json!({"index": i, "family": fam, "hex": hex::encode(code), "cfg": cfg.json()}));
        }
        let dog = ScriptedWatchdog::new(1, None, budget);
        let dog2 = dog.clone();
        let code2 = code.clone();
        let cfg2 = cfg.clone();
        let outcome = match guarded(move || sle::new(contract(&code2), cfg2.vm(), tc::Config::default(), dog2).analyze()) {
            Err(p) => ("panic", p),
            Ok(Err(e)) => ("error", format!("{e:?}").chars().take(120).collect()),
            Ok(Ok(_)) => ("layout", String::new()),
        };
        w.put_now(&json!({"ev": "halt", "index": i, "family": fam, "hex": hex::encode(code), "cfg": cfg.json(),
                          "outcome": outcome.0, "msg": outcome.1, "polls": dog.polls.get(), "budget": budget,
                          "exhausted": dog.exhausted.get()}));
        *fams.entry(fam.to_string()).or_insert(0usize) += 1;
    }
    w.finish();
    let _ = std::fs::remove_file(&progress);
    println!("{}", json!({"cases": cases.len(), "ran": cases.len() - skip.min(cases.len()), "families": fams}));
    Ok(())
}

pub fn run(o: &Opts) -> R<()> {
    let seed: u64 = o.num("seed", 1);
    let skip: usize = o.num("skip", 0);
    let n_random: usize = o.num("random", 300);
    let out = o.str("out")?;
    let progress = o.str("progress")?;
    let mut rng = StdRng::seed_from_u64(seed ^ 0xc01);
    // the whole case list is generated deterministically first, so that a restart after a crash can skip
    let mut cases: Vec<(String, Vec<u8>, Cfg)> = Vec::new();
    // slot arithmetic with boundary constants: keccak(key || slot) + c, keccak(slot) + c, slot + c, in a key
    for c in SLOT_ARITHMETIC_CONSTANTS {
        let cb = unhex(c)?;
        for shape in 0..3 {
            let mut items: Vec<Item> = match shape {
                0 => vec![Item::Push(vec![0]), Item::Op(0x35), Item::Push(vec![0]), Item::Op(0x52), Item::Push(vec![1]), Item::Push(vec![0x20]), Item::Op(0x52),
                          Item::Push(vec![0x40]), Item::Push(vec![0]), Item::Op(0x20)],
                1 => vec![Item::Push(vec![1]), Item::Push(vec![0]), Item::Op(0x52), Item::Push(vec![0x20]), Item::Push(vec![0]), Item::Op(0x20)],
                _ => vec![Item::Push(vec![1])],
            };
            // one access at base + c, and a second one at base + c' (another member of the same struct / element)
            let base_items = items.clone();
            items.extend([Item::Push(cb.clone()), Item::Op(0x01), Item::Op(0x80), Item::Op(0x54), Item::Op(0x90), Item::Op(0x55)]);
            let mut two = items.clone();
            items.push(Item::Op(0x00));
            cases.push(("crafted:slot-arithmetic".into(), assemble(&items), random_cfg(&mut rng)));
            cases.push(("crafted:slot-arithmetic".into(), assemble(&items), default_cfg(rng.gen_bool(0.5))));
            two.extend(base_items);
            two.extend([Item::Push(vec![*[0u8, 1, 2].choose(&mut rng).unwrap()]), Item::Op(0x01), Item::Op(0x54), Item::Op(0x50), Item::Op(0x00)]);
            cases.push(("crafted:slot-arithmetic".into(), assemble(&two), random_cfg(&mut rng)));
            cases.push(("crafted:slot-arithmetic".into(), assemble(&two), default_cfg(rng.gen_bool(0.5))));
        }
    }
    if let Some(p) = o.get("roles") {
        for (i, line) in std::fs::read_to_string(p).map_err(|e| e.to_string())?.lines().filter(|l| !l.trim().is_empty()).enumerate() {
            let c: J = serde_json::from_str(line).map_err(|e| e.to_string())?;
            let ctx = i % 3;
            cases.push((format!("roles:{}", ["direct", "computed", "after-fork"][ctx]), roles_program(&c, ctx), random_cfg(&mut rng)));
            // the boundary constant next to operands that are not small either (a size of several words next to an
            // offset at the edge of the host's index range, ...), under the library's default limits
            if c["pops"].as_u64().unwrap_or(0) >= 2 {
                cases.push(("roles:wide-others".into(), roles_program(&c, 3), default_cfg(rng.gen_bool(0.5))));
            }
        }
    }
    for code in cyclic_programs() {
        for _ in 0..3 {
            cases.push(("crafted".into(), code.clone(), random_cfg(&mut rng)));
        }
        cases.push(("crafted".into(), code.clone(), default_cfg(rng.gen_bool(0.5))));
    }
    let mut real: Vec<Vec<u8>> = Vec::new();
    if let Some(p) = o.get("corpus") {
        let v: J = serde_json::from_str(&std::fs::read_to_string(p).map_err(|e| e.to_string())?).map_err(|e| e.to_string())?;
        for c in v.as_array().ok_or("corpus")? {
            let code = unhex(c["hex"].as_str().unwrap_or(""))?;
            if code.len() >= 100 && code.len() <= o.num("max-real-bytes", 1500usize) {
                real.push(code);
            }
        }
    }
    // cyclic dataflow over a few slots (what the type checker's corner cases need), mostly under the library's defaults
    for _ in 0..n_random / 4 {
        let code = cyclic_dataflow(&mut rng);
        let cfg = if rng.gen_bool(0.6) { default_cfg(rng.gen_bool(0.5)) } else { random_cfg(&mut rng) };
        cases.push(("cyclic-dataflow".into(), code, cfg));
    }
    for i in 0..n_random {
        let (fam, code): (&str, Vec<u8>) = match i % 7 {
            0 => {
                let len = rng.gen_range(1..200);
                ("random-bytes", (0..len).map(|_| rng.gen()).collect())
            }
            1 => ("control-flow", progen::any(&mut rng).code),
            2 => ("idioms", crate::idioms::random_contract(&mut rng).1),
            3 if i % 14 == 3 => ("cyclic-dataflow", cyclic_dataflow(&mut rng)),
            3 => ("constant-program", crate::c07::constant_program(&mut rng).0),
            4 | 5 if !real.is_empty() => {
                let mut m = real.choose(&mut rng).unwrap().clone();
                if i % 7 == 4 {
                    for _ in 0..rng.gen_range(1..4) {
                        let at = rng.gen_range(0..m.len());
                        m[at] = rng.gen();
                    }
                    ("real-mutated", m)
                } else {
                    let cut = rng.gen_range(1..m.len());
                    m.truncate(cut);
                    ("real-truncated", m)
                }
            }
            _ => {
                // opcode soup biased to opcodes with operands and hostile pushes
                let len = rng.gen_range(4..60);
                let mut v = Vec::new();
                for _ in 0..len {
                    match rng.gen_range(0..4) {
                        0 => v.extend([0x7f].iter().copied().chain((0..32).map(|_| if rng.gen_bool(0.5) { 0xff } else { 0x00 }))),
                        1 => v.extend([0x60, rng.gen()]),
                        _ => v.push(*[0x01u8, 0x02, 0x04, 0x0a, 0x1a, 0x1b, 0x1c, 0x1d, 0x20, 0x35, 0x37, 0x39, 0x3c, 0x3e, 0x51, 0x52, 0x53, 0x54, 0x55, 0x80, 0x90, 0xa1, 0xf1, 0xf3, 0xfd, 0x16, 0x17, 0x0b, 0x08].choose(&mut rng).unwrap()),
                    }
                }
                ("opcode-soup", v)
            }
        };
        cases.push((fam.to_string(), code, random_cfg(&mut rng)));
    }
    // extreme but valid configurations, run up to and including execution (the later stages would walk
    // values of astronomic size): value-growing programs under the largest value-size and gas limits
    for k in [40usize, 70, 130, 300] {
        let mut code = vec![0x60, 0x01];
        for _ in 0..k {
            code.extend([0x80, 0x01]);
        }
        code.extend([0x60, 0x00, 0x55, 0x00]);
        for v in [usize::MAX, usize::MAX / 2, 1usize << 40] {
            let mut cfg = random_cfg(&mut rng);
            cfg.v = v;
            cfg.g = *[30_000_000usize, usize::MAX].choose(&mut rng).unwrap();
            cases.push(("extreme-config:execute-only".into(), code.clone(), cfg));
        }
    }
    let mut w = Ndjson::create(&out)?;
    if skip == 0 {
        w.put_now(&json!({"ev": "begin"}));
    }
    let mut fams = std::collections::BTreeMap::new();
    for (i, (fam, code, cfg)) in cases.iter().enumerate().skip(skip) {
        // which case is in flight (survives an abort of this process)
        if let Ok(mut f) = std::fs::File::create(&progress) {
            let _ = writeln!(f, "{}", json!({"index": i, "family": fam, "hex": hex::encode(code), "cfg": cfg.json()}));
        }
        let mut rec = run_case(code, cfg, if fam.starts_with("extreme-config") { 3 } else { 5 });
        rec["family"] = json!(fam);
        rec["index"] = json!(i);
        w.put_now(&rec);
        *fams.entry(fam.split(':').next().unwrap_or("?").to_string()).or_insert(0usize) += 1;
    }
    w.finish();
    let _ = std::fs::remove_file(&progress);
    println!("{}", json!({"cases": cases.len(), "ran": cases.len() - skip.min(cases.len()), "families": fams}));
    Ok(())
}
