//! C09 (constant folding) and C18 (value sizes): observations of the real
//! `SymbolicValue` for `ValueTrace.tla`.

use ethnum::U256;
use rand::{rngs::StdRng, seq::SliceRandom, Rng, SeedableRng};
use serde_json::{json, Value as J};
use storage_layout_extractor::{
    disassembly::InstructionStream,
    vm::{
        value::{known::KnownWord, Provenance, RuntimeBoxedVal, SymbolicValueData as SVD, RSV, RSVD},
        VM,
    },
};

use crate::{
    progen::{self, assemble, Item, Limits},
    util::{guarded, Ndjson, Opts, R},
    values,
    vmrun::{vm_config, ScriptedWatchdog},
};

fn le(w: U256) -> Vec<u8> {
    w.to_le_bytes().to_vec()
}

/// Uniform term shape for Value.tla: {"op", "w" (32 LE bytes or []), "args"}.
pub fn term_json(v: &RuntimeBoxedVal) -> J {
    let d = v.data();
    let w: Vec<u8> = match d {
        SVD::KnownData { value } => value.bytes_le().to_vec(),
        _ => vec![],
    };
    // leaves that are not constants must stay distinguishable from each other
    let op = match d {
        SVD::Value { id } => format!("Value:{}", &id.to_string()[..8]),
        SVD::CallData { id, .. } => format!("CallData:{}", &id.to_string()[..8]),
        other => values::variant_name(other).to_string(),
    };
    json!({"op": op, "w": w, "args": v.children().iter().map(term_json).collect::<Vec<_>>()})
}

fn known(w: U256) -> RuntimeBoxedVal {
    RSV::new_known_value(0, KnownWord::from_le(w), Provenance::Synthetic, None)
}

fn opaque() -> RuntimeBoxedVal {
    RSV::new_value(0, Provenance::Synthetic)
}

const BIN: [&str; 19] = [
    "Add", "Multiply", "Subtract", "Divide", "SignedDivide", "Modulo", "SignedModulo", "Exp", "LessThan", "GreaterThan",
    "SignedLessThan", "SignedGreaterThan", "Equals", "And", "Or", "Xor", "LeftShift", "RightShift", "ArithmeticRightShift",
];

fn build(op: &str, a: RuntimeBoxedVal, b: RuntimeBoxedVal) -> RuntimeBoxedVal {
    let d = match op {
        "Add" => RSVD::Add { left: a, right: b },
        "Multiply" => RSVD::Multiply { left: a, right: b },
        "Subtract" => RSVD::Subtract { left: a, right: b },
        "Divide" => RSVD::Divide { dividend: a, divisor: b },
        "SignedDivide" => RSVD::SignedDivide { dividend: a, divisor: b },
        "Modulo" => RSVD::Modulo { dividend: a, divisor: b },
        "SignedModulo" => RSVD::SignedModulo { dividend: a, divisor: b },
        "Exp" => RSVD::Exp { value: a, exponent: b },
        "LessThan" => RSVD::LessThan { left: a, right: b },
        "GreaterThan" => RSVD::GreaterThan { left: a, right: b },
        "SignedLessThan" => RSVD::SignedLessThan { left: a, right: b },
        "SignedGreaterThan" => RSVD::SignedGreaterThan { left: a, right: b },
        "Equals" => RSVD::Equals { left: a, right: b },
        "And" => RSVD::And { left: a, right: b },
        "Or" => RSVD::Or { left: a, right: b },
        "Xor" => RSVD::Xor { left: a, right: b },
        "LeftShift" => RSVD::LeftShift { shift: a, value: b },
        "RightShift" => RSVD::RightShift { shift: a, value: b },
        "ArithmeticRightShift" => RSVD::ArithmeticRightShift { shift: a, value: b },
        "IsZero" => RSVD::IsZero { number: a },
        "Not" => RSVD::Not { value: a },
        // non-foldable operators that must be rebuilt unchanged around folded operands
        "Sha3" => RSVD::Sha3 { data: a },
        "Balance" => RSVD::Balance { address: a },
        "SLoad" => RSVD::SLoad { key: a, value: b },
        _ => RSVD::Concat { values: vec![a, b] },
    };
    RSV::new_synthetic(0, d)
}

fn abs(w: U256) -> U256 {
    if w >> 255 == U256::ONE {
        (!w).wrapping_add(U256::ONE)
    } else {
        w
    }
}

/// The quotient hint for the modulo family (an untrusted scratch calculation the acceptor verifies).
fn hint(op: &str, a: U256, b: U256) -> U256 {
    if b == U256::ZERO {
        return U256::ZERO;
    }
    match op {
        "Modulo" => a / b,
        "SignedModulo" => abs(a) / abs(b),
        _ => U256::ZERO,
    }
}

fn boundary(thorough: bool) -> Vec<U256> {
    let one = U256::ONE;
    let mut v = vec![U256::ZERO, one, U256::from(2u8), U256::from(3u8), U256::from(7u8), U256::from(31u8), U256::from(32u8),
                     U256::from(255u16), U256::from(256u16), U256::from(257u16), one << 32, (one << 32) + one, one << 64,
                     (one << 64) - one, one << 128, one << 255, (one << 255) - one, (one << 255) + one, U256::MAX,
                     U256::MAX - one, U256::from(0xdead_beefu32)];
    let ks: Vec<u32> = if thorough { (7..=255).collect() } else { vec![8, 15, 63, 127, 160, 248, 254] };
    for k in ks {
        v.push(one << k);
        if thorough || k % 2 == 1 {
            v.push((one << k) + one);
            v.push((one << k) - one);
        }
    }
    v.sort();
    v.dedup();
    v
}

fn emit_tree(w: &mut Ndjson, root: &RuntimeBoxedVal, src: &str) {
    // post-order over the input tree; each node with the real folded forms of its operands
    fn go(v: &RuntimeBoxedVal, out: &mut Vec<J>) -> Result<(), String> {
        for c in v.children() {
            go(&c, out)?;
        }
        let kids: Vec<RuntimeBoxedVal> = v.children();
        let folded_kids: Vec<J> = kids.iter().map(|k| guarded(|| k.constant_fold()).map(|f| term_json(&f))).collect::<Result<_, _>>()?;
        let folded = guarded(|| v.constant_fold())?;
        let t = term_json(v);
        let mut h = U256::ZERO;
        let consts: Vec<Option<U256>> = kids
            .iter()
            .map(|k| match guarded(|| k.constant_fold()).ok().and_then(|f| f.as_word()) {
                Some(wd) => Some(wd.value_le()),
                None => None,
            })
            .collect();
        if let [Some(a), Some(b)] = consts[..] {
            h = hint(t["op"].as_str().unwrap_or(""), a, b);
        }
        out.push(json!({"op": t["op"], "w": t["w"], "kids": folded_kids, "fold": term_json(&folded), "hint": le(h)}));
        Ok(())
    }
    let mut nodes = Vec::new();
    match go(root, &mut nodes) {
        Err(p) => w.put(&json!({"ev": "fold", "src": src, "panic": p, "input": term_json(root)})),
        Ok(()) => {
            let refold = guarded(|| root.constant_fold().constant_fold());
            match refold {
                Ok(r) => w.put(&json!({"ev": "fold", "src": src, "nodes": nodes, "refold": term_json(&r)})),
                Err(p) => w.put(&json!({"ev": "fold", "src": src, "panic": p, "input": term_json(root)})),
            }
        }
    }
}

fn random_tree(rng: &mut StdRng, depth: usize, bs: &[U256]) -> RuntimeBoxedVal {
    if depth == 0 || rng.gen_bool(0.25) {
        return if rng.gen_bool(0.7) { known(*bs.choose(rng).unwrap()) } else { opaque() };
    }
    let op = match rng.gen_range(0..12) {
        0 => "IsZero",
        1 => "Not",
        2 => *["Sha3", "Balance", "SLoad", "Concat"].choose(rng).unwrap(),
        _ => *BIN.iter().filter(|o| **o != "Exp" || rng.gen_bool(0.1)).collect::<Vec<_>>().choose(rng).unwrap(),
    };
    let a = random_tree(rng, depth - 1, bs);
    let b = random_tree(rng, depth - 1, bs);
    build(op, a, b)
}

pub fn fold_trace(o: &Opts) -> R<()> {
    let seed: u64 = o.num("seed", 1);
    let thorough = o.flag("thorough");
    let shards: usize = o.num("shards", 1);
    let prefix = o.str("out")?;
    let mut rng = StdRng::seed_from_u64(seed ^ 0xc09);
    let mut ws = Vec::new();
    for s in 0..shards {
        let mut w = Ndjson::create(&format!("{prefix}.{s}.ndjson"))?;
        w.put(&json!({"ev": "begin"}));
        ws.push(w);
    }
    let bs = boundary(thorough);
    let mut n = 0usize;
    let mut count = |n: &mut usize| {
        *n += 1;
        *n
    };
    // 1. every foldable operator x operand pairs from the boundary set (a covering sample in quick)
    let pairs_per_op = if thorough { 4000 } else { 140 };
    for op in BIN {
        let mut pairs: Vec<(U256, U256)> = Vec::new();
        for _ in 0..pairs_per_op {
            pairs.push((*bs.choose(&mut rng).unwrap(), *bs.choose(&mut rng).unwrap()));
        }
        // always include the named corner cases
        let min = U256::ONE << 255;
        pairs.extend([(min, U256::MAX), (U256::MAX, min), (min, U256::ZERO), (U256::ZERO, U256::ZERO), (U256::from(256u16), U256::ONE),
                      (U256::from(255u16), U256::ONE), (U256::from(255u16), min), (U256::from(257u16), U256::MAX), (U256::MAX, U256::MAX),
                      (U256::from(2u8), (U256::ONE << 32) + U256::ONE), (U256::from(3u8), U256::ONE << 32)]);
        if op == "Exp" {
            // square-and-multiply costs ~10 ms per exponent bit in the acceptor: keep exponents mostly short
            pairs = pairs.into_iter().enumerate().filter(|(i, (_, e))| *e < (U256::ONE << 40) || i % 40 == 0).map(|(_, p)| p).take(if thorough { 400 } else { 60 }).collect();
            pairs.extend([(U256::from(3u8), (U256::ONE << 32) + U256::from(5u8)), (U256::from(2u8), U256::from(255u8)), (U256::from(2u8), U256::from(256u16)),
                          (U256::MAX, U256::from(3u8)), (U256::from(7u8), U256::ONE << 32)]);
        }
        for (a, b) in pairs {
            let t = build(op, known(a), known(b));
            let i = count(&mut n);
            emit_tree(&mut ws[i % shards], &t, "pairs");
            // the same operator with one opaque operand: must be rebuilt as the same operator
            if i % 16 == 0 {
                let t2 = if i % 32 == 0 { build(op, opaque(), known(b)) } else { build(op, known(a), opaque()) };
                let j = count(&mut n);
                emit_tree(&mut ws[j % shards], &t2, "half-opaque");
            }
        }
    }
    for op in ["IsZero", "Not"] {
        for a in &bs {
            let t = build(op, known(*a), known(U256::ZERO));
            let i = count(&mut n);
            emit_tree(&mut ws[i % shards], &t, "unary");
        }
        let t = build(op, opaque(), opaque());
        let i = count(&mut n);
        emit_tree(&mut ws[i % shards], &t, "half-opaque");
    }
    // every operator once with each operand opaque (both positions), exhaustively
    for op in BIN {
        for (a, b) in [(opaque(), known(U256::from(5u8))), (known(U256::from(5u8)), opaque()), (opaque(), opaque())] {
            let t = build(op, a, b);
            let i = count(&mut n);
            emit_tree(&mut ws[i % shards], &t, "half-opaque");
        }
    }
    // 2. trees mixing constants and opaque leaves
    let trees = if thorough { 6000 } else { 350 };
    for _ in 0..trees {
        let d = rng.gen_range(2..=4);
        let t = random_tree(&mut rng, d, &bs);
        let i = count(&mut n);
        emit_tree(&mut ws[i % shards], &t, "trees");
    }
    let mut recs = 0;
    for w in ws {
        recs += w.finish();
    }
    println!("{}", json!({"trees": n, "records": recs, "boundary_values": bs.len()}));
    Ok(())
}

fn p1(v: u8) -> Item {
    Item::Push(vec![v])
}

/// Programs whose values grow: loops that square, add or hash a running value.
fn growth_program(rng: &mut StdRng) -> Vec<u8> {
    let mut v = vec![Item::Op(0x36)]; // CALLDATASIZE as the running value
    if rng.gen_bool(0.3) {
        v = vec![p1(4), Item::Op(0x35)];
    }
    v.push(Item::Label(0));
    match rng.gen_range(0..6) {
        0 => v.extend([Item::Op(0x80), Item::Op(0x02)]),                                  // x * x
        1 => v.extend([p1(1), Item::Op(0x01)]),                                           // x + 1
        2 => v.extend([p1(0), Item::Op(0x52), p1(0x20), p1(0), Item::Op(0x20)]),          // keccak(x)
        3 => v.extend([Item::Op(0x80), Item::Op(0x80), Item::Op(0x01), Item::Op(0x02)]),  // x * (x + x)
        4 => v.extend([Item::Op(0x80), Item::Op(0x15), Item::Op(0x01)]),                  // x + iszero(x)
        _ => v.extend([Item::Op(0x80), p1(3), Item::Op(0x1b), Item::Op(0x17), Item::Op(0x19)]), // not(x | x << 3)
    }
    v.extend([Item::Op(0x80), p1(rng.gen_range(0..4)), Item::Op(0x55)]); // sstore(k, x)
    if rng.gen_bool(0.5) {
        v.extend([Item::Op(0x80), p1(0x40), Item::Op(0x52)]); // and keep it in memory too
    }
    v.extend([Item::PushLabel { label: 0, width: 2, high: 0, delta: 0 }, Item::Op(0x56)]);
    assemble(&v)
}

/// One program per opcode that takes operands: every operand is a small compound expression, the
/// opcode is executed and its result (if any) is kept.  Exercises the size bookkeeping of every
/// value constructor, not only the arithmetic ones.
fn per_opcode_programs() -> Vec<Vec<u8>> {
    use storage_layout_extractor::disassembly::InstructionStream as IS;
    let mut out = Vec::new();
    for byte in 0u8..=255 {
        if (0x5f..=0x7f).contains(&byte) || matches!(byte, 0x56 | 0x57 | 0x5b | 0x00 | 0xfe) {
            continue;
        }
        let Ok(stream) = IS::try_from([byte].as_slice()) else { continue };
        let Ok(thread) = stream.new_thread(0) else { continue };
        let Some(op) = thread.instruction(0) else { continue };
        let k = op.arg_count();
        if k == 0 || op.as_text_code() == "INVALID" {
            continue;
        }
        for variant in 0..2 {
            let mut v = Vec::new();
            for i in 0..k.max(if (0x80..=0x9f).contains(&byte) { k + 1 } else { k }) {
                // (calldatasize + i) * caller  or  not(calldataload(i)) | 1
                if (i + variant) % 2 == 0 {
                    v.extend([Item::Op(0x36), p1(i as u8), Item::Op(0x01), Item::Op(0x33), Item::Op(0x02)]);
                } else {
                    v.extend([p1(i as u8), Item::Op(0x35), Item::Op(0x19), p1(1), Item::Op(0x17)]);
                }
            }
            v.push(Item::Op(byte));
            // keep whatever is on top now: store it, then stop
            v.extend([p1(7), Item::Op(0x55), Item::Op(0x00)]);
            out.push(assemble(&v));
        }
    }
    out
}

/// `v` of about `limit` nodes (CALLER + CALLER + ...), stored to a slot, loaded from it again and used.
fn near_limit_program(rng: &mut StdRng, limit: usize) -> Vec<u8> {
    let mut c: Vec<u8> = Vec::new();
    for round in 0..rng.gen_range(1..4u8) {
        // 2k + 1 nodes with k additions
        let want = (limit as i64 + rng.gen_range(-3..=2)).max(1) as usize;
        c.push(0x33);
        for _ in 0..(want.saturating_sub(1) / 2).min(600) {
            c.extend([0x33, 0x01]);
        }
        match rng.gen_range(0..5) {
            0 => {
                // v as the destination of a bulk copy of one or two words
                let op = *[0x37u8, 0x39, 0x3e].choose(rng).unwrap();
                c.extend([0x60, *[0x20u8, 0x40].choose(rng).unwrap(), 0x60, 0x00, 0x82, op]);
            }
            1 => {
                // v (and a copy of it) put into memory and returned, hashed or logged as one slice
                c.extend([0x80, 0x60, 0x00, 0x52, 0x80, 0x60, 0x20, 0x52, 0x60, 0x40, 0x60, 0x00]);
                match rng.gen_range(0..3) {
                    0 => {
                        c.push(0xf3);
                        return c;
                    }
                    1 => c.extend([0x20, 0x50]),
                    _ => c.push(0xa0),
                }
            }
            _ => {}
        }
        let slot = round % 2;
        c.extend([0x60, slot, 0x55, 0x60, slot, 0x54]); // sstore(slot, v); sload(slot)
        match rng.gen_range(0..4) {
            0 => c.extend([0x60, 0x01, 0x01, 0x60, 0x09, 0x55]), // + 1, stored elsewhere
            1 => c.extend([0x80, 0x01, 0x60, 0x09, 0x55]),       // doubled
            2 => c.extend([0x60, 0x80, 0x52]),                   // kept in memory
            _ => c.push(0x50),
        }
    }
    c.push(0x00);
    c
}

pub fn sizes_trace(o: &Opts) -> R<()> {
    let seed: u64 = o.num("seed", 1);
    let n: usize = o.num("programs", 100);
    let mut rng = StdRng::seed_from_u64(seed ^ 0xc18);
    let mut w = Ndjson::create(&o.str("out")?)?;
    w.put(&json!({"ev": "begin"}));
    let mut total_values = 0usize;
    let mut culled = 0usize;
    let mut total_lifted = 0usize;
    let per_op = per_opcode_programs();
    for i in 0..(n + per_op.len()) {
        let code = if i >= n {
            per_op[i - n].clone()
        } else {
            match i % 4 {
                0 | 1 => growth_program(&mut rng),
                2 => crate::idioms::random_contract(&mut rng).1,
                _ => progen::any(&mut rng).code,
            }
        };
        let limit = if i >= n {
            *[16usize, 250].choose(&mut rng).unwrap()
        } else {
            *[1usize, 2, 3, 5, 8, 16, 20, 50, 64, 100, 250, 251, 1000].choose(&mut rng).unwrap()
        };
        // every fifth program is built for its limit: a value just below, at and just beyond the limit is
        // stored, read back from the same slot, and built upon
        let code = if i < n && i % 5 == 4 { near_limit_program(&mut rng, limit) } else { code };
        let lim = Limits { l: *[2usize, 5, 12].choose(&mut rng).unwrap(), f: 3, g: 30_000_000, perm: true };
        let cfg = vm_config(&lim).with_value_size_limit(limit);
        let code2 = code.clone();
        let r = guarded(move || {
            let stream = InstructionStream::try_from(code2.as_slice()).map_err(|e| format!("{:?}", e.payload))?;
            let mut vm = VM::new(stream, cfg, ScriptedWatchdog::new(1_000_000, None, 5_000_000)).map_err(|e| format!("{:?}", e.payload))?;
            let _ = vm.execute();
            let exec_result = vm.consume();
            let vals = exec_result.clone().all_values();
            let mut pairs = std::collections::BTreeSet::new();
            let mut tops = std::collections::BTreeSet::new();
            let mut opaque_leaves = 0usize;
            let mut over: std::collections::BTreeMap<&'static str, usize> = std::collections::BTreeMap::new();
            for v in &vals {
                // `StorageWrite { key, value }` is a wrapper built when the storage is exported, not the
                // result of an instruction: the instruction results are its operands
                match v.data() {
                    SVD::StorageWrite { key, value } => {
                        tops.insert((key.size(), values::count_nodes(key), values::variant_name(key.data())));
                        tops.insert((value.size(), values::count_nodes(value), values::variant_name(value.data())));
                    }
                    _ => {
                        tops.insert((v.size(), values::count_nodes(v), values::variant_name(v.data())));
                        if values::count_nodes(v) > limit {
                            *over.entry(values::variant_name(v.data())).or_insert(0usize) += 1;
                        }
                    }
                }
                values::walk(v, &mut |nd| {
                    pairs.insert((nd.size(), values::count_nodes(nd)));
                    if matches!(nd.data(), SVD::Value { .. }) {
                        opaque_leaves += 1;
                    }
                });
                // ... and after the transformations applied later: folding
                let f = v.constant_fold();
                values::walk(&f, &mut |nd| {
                    pairs.insert((nd.size(), values::count_nodes(nd)));
                });
            }
            // ... and lifting: every value as the type checker's lifting passes leave it
            let mut lifted_n = 0usize;
            let mut checker = storage_layout_extractor::tc::TypeChecker::new(storage_layout_extractor::tc::Config::default(), ScriptedWatchdog::new(1_000_000, None, 5_000_000));
            if let Ok(lifted) = checker.lift(exec_result) {
                for v in &lifted {
                    lifted_n += 1;
                    values::walk(v, &mut |nd| {
                        pairs.insert((nd.size(), values::count_nodes(nd)));
                    });
                    let f = v.constant_fold();
                    values::walk(&f, &mut |nd| {
                        pairs.insert((nd.size(), values::count_nodes(nd)));
                    });
                }
            }
            Ok::<_, String>((vals.len(), pairs, tops, opaque_leaves, over, lifted_n))
        });
        match r {
            Ok(Ok((nv, pairs, tops, leaves, over, lifted_n))) => {
                total_values += nv;
                total_lifted += lifted_n;
                culled += leaves;
                w.put(&json!({"ev": "sizes", "hex": hex::encode(&code), "limit": limit, "values": nv, "lifted": lifted_n,
                              "pairs": pairs.iter().map(|(a, b)| json!([a, b])).collect::<Vec<_>>(),
                              "tops": tops.iter().map(|(a, b, c)| json!({"size": a, "count": b, "ctor": c})).collect::<Vec<_>>(),
                              "over_limit_by_constructor": over, "culled_regrow": false}));
            }
            Ok(Err(e)) => w.put(&json!({"ev": "setup-error", "msg": e})),
            Err(p) => w.put(&json!({"ev": "sizes-panic", "hex": hex::encode(&code), "limit": limit, "msg": p})),
        }
    }
    let recs = w.finish();
    println!("{}", json!({"programs": n + per_op.len(), "per_opcode_programs": per_op.len(), "records": recs, "values": total_values, "lifted_values": total_lifted, "opaque_leaves_seen": culled}));
    Ok(())
}
