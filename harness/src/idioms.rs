//! Ground-truth contracts: storage variables accessed through the standard
//! compiler idioms, compiled by a tiny assembler from a *description* (the
//! description is what `spec/Idioms.tla` reasons about).

use rand::{rngs::StdRng, seq::SliceRandom, Rng};
use serde_json::{json, Value as J};
use sha3::{Digest, Keccak256};

use crate::progen::{assemble, Item};

const ADD: u8 = 0x01;
const AND: u8 = 0x16;
const OR: u8 = 0x17;
const SHL: u8 = 0x1b;
const SHR: u8 = 0x1c;
const SHA3: u8 = 0x20;
const CALLDATALOAD: u8 = 0x35;
const MSTORE: u8 = 0x52;
const SLOAD: u8 = 0x54;
const SSTORE: u8 = 0x55;
const JUMPI: u8 = 0x57;
const EQ: u8 = 0x14;
const SWAP1: u8 = 0x90;
const STOP: u8 = 0x00;

#[derive(Clone, Debug, PartialEq, Eq)]
pub enum Kind {
    Word,
    Addr,
    Map,
    Dyn,
    Packed,
}

#[derive(Clone, Debug)]
pub struct VarDesc {
    pub kind:     Kind,
    /// 32-byte big-endian slot
    pub slot:     [u8; 32],
    /// PUSH width used for the slot constant (0 = minimal)
    pub width:    usize,
    /// mapping: key kinds, outermost first ("addr" masks the key to 160 bits)
    pub keys:     Vec<bool>,
    /// mapping / array: the stored value is masked to an address
    pub val_addr: bool,
    /// packed: (bit offset, bit width) of each field
    pub fields:   Vec<(usize, usize)>,
    /// "r", "w" or "rw"
    pub access:   String,
    /// how a read value is consumed (0: kept in memory, 1: left on the stack) and how shift
    /// amounts are written (bit 1 set: computed as byteOffset * 8 instead of a literal)
    pub style:    usize,
    /// where written values come from: 0 calldata, 1 TIMESTAMP, 2 NUMBER, 3 CALLER, 4 CALLVALUE, 5 CALLDATASIZE
    pub src:      usize,
    /// packed writes move the value into place by multiplying with 2^offset instead of shifting left
    pub wmul:     bool,
    /// packed, read and written: the topmost field is only ever written
    pub top_w:    bool,
    /// packed writes: 0 one field at a time (read-modify-write); 1 all fields in one store, the `or`s nested to the
    /// left; 2 the same, nested to the right
    pub wall:     usize,
    /// packed writes: the source value is brought down by a right shift of this many bits before it is masked
    pub pre:      usize,
}

impl VarDesc {
    pub fn to_json(&self) -> J {
        json!({
            "kind": match self.kind { Kind::Word => "word", Kind::Addr => "addr", Kind::Map => "map", Kind::Dyn => "dyn", Kind::Packed => "packed" },
            "slot": format!("0x{}", hex::encode(self.slot)),
            "width": self.width,
            "keys": self.keys.iter().map(|a| if *a { "addr" } else { "word" }).collect::<Vec<_>>(),
            "val_addr": self.val_addr,
            "fields": self.fields.iter().map(|(o, w)| json!([o, w])).collect::<Vec<_>>(),
            "access": self.access,
            "style": self.style,
            "src": self.src,
            "wmul": self.wmul,
            "top_w": self.top_w,
            "wall": self.wall,
            "pre": self.pre,
        })
    }

    pub fn from_json(v: &J) -> Option<Self> {
        let mut slot = [0u8; 32];
        let h = hex::decode(v["slot"].as_str()?.trim_start_matches("0x")).ok()?;
        slot[32 - h.len()..].copy_from_slice(&h);
        Some(Self {
            kind: match v["kind"].as_str()? {
                "word" => Kind::Word,
                "addr" => Kind::Addr,
                "map" => Kind::Map,
                "dyn" => Kind::Dyn,
                "packed" => Kind::Packed,
                _ => return None,
            },
            slot,
            width: v["width"].as_u64().unwrap_or(0) as usize,
            keys: v["keys"].as_array().map(|a| a.iter().map(|k| k == "addr").collect()).unwrap_or_default(),
            val_addr: v["val_addr"].as_bool().unwrap_or(false),
            fields: v["fields"]
                .as_array()
                .map(|a| a.iter().map(|f| (f[0].as_u64().unwrap() as usize, f[1].as_u64().unwrap() as usize)).collect())
                .unwrap_or_default(),
            access: v["access"].as_str().unwrap_or("rw").to_string(),
            style: v["style"].as_u64().unwrap_or(0) as usize,
            src: v["src"].as_u64().unwrap_or(0) as usize,
            wmul: v["wmul"].as_bool().unwrap_or(false),
            // only meaningful for a variable that is both read and written
            top_w: v["top_w"].as_bool().unwrap_or(false) && v["access"].as_str().unwrap_or("rw") == "rw",
            wall: v["wall"].as_u64().unwrap_or(0) as usize,
            pre: v["pre"].as_u64().unwrap_or(0) as usize,
        })
    }
}

fn p1(v: u8) -> Item {
    Item::Push(vec![v])
}

fn push_word(bytes: &[u8; 32], width: usize) -> Item {
    let first = bytes.iter().position(|b| *b != 0).unwrap_or(31);
    let minimal = 32 - first;
    let w = if width == 0 { minimal } else { width.max(minimal) };
    Item::Push(bytes[32 - w..].to_vec())
}

fn mask_bits(width: usize) -> [u8; 32] {
    let mut m = [0u8; 32];
    for i in 0..width / 8 {
        m[31 - i] = 0xff;
    }
    m
}

fn shifted_inverse(width: usize, off: usize) -> [u8; 32] {
    // ~(mask << off), byte aligned
    let mut m = [0xffu8; 32];
    for i in 0..width / 8 {
        m[31 - off / 8 - i] = 0x00;
    }
    m
}

fn addr_mask() -> Vec<Item> {
    vec![Item::Push(vec![0xff; 20]), Item::Op(AND)]
}

fn calldata(at: u8) -> Vec<Item> {
    vec![p1(at), Item::Op(CALLDATALOAD)]
}

fn value_source(src: usize, at: u8) -> Vec<Item> {
    match src {
        1 => vec![Item::Op(0x42)],
        2 => vec![Item::Op(0x43)],
        3 => vec![Item::Op(0x33)],
        4 => vec![Item::Op(0x34)],
        5 => vec![Item::Op(0x36)],
        _ => calldata(at),
    }
}

fn keep(style: usize) -> Vec<Item> {
    if style & 1 == 0 {
        vec![p1(0x60), Item::Op(MSTORE)]
    } else {
        vec![] // the branch ends with the value still on the stack
    }
}

fn shift_by(off: usize, style: usize, op: u8) -> Vec<Item> {
    if style & 2 == 0 || off % 8 != 0 {
        vec![p1(off as u8), Item::Op(op)]
    } else {
        // byteOffset * 8, computed
        vec![p1((off / 8) as u8), p1(8), Item::Op(0x02), Item::Op(op)]
    }
}

/// Code that leaves the storage key of `v` on the stack.
fn key_code(v: &VarDesc) -> Vec<Item> {
    let mut c = vec![push_word(&v.slot, v.width)];
    match v.kind {
        Kind::Map => {
            for (i, is_addr) in v.keys.iter().enumerate() {
                c.extend(calldata(4 + 32 * i as u8));
                if *is_addr {
                    c.extend(addr_mask());
                }
                c.extend([p1(0), Item::Op(MSTORE), p1(0x20), Item::Op(MSTORE), p1(0x40), p1(0), Item::Op(SHA3)]);
            }
        }
        Kind::Dyn => {
            let small = v.slot[..30].iter().all(|b| *b == 0) && (usize::from(v.slot[30]) << 8 | usize::from(v.slot[31])) < 10_000;
            if small && v.style >= 2 {
                // the base as the optimiser leaves it: keccak(slot) folded to a literal (the tool knows the hashes of
                // the first 10 000 slot numbers)
                let mut w = [0u8; 32];
                w.copy_from_slice(&v.slot);
                c = vec![Item::Push(Keccak256::digest(w).to_vec())];
            } else {
                c.extend([p1(0), Item::Op(MSTORE), p1(0x20), p1(0), Item::Op(SHA3)]);
            }
            c.extend(calldata(4));
            c.push(Item::Op(ADD));
        }
        _ => {}
    }
    c
}

/// Slot numbers below 10 000 whose keccak hash begins with a zero byte (a hash is a word like any other: it
/// need not fill all 32 bytes).
pub fn short_hash_slots() -> Vec<u64> {
    (0..10_000u64)
        .filter(|n| {
            let mut w = [0u8; 32];
            w[24..].copy_from_slice(&n.to_be_bytes());
            Keccak256::digest(w)[0] == 0
        })
        .collect()
}

fn read_code(v: &VarDesc) -> Vec<Vec<Item>> {
    let mut out = Vec::new();
    match v.kind {
        Kind::Packed => {
            for (i, (off, w)) in v.fields.iter().enumerate() {
                if v.top_w && v.fields.len() > 1 && i + 1 == v.fields.len() {
                    continue;
                }
                let mut c = vec![push_word(&v.slot, v.width), Item::Op(SLOAD)];
                if *off > 0 {
                    c.extend(shift_by(*off, v.style, SHR));
                }
                c.extend([push_word(&mask_bits(*w), 0), Item::Op(AND)]);
                c.extend(keep(v.style));
                out.push(c);
            }
        }
        _ => {
            let mut c = Vec::new();
            if v.kind == Kind::Dyn {
                // the length lives at the slot itself
                c.extend([push_word(&v.slot, v.width), Item::Op(SLOAD)]);
                c.extend(keep(0));
            }
            c.extend(key_code(v));
            c.push(Item::Op(SLOAD));
            if v.kind == Kind::Addr || v.val_addr {
                c.extend(addr_mask());
            }
            c.extend(keep(v.style));
            out.push(c);
        }
    }
    out
}

fn write_code(v: &VarDesc) -> Vec<Vec<Item>> {
    let mut out = Vec::new();
    match v.kind {
        Kind::Packed if v.wall > 0 => {
            // every field in one store: f1 | f2 | ... with the `or`s nested to the left or to the right
            let field = |i: usize, off: usize, w: usize| -> Vec<Item> {
                let mut c = value_source(v.src, 4 + 32 * i as u8);
                if v.pre > 0 {
                    c.extend([p1(v.pre as u8), Item::Op(SHR)]);
                }
                c.extend([push_word(&mask_bits(w), 0), Item::Op(AND)]);
                if off > 0 && v.wmul {
                    let mut pow = [0u8; 32];
                    pow[31 - off / 8] = 1 << (off % 8);
                    c.extend([push_word(&pow, 0), Item::Op(0x02)]);
                } else if off > 0 {
                    c.extend(shift_by(off, v.style, SHL));
                }
                c
            };
            let mut c = Vec::new();
            for (i, (off, w)) in v.fields.iter().enumerate() {
                c.extend(field(i, *off, *w));
                if v.wall == 1 && i > 0 {
                    c.push(Item::Op(OR));
                }
            }
            if v.wall != 1 {
                for _ in 1..v.fields.len() {
                    c.push(Item::Op(OR));
                }
            }
            c.extend([push_word(&v.slot, v.width), Item::Op(SSTORE)]);
            out.push(c);
        }
        Kind::Packed => {
            for (off, w) in &v.fields {
                let mut c = vec![push_word(&v.slot, v.width), Item::Op(SLOAD)];
                c.extend([push_word(&shifted_inverse(*w, *off), 32), Item::Op(AND)]);
                c.extend(value_source(v.src, 4));
                if v.pre > 0 {
                    c.extend([p1(v.pre as u8), Item::Op(SHR)]);
                }
                c.extend([push_word(&mask_bits(*w), 0), Item::Op(AND)]);
                if *off > 0 && v.wmul {
                    let mut pow = [0u8; 32];
                    pow[31 - off / 8] = 1 << (off % 8);
                    c.push(push_word(&pow, 0));
                    if v.style & 1 == 1 {
                        c.push(Item::Op(0x90));
                    }
                    c.push(Item::Op(0x02));
                } else if *off > 0 {
                    c.extend(shift_by(*off, v.style, SHL));
                }
                c.push(Item::Op(OR));
                c.extend([push_word(&v.slot, v.width), Item::Op(SSTORE)]);
                out.push(c);
            }
        }
        _ => {
            let mut c = value_source(v.src, 0x64);
            if v.kind == Kind::Addr || v.val_addr {
                c.extend(addr_mask());
            }
            c.extend(key_code(v));
            c.push(Item::Op(SSTORE));
            out.push(c);
        }
    }
    out
}

/// dispatcher(branches): one JUMPI per branch on calldata word 0, each branch ends in STOP.
pub fn compile(vars: &[VarDesc]) -> Vec<u8> {
    compile_shaped(vars, 0)
}

/// The same accesses under another control-flow shape: 0 the dispatcher above; 1 straight-line code (every
/// access on one path); 2 a chain of guards `if (c_i) { access_i }` (accesses of several variables share
/// paths; used for at most 5 accesses, as the number of paths doubles with each).
/// The number of accesses (dispatch branches) a description compiles to.
pub fn branch_count(vars: &[VarDesc]) -> usize {
    vars.iter().map(|v| (if v.access.contains('r') { read_code(v).len() } else { 0 }) + (if v.access.contains('w') { write_code(v).len() } else { 0 })).sum()
}

pub fn compile_shaped(vars: &[VarDesc], shape: usize) -> Vec<u8> {
    let mut branches: Vec<Vec<Item>> = Vec::new();
    for v in vars {
        if v.access.contains('r') {
            branches.extend(read_code(v));
        }
        if v.access.contains('w') {
            branches.extend(write_code(v));
        }
    }
    let mut items = Vec::new();
    if shape == 1 {
        for b in branches {
            items.extend(b);
        }
        items.push(Item::Op(STOP));
        return assemble(&items);
    }
    if shape == 2 && branches.len() <= 5 {
        for (i, b) in branches.into_iter().enumerate() {
            items.extend([p1(0xe0), Item::Op(CALLDATALOAD), Item::Push(vec![(i >> 8) as u8, i as u8]), Item::Op(EQ)]);
            items.push(Item::PushLabel { label: i, width: 2, high: 0, delta: 0 });
            items.push(Item::Op(JUMPI));
            items.extend(b);
            items.push(Item::Label(i));
        }
        items.push(Item::Op(STOP));
        return assemble(&items);
    }
    for (i, _) in branches.iter().enumerate() {
        items.extend([p1(0), Item::Op(CALLDATALOAD), Item::Push(vec![(i >> 8) as u8, i as u8]), Item::Op(EQ)]);
        items.push(Item::PushLabel {
            label: i,
            width: 2,
            high:  0,
            delta: 0,
        });
        items.push(Item::Op(JUMPI));
    }
    items.push(Item::Op(STOP));
    for (i, b) in branches.into_iter().enumerate() {
        items.push(Item::Label(i));
        items.extend(b);
        items.push(Item::Op(STOP));
    }
    let _ = SWAP1;
    assemble(&items)
}

pub fn slot_from_u64(v: u64) -> [u8; 32] {
    let mut s = [0u8; 32];
    s[24..].copy_from_slice(&v.to_be_bytes());
    s
}

fn random_slot(rng: &mut StdRng, used: &mut Vec<[u8; 32]>) -> [u8; 32] {
    loop {
        let mut s = match rng.gen_range(0..11) {
            0..=5 => slot_from_u64(rng.gen_range(0..40)),
            10 => {
                let special = short_hash_slots();
                slot_from_u64(special[rng.gen_range(0..special.len().min(12))])
            }
            6 => slot_from_u64(rng.gen_range(1000..100_000)),
            7 => {
                let mut s = [0u8; 32];
                s[15] = 1; // 2^128
                s[31] = rng.gen();
                s
            }
            8 if rng.gen_bool(0.5) => {
                // a slot named by a short printable string, left-aligned in the word
                let mut s = [0u8; 32];
                let name = *[&b"balances"[..], b"owner", b"total.supply", b"eternal.storage.balance.of.user."].choose(rng).unwrap();
                s[..name.len()].copy_from_slice(name);
                if name.len() < 32 && rng.gen_bool(0.5) {
                    s[name.len()] = b'0' + rng.gen_range(0..10u8);
                }
                s
            }
            8 => {
                let mut s = [0xffu8; 32];
                s[31] = rng.gen();
                s
            }
            _ => {
                let mut s = [0u8; 32];
                rng.fill(&mut s[..]);
                s
            }
        };
        // keccak(small slot) constants are array data, not slots of their own: avoid by construction
        if s == [0u8; 32] && rng.gen_bool(0.5) {
            s = slot_from_u64(0);
        }
        if !used.contains(&s) {
            used.push(s);
            return s;
        }
    }
}

fn random_fields(rng: &mut StdRng) -> Vec<(usize, usize)> {
    // split the word at byte boundaries into 2..6 fields (possibly leaving the top unused)
    let n = rng.gen_range(2..=6);
    let mut cuts: Vec<usize> = (1..32).collect();
    cuts.shuffle(rng);
    let mut cuts: Vec<usize> = cuts.into_iter().take(n).collect();
    cuts.sort_unstable();
    let mut fields = Vec::new();
    let mut start = 0usize;
    for c in cuts {
        fields.push((start * 8, (c - start) * 8));
        start = c;
    }
    fields
}

pub fn random_var(rng: &mut StdRng, used: &mut Vec<[u8; 32]>) -> VarDesc {
    let mut v = random_var_raw(rng, used);
    v.top_w = v.top_w && v.access == "rw";
    // several fields cut out of ONE environment value would be overlapping views of that value, which is not what
    // a compiler emits for the fields of a struct: the fields of one store, and pre-shifted sources, come from call data
    if v.wall > 0 || v.pre > 0 {
        v.src = 0;
    }
    v
}

fn random_var_raw(rng: &mut StdRng, used: &mut Vec<[u8; 32]>) -> VarDesc {
    let kind = match rng.gen_range(0..10) {
        0..=1 => Kind::Word,
        2..=3 => Kind::Addr,
        4..=6 => Kind::Map,
        7 => Kind::Dyn,
        _ => Kind::Packed,
    };
    let depth = if kind == Kind::Map { rng.gen_range(1..=4) } else { 0 };
    VarDesc {
        slot: random_slot(rng, used),
        width: *[0usize, 0, 0, 2, 32].choose(rng).unwrap(),
        keys: (0..depth).map(|_| rng.gen_bool(0.5)).collect(),
        val_addr: matches!(kind, Kind::Map | Kind::Dyn) && rng.gen_bool(0.4),
        fields: if kind == Kind::Packed { random_fields(rng) } else { vec![] },
        access: (*["r", "w", "rw", "rw"].choose(rng).unwrap()).to_string(),
        style: rng.gen_range(0..4),
        src: *[0usize, 0, 0, 1, 2, 3, 4, 5].choose(rng).unwrap(),
        wmul: kind == Kind::Packed && rng.gen_bool(0.4),
        top_w: kind == Kind::Packed && rng.gen_bool(0.25),
        wall: if kind == Kind::Packed { *[0usize, 0, 1, 2].choose(rng).unwrap() } else { 0 },
        pre: if kind == Kind::Packed { *[0usize, 0, 0, 8, 64].choose(rng).unwrap() } else { 0 },
        kind,
    }
}

/// A random ground-truth contract: (description, bytecode).
pub fn random_contract(rng: &mut StdRng) -> (J, Vec<u8>) {
    let n = if rng.gen_bool(0.8) { rng.gen_range(1..=4) } else { rng.gen_range(5..=12) };
    let mut used = Vec::new();
    let vars: Vec<VarDesc> = (0..n).map(|_| random_var(rng, &mut used)).collect();
    let code = compile(&vars);
    (json!({"vars": vars.iter().map(VarDesc::to_json).collect::<Vec<_>>()}), code)
}
