//! The components of the VM state observed directly through their public API
//! (`Stack.tla`): random call histories on the real operand stack, starting
//! empty and starting just below its capacity, recorded for `StackTrace.tla`.

use rand::{rngs::StdRng, Rng, SeedableRng};
use serde_json::{json, Value as J};
use storage_layout_extractor::vm::{
    state::stack::Stack,
    value::{known::KnownWord, Provenance, RuntimeBoxedVal, RSV, SVD},
};

use crate::util::{guarded, Ndjson, Opts, R};

fn item(id: i64) -> RuntimeBoxedVal {
    // values carry their identity as a constant; fillers are negative in the trace and 2^32 + n here
    let n: u64 = if id < 0 { (1u64 << 32) + (-id) as u64 } else { id as u64 };
    RSV::new_known_value(0, KnownWord::from(n as usize), Provenance::Synthetic, None)
}

fn id_of(v: &RuntimeBoxedVal) -> i64 {
    match v.data() {
        SVD::KnownData { value } => {
            let n: usize = value.into();
            if n as u64 >= (1u64 << 32) { -((n as u64 - (1u64 << 32)) as i64) } else { n as i64 }
        }
        _ => i64::MIN,
    }
}

fn class(e: &str) -> &'static str {
    if e.contains("StackDepthExceeded") { "overflow" } else if e.contains("NoSuchStackFrame") { "underflow" } else { "other-error" }
}

pub fn stack_trace(o: &Opts) -> R<()> {
    let seed: u64 = o.num("seed", 1);
    let runs: usize = o.num("runs", 40);
    let len: usize = o.num("len", 300);
    let mut rng = StdRng::seed_from_u64(seed ^ 0x57ac);
    let mut w = Ndjson::create(&o.str("out")?)?;
    w.put(&json!({"op": "begin"}));
    let mut calls = 0usize;
    let mut failing = 0usize;
    for run in 0..runs {
        // start empty, or a few items below the capacity of 1024
        let fill: usize = if run % 2 == 0 { 0 } else { 1024 - rng.gen_range(0..6) };
        let mut st = Stack::new();
        for i in 1..=fill {
            st.push(item(-(i as i64))).map_err(|e| format!("prefill: {e:?}"))?;
        }
        w.put(&json!({"op": "reset", "run": run, "fill": fill}));
        let mut next_id = 1i64;
        // phases that drift up or down, so that both edges are hit repeatedly
        let mut up = rng.gen_bool(0.5);
        for step in 0..len {
            if step % 25 == 0 {
                up = rng.gen_bool(0.5);
            }
            let frame: u32 = match rng.gen_range(0..10) {
                0..=5 => rng.gen_range(0..4),
                6..=7 => rng.gen_range(0..17),
                8 => st.depth() as u32 + rng.gen_range(0..2) - u32::from(st.depth() > 0),
                _ => rng.gen_range(1000..1030),
            };
            let r = rng.gen_range(0..100);
            let (op, a): (&str, i64) = if r < if up { 45 } else { 15 } {
                next_id += 1;
                ("push", next_id)
            } else if r < if up { 55 } else { 60 } {
                ("pop", 0)
            } else if r < 70 {
                ("read", i64::from(frame))
            } else if r < if up { 90 } else { 80 } {
                ("dup", i64::from(frame))
            } else {
                ("swap", i64::from(frame))
            };
            let mut ev = json!({"op": op, "a": a, "run": run, "step": step});
            let res = guarded(|| match op {
                "push" => st.push(item(a)).map(|()| None).map_err(|e| format!("{e:?}")),
                "pop" => st.pop().map(|v| Some(id_of(&v))).map_err(|e| format!("{e:?}")),
                "read" => st.read(frame).map(|v| Some(id_of(v))).map_err(|e| format!("{e:?}")),
                "dup" => st.duplicate(frame).map(|()| None).map_err(|e| format!("{e:?}")),
                _ => st.swap(frame).map(|()| None).map_err(|e| format!("{e:?}")),
            });
            calls += 1;
            match res {
                Ok(Ok(v)) => {
                    ev["res"] = json!(if v.is_some() { "val" } else { "ok" });
                    ev["val"] = json!(v.unwrap_or(0));
                }
                Ok(Err(e)) => {
                    failing += 1;
                    ev["res"] = json!(class(&e));
                    ev["val"] = json!(0);
                }
                Err(p) => {
                    failing += 1;
                    ev["res"] = json!("panic");
                    ev["val"] = json!(0);
                    ev["msg"] = json!(p);
                }
            }
            ev["depth"] = json!(st.depth());
            let top: Vec<J> = (0..4u32.min(st.depth() as u32)).filter_map(|d| st.read(d).ok().map(|v| json!(id_of(v)))).collect();
            ev["top"] = J::Array(top);
            w.put(&ev);
        }
    }
    w.finish();
    println!("{}", json!({"runs": runs, "calls": calls, "failing_calls": failing}));
    Ok(())
}

// ------------------------------------------------------------------------------------------------
// Storage (Storage.tla)

use storage_layout_extractor::vm::state::storage::Storage;

/// <<tag, key-or-id, inner>> as Storage.tla writes values.
fn sdesc(v: &RuntimeBoxedVal, symbolic: &[RuntimeBoxedVal]) -> J {
    match v.data() {
        SVD::KnownData { value } => {
            let n: usize = value.into();
            json!(["p", n.to_string(), []])
        }
        SVD::UnwrittenStorageValue { key } => json!(["u", skey(key, symbolic), []]),
        SVD::SLoad { key, value } => json!(["l", skey(key, symbolic), sdesc(value, symbolic)]),
        _ => json!(["p", format!("s{}", symbolic.iter().position(|s| s == v).map_or(-1, |i| i as i64)), []]),
    }
}

/// Keys by structure: a constant by its value, a symbolic key by its index among the ones created.
fn skey(k: &RuntimeBoxedVal, symbolic: &[RuntimeBoxedVal]) -> String {
    match k.data() {
        SVD::KnownData { value } => {
            let n: usize = value.into();
            format!("c{n}")
        }
        _ => format!("s{}", symbolic.iter().position(|s| s == k).map_or(-1, |i| i as i64)),
    }
}

pub fn storage_trace(o: &Opts) -> R<()> {
    let seed: u64 = o.num("seed", 1);
    let runs: usize = o.num("runs", 40);
    let len: usize = o.num("len", 120);
    let mut rng = StdRng::seed_from_u64(seed ^ 0x570a);
    let mut w = Ndjson::create(&o.str("out")?)?;
    w.put(&json!({"op": "begin"}));
    let mut calls = 0usize;
    for run in 0..runs {
        w.put(&json!({"op": "reset", "run": run}));
        let mut st = Storage::new();
        let symbolic: Vec<RuntimeBoxedVal> = (0..3).map(|i| RSV::new_value(100 + i, Provenance::Synthetic)).collect();
        let mut next_val = 1000usize;
        let mut last_loaded: Option<RuntimeBoxedVal> = None;
        for step in 0..len {
            // a key: one of a few constants (built afresh every time, at varying places in the "code") or symbolic
            let key: RuntimeBoxedVal = if rng.gen_bool(0.7) {
                RSV::new_known_value(rng.gen_range(0..50), KnownWord::from(rng.gen_range(0..4usize)), Provenance::Synthetic, None)
            } else {
                symbolic[rng.gen_range(0..symbolic.len())].clone()
            };
            let kname = skey(&key, &symbolic);
            let mut ev = json!({"k": kname, "run": run, "step": step, "v": ["none"], "res": ["none"]});
            match rng.gen_range(0..10) {
                0..=3 => {
                    // a fresh plain value, the same value again, or what the last load returned
                    let v = match (rng.gen_range(0..4), &last_loaded) {
                        (0, Some(l)) => l.clone(),
                        (1, _) => RSV::new_known_value(rng.gen_range(0..50), KnownWord::from(next_val), Provenance::Synthetic, None),
                        _ => {
                            next_val += 1;
                            RSV::new_known_value(rng.gen_range(0..50), KnownWord::from(next_val), Provenance::Synthetic, None)
                        }
                    };
                    ev["op"] = json!("store");
                    ev["v"] = sdesc(&v, &symbolic);
                    st.store(key.clone(), v);
                }
                4..=7 => {
                    ev["op"] = json!("load");
                    let got = st.load(&key);
                    ev["res"] = sdesc(&got, &symbolic);
                    last_loaded = Some(got);
                }
                8 => {
                    ev["op"] = json!("generations");
                    ev["res"] = st.generations(&key).map_or(json!(["none"]), |g| J::Array(g.iter().map(|v| sdesc(v, &symbolic)).collect()));
                }
                _ => {
                    ev["op"] = json!("keys");
                }
            }
            calls += 1;
            // what the storage now holds: its keys, and the history of the key of this call
            let mut keys: Vec<String> = st.keys().iter().map(|k| skey(k, &symbolic)).collect();
            keys.sort();
            ev["keys"] = json!(keys);
            ev["entries"] = json!(st.entry_count());
            ev["hist"] = st.generations(&key).map_or(json!([]), |g| J::Array(g.iter().map(|v| sdesc(v, &symbolic)).collect()));
            w.put(&ev);
        }
    }
    w.finish();
    println!("{}", json!({"runs": runs, "calls": calls}));
    Ok(())
}

// ------------------------------------------------------------------------------------------------
// Memory (Memory.tla)

use ethnum::U256;
use storage_layout_extractor::vm::state::memory::Memory;

/// <<"c", hi, lo>> for the constant hi * 2^24 + lo (hi: big-endian bytes, no leading zeros); <<"s", <<i>>, 0>> for the i-th symbolic offset.
fn mkey(k: &RuntimeBoxedVal, symbolic: &[RuntimeBoxedVal]) -> J {
    match k.constant_fold().data() {
        SVD::KnownData { value } => {
            let v = value.value_le();
            let lo = (v & U256::from(0xff_ffffu32)).as_u32();
            let hv: U256 = v >> 24u32;
            let hi: Vec<u8> = hv.to_be_bytes().iter().copied().skip_while(|b| *b == 0).collect();
            json!(["c", hi, lo])
        }
        _ => json!(["s", [symbolic.iter().position(|s| s == k).map_or(255, |i| i as u8)], 0]),
    }
}

/// Values: ["z"] the zero word of untouched memory, ["p", id] a plain value, ["cat", [..]] a slice.
fn mdesc(v: &RuntimeBoxedVal) -> J {
    match v.data() {
        SVD::KnownData { value } => {
            let n: usize = value.into();
            if n == 0 { json!(["z"]) } else { json!(["p", n.to_string()]) }
        }
        SVD::Concat { values } => json!(["cat", values.iter().map(mdesc).collect::<Vec<_>>()]),
        _ => json!(["other", format!("{v:?}").chars().take(60).collect::<String>()]),
    }
}

pub fn memory_trace(o: &Opts) -> R<()> {
    let seed: u64 = o.num("seed", 1);
    let runs: usize = o.num("runs", 40);
    let len: usize = o.num("len", 120);
    let mut rng = StdRng::seed_from_u64(seed ^ 0x3e30);
    let mut w = Ndjson::create(&o.str("out")?)?;
    w.put(&json!({"op": "begin"}));
    let mut calls = 0usize;
    let known = |rng: &mut StdRng, v: U256| RSV::new_known_value(rng.gen_range(0..50), KnownWord::from_le(v), Provenance::Synthetic, None);
    for run in 0..runs {
        w.put(&json!({"op": "reset", "run": run}));
        let mut m = Memory::new(96);
        let symbolic: Vec<RuntimeBoxedVal> = (0..3).map(|i| RSV::new_value(100 + i, Provenance::Synthetic)).collect();
        let mut next_val = 1000usize;
        // each run works on a few "pages" whose offsets agree in their low bits
        let highs: Vec<U256> = {
            let all = [
                U256::ZERO,
                U256::ONE << 16,
                U256::ONE << 32,
                U256::ONE << 41,
                U256::ONE << 63,
                U256::ONE << 64,
                (U256::ONE << 64) + (U256::ONE << 32),
                U256::ONE << 65,
                U256::ONE << 128,
                U256::ONE << 255,
                U256::MAX - U256::from(0xffffu32),
            ];
            let mut h = vec![U256::ZERO];
            for _ in 0..rng.gen_range(1..4) {
                h.push(all[rng.gen_range(0..all.len())]);
            }
            h
        };
        for step in 0..len {
            let low = U256::from(32u32 * rng.gen_range(0..5u32));
            let cval = highs[rng.gen_range(0..highs.len())] + low;
            // an offset: a constant (pushed, or computed as a sum / difference that folds to it) or symbolic
            let key: RuntimeBoxedVal = match rng.gen_range(0..10) {
                0..=5 => known(&mut rng, cval),
                6 => {
                    let a = U256::from(rng.gen_range(0..17u32)).min(cval);
                    let (l, r) = (known(&mut rng, cval - a), known(&mut rng, a));
                    RSV::new_synthetic(7, storage_layout_extractor::vm::value::RSVD::Add { left: l, right: r })
                }
                7 => {
                    let a = U256::from(rng.gen_range(0..17u32));
                    let (l, r) = (known(&mut rng, cval.wrapping_add(a)), known(&mut rng, a));
                    RSV::new_synthetic(7, storage_layout_extractor::vm::value::RSVD::Subtract { left: l, right: r })
                }
                _ => symbolic[rng.gen_range(0..symbolic.len())].clone(),
            };
            let mut ev = json!({"k": mkey(&key, &symbolic), "run": run, "step": step, "v": ["none"], "res": ["none"], "n": -1});
            match rng.gen_range(0..10) {
                0..=3 => {
                    if rng.gen_bool(0.5) {
                        next_val += 1;
                    }
                    let v = known(&mut rng, U256::from(next_val as u64));
                    ev["v"] = mdesc(&v);
                    if rng.gen_bool(0.75) {
                        ev["op"] = json!("store");
                        m.store(key.clone(), v);
                    } else {
                        ev["op"] = json!("store8");
                        m.store_8(key.clone(), v);
                    }
                }
                4..=6 => {
                    ev["op"] = json!("load");
                    ev["res"] = mdesc(&m.load(&key));
                }
                7..=8 => {
                    ev["op"] = json!("slice");
                    let sizes = [0u32, 1, 31, 32, 33, 63, 64, 65, 95, 96, 97, 128, 1000, 65536];
                    let size: RuntimeBoxedVal = if rng.gen_bool(0.8) {
                        let n = sizes[rng.gen_range(0..sizes.len())];
                        ev["n"] = json!(n);
                        if rng.gen_bool(0.3) {
                            let (l, r) = (known(&mut rng, U256::from(n) + 5), known(&mut rng, U256::from(5u32)));
                            RSV::new_synthetic(9, storage_layout_extractor::vm::value::RSVD::Subtract { left: l, right: r })
                        } else {
                            known(&mut rng, U256::from(n))
                        }
                    } else {
                        symbolic[rng.gen_range(0..symbolic.len())].clone()
                    };
                    ev["res"] = mdesc(&m.load_slice(&key, &size, 11));
                }
                _ => {
                    ev["op"] = json!("entries");
                }
            }
            calls += 1;
            ev["entries"] = json!(m.entry_count());
            w.put(&ev);
        }
    }
    w.finish();
    println!("{}", json!({"runs": runs, "calls": calls}));
    Ok(())
}
