//! The components of the VM state observed directly through their public API
//! (`Stack.tla`): random call histories on the real operand stack, starting
//! empty and starting just below its capacity, recorded for `StackTrace.tla`.

use rand::{rngs::StdRng, Rng, SeedableRng};
use serde_json::{json, Value as J};
use storage_layout_extractor::vm::{
    state::stack::Stack,
    value::{known::KnownWord, Provenance, RuntimeBoxedVal, RSV, SVD},
};

use crate::util::{guarded, Ndjson, Opts, R};

fn item(id: i64) -> RuntimeBoxedVal {
    // values carry their identity as a constant; fillers are negative in the trace and 2^32 + n here
    let n: u64 = if id < 0 { (1u64 << 32) + (-id) as u64 } else { id as u64 };
    RSV::new_known_value(0, KnownWord::from(n as usize), Provenance::Synthetic, None)
}

fn id_of(v: &RuntimeBoxedVal) -> i64 {
    match v.data() {
        SVD::KnownData { value } => {
            let n: usize = value.into();
            if n as u64 >= (1u64 << 32) { -((n as u64 - (1u64 << 32)) as i64) } else { n as i64 }
        }
        _ => i64::MIN,
    }
}

fn class(e: &str) -> &'static str {
    if e.contains("StackDepthExceeded") { "overflow" } else if e.contains("NoSuchStackFrame") { "underflow" } else { "other-error" }
}

pub fn stack_trace(o: &Opts) -> R<()> {
    let seed: u64 = o.num("seed", 1);
    let runs: usize = o.num("runs", 40);
    let len: usize = o.num("len", 300);
    let mut rng = StdRng::seed_from_u64(seed ^ 0x57ac);
    let mut w = Ndjson::create(&o.str("out")?)?;
    w.put(&json!({"op": "begin"}));
    let mut calls = 0usize;
    let mut failing = 0usize;
    for run in 0..runs {
        // start empty, or a few items below the capacity of 1024
        let fill: usize = if run % 2 == 0 { 0 } else { 1024 - rng.gen_range(0..6) };
        let mut st = Stack::new();
        for i in 1..=fill {
            st.push(item(-(i as i64))).map_err(|e| format!("prefill: {e:?}"))?;
        }
        w.put(&json!({"op": "reset", "run": run, "fill": fill}));
        let mut next_id = 1i64;
        // phases that drift up or down, so that both edges are hit repeatedly
        let mut up = rng.gen_bool(0.5);
        for step in 0..len {
            if step % 25 == 0 {
                up = rng.gen_bool(0.5);
            }
            let frame: u32 = match rng.gen_range(0..10) {
                0..=5 => rng.gen_range(0..4),
                6..=7 => rng.gen_range(0..17),
                8 => st.depth() as u32 + rng.gen_range(0..2) - u32::from(st.depth() > 0),
                _ => rng.gen_range(1000..1030),
            };
            let r = rng.gen_range(0..100);
            let (op, a): (&str, i64) = if r < if up { 45 } else { 15 } {
                next_id += 1;
                ("push", next_id)
            } else if r < if up { 55 } else { 60 } {
                ("pop", 0)
            } else if r < 70 {
                ("read", i64::from(frame))
            } else if r < if up { 90 } else { 80 } {
                ("dup", i64::from(frame))
            } else {
                ("swap", i64::from(frame))
            };
            let mut ev = json!({"op": op, "a": a, "run": run, "step": step});
            let res = guarded(|| match op {
                "push" => st.push(item(a)).map(|()| None).map_err(|e| format!("{e:?}")),
                "pop" => st.pop().map(|v| Some(id_of(&v))).map_err(|e| format!("{e:?}")),
                "read" => st.read(frame).map(|v| Some(id_of(v))).map_err(|e| format!("{e:?}")),
                "dup" => st.duplicate(frame).map(|()| None).map_err(|e| format!("{e:?}")),
                _ => st.swap(frame).map(|()| None).map_err(|e| format!("{e:?}")),
            });
            calls += 1;
            match res {
                Ok(Ok(v)) => {
                    ev["res"] = json!(if v.is_some() { "val" } else { "ok" });
                    ev["val"] = json!(v.unwrap_or(0));
                }
                Ok(Err(e)) => {
                    failing += 1;
                    ev["res"] = json!(class(&e));
                    ev["val"] = json!(0);
                }
                Err(p) => {
                    failing += 1;
                    ev["res"] = json!("panic");
                    ev["val"] = json!(0);
                    ev["msg"] = json!(p);
                }
            }
            ev["depth"] = json!(st.depth());
            let top: Vec<J> = (0..4u32.min(st.depth() as u32)).filter_map(|d| st.read(d).ok().map(|v| json!(id_of(v)))).collect();
            ev["top"] = J::Array(top);
            w.put(&ev);
        }
    }
    w.finish();
    println!("{}", json!({"runs": runs, "calls": calls, "failing_calls": failing}));
    Ok(())
}

// ------------------------------------------------------------------------------------------------
// Storage (Storage.tla)

use storage_layout_extractor::vm::state::storage::Storage;

/// <<tag, key-or-id, inner>> as Storage.tla writes values.
fn sdesc(v: &RuntimeBoxedVal, symbolic: &[RuntimeBoxedVal]) -> J {
    match v.data() {
        SVD::KnownData { value } => {
            let n: usize = value.into();
            json!(["p", n.to_string(), []])
        }
        SVD::UnwrittenStorageValue { key } => json!(["u", skey(key, symbolic), []]),
        SVD::SLoad { key, value } => json!(["l", skey(key, symbolic), sdesc(value, symbolic)]),
        _ => json!(["p", format!("s{}", symbolic.iter().position(|s| s == v).map_or(-1, |i| i as i64)), []]),
    }
}

/// Keys by structure: a constant by its value, a symbolic key by its index among the ones created.
fn skey(k: &RuntimeBoxedVal, symbolic: &[RuntimeBoxedVal]) -> String {
    match k.data() {
        SVD::KnownData { value } => {
            let n: usize = value.into();
            format!("c{n}")
        }
        _ => format!("s{}", symbolic.iter().position(|s| s == k).map_or(-1, |i| i as i64)),
    }
}

pub fn storage_trace(o: &Opts) -> R<()> {
    let seed: u64 = o.num("seed", 1);
    let runs: usize = o.num("runs", 40);
    let len: usize = o.num("len", 120);
    let mut rng = StdRng::seed_from_u64(seed ^ 0x570a);
    let mut w = Ndjson::create(&o.str("out")?)?;
    w.put(&json!({"op": "begin"}));
    let mut calls = 0usize;
    for run in 0..runs {
        w.put(&json!({"op": "reset", "run": run}));
        let mut st = Storage::new();
        let symbolic: Vec<RuntimeBoxedVal> = (0..3).map(|i| RSV::new_value(100 + i, Provenance::Synthetic)).collect();
        let mut next_val = 1000usize;
        let mut last_loaded: Option<RuntimeBoxedVal> = None;
        for step in 0..len {
            // a key: one of a few constants (built afresh every time, at varying places in the "code") or symbolic
            let key: RuntimeBoxedVal = if rng.gen_bool(0.7) {
                RSV::new_known_value(rng.gen_range(0..50), KnownWord::from(rng.gen_range(0..4usize)), Provenance::Synthetic, None)
            } else {
                symbolic[rng.gen_range(0..symbolic.len())].clone()
            };
            let kname = skey(&key, &symbolic);
            let mut ev = json!({"k": kname, "run": run, "step": step, "v": ["none"], "res": ["none"]});
            match rng.gen_range(0..10) {
                0..=3 => {
                    // a fresh plain value, the same value again, or what the last load returned
                    let v = match (rng.gen_range(0..4), &last_loaded) {
                        (0, Some(l)) => l.clone(),
                        (1, _) => RSV::new_known_value(rng.gen_range(0..50), KnownWord::from(next_val), Provenance::Synthetic, None),
                        _ => {
                            next_val += 1;
                            RSV::new_known_value(rng.gen_range(0..50), KnownWord::from(next_val), Provenance::Synthetic, None)
                        }
                    };
                    ev["op"] = json!("store");
                    ev["v"] = sdesc(&v, &symbolic);
                    st.store(key.clone(), v);
                }
                4..=7 => {
                    ev["op"] = json!("load");
                    let got = st.load(&key);
                    ev["res"] = sdesc(&got, &symbolic);
                    last_loaded = Some(got);
                }
                8 => {
                    ev["op"] = json!("generations");
                    ev["res"] = st.generations(&key).map_or(json!(["none"]), |g| J::Array(g.iter().map(|v| sdesc(v, &symbolic)).collect()));
                }
                _ => {
                    ev["op"] = json!("keys");
                }
            }
            calls += 1;
            // what the storage now holds: its keys, and the history of the key of this call
            let mut keys: Vec<String> = st.keys().iter().map(|k| skey(k, &symbolic)).collect();
            keys.sort();
            ev["keys"] = json!(keys);
            ev["entries"] = json!(st.entry_count());
            ev["hist"] = st.generations(&key).map_or(json!([]), |g| J::Array(g.iter().map(|v| sdesc(v, &symbolic)).collect()));
            w.put(&ev);
        }
    }
    w.finish();
    println!("{}", json!({"runs": runs, "calls": calls}));
    Ok(())
}
