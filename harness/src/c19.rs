//! C19: `DisjointSet` and `VectorMap` against the TLA+ models
//! `spec/DisjointSet.tla` and `spec/VectorMap.tla`.
//!
//! * `ds-walk` / `vm-walk`: load the labelled state graph TLC printed for the
//!   bounded model and walk *every* operation sequence up to the given length
//!   through the real structure, comparing each call's result and the projected
//!   abstract state with the graph.
//! * `ds-trace` / `vm-trace`: long random histories on the real structure,
//!   recorded as NDJSON for the TLC trace acceptors.

use std::{
    collections::{BTreeMap, HashMap, HashSet},
    sync::{
        atomic::{AtomicU64, Ordering},
        Mutex,
    },
};

use rand::{rngs::StdRng, Rng, SeedableRng};
use serde_json::{json, Value as J};
use storage_layout_extractor::data::{
    combine::Combine,
    disjoint_set::DisjointSet,
    vector_map::VectorMap,
};

use crate::util::{guarded, write_json, Ndjson, Opts, R};

const NATOMS: usize = 4;
const ATOM_NAMES: [&str; NATOMS] = ["a", "b", "c", "d"];

type BagV = [u32; NATOMS];

/// The data monoids the forest is instantiated with.
pub trait Monoid: Combine + std::fmt::Debug + Default + Eq + Clone + Send + Sync {
    fn single(atom: usize) -> Self;
    /// What this datum looks like as a bag.
    fn view(&self) -> BagV;
    /// How an abstract bag looks through this monoid (a set forgets counts).
    fn abstraction(bag: &BagV) -> BagV;
}

/// A counting monoid: shows duplication that an idempotent union hides.
#[derive(Clone, Debug, Default, Eq, PartialEq)]
pub struct Bag(BagV);

impl Combine for Bag {
    fn combine(self, other: Self) -> Self {
        let mut r = self.0;
        for i in 0..NATOMS {
            r[i] = r[i].saturating_add(other.0[i]);
        }
        Bag(r)
    }

    fn identity() -> Self {
        Bag([0; NATOMS])
    }
}

impl Monoid for Bag {
    fn single(atom: usize) -> Self {
        let mut r = [0; NATOMS];
        r[atom] = 1;
        Bag(r)
    }

    fn view(&self) -> BagV {
        self.0
    }

    fn abstraction(bag: &BagV) -> BagV {
        *bag
    }
}

/// The production monoid (hash-set union).
impl Monoid for HashSet<u8> {
    fn single(atom: usize) -> Self {
        HashSet::from([u8::try_from(atom).unwrap()])
    }

    fn view(&self) -> BagV {
        let mut r = [0; NATOMS];
        for a in self {
            r[*a as usize] = 1;
        }
        r
    }

    fn abstraction(bag: &BagV) -> BagV {
        let mut r = [0; NATOMS];
        for i in 0..NATOMS {
            r[i] = u32::from(bag[i] > 0);
        }
        r
    }
}

#[derive(Clone, Debug, PartialEq, Eq, Hash, PartialOrd, Ord)]
enum DsOp {
    Insert(usize),
    Find(usize),
    GetData(usize),
    Union(usize, usize),
    AddData(usize, usize),
    SetData(usize, usize),
    Sets,
}

impl DsOp {
    fn to_json(&self) -> J {
        match self {
            DsOp::Insert(x) => json!({"op":"insert","x":x}),
            DsOp::Find(x) => json!({"op":"find","x":x}),
            DsOp::GetData(x) => json!({"op":"get_data","x":x}),
            DsOp::Union(x, y) => json!({"op":"union","x":x,"y":y}),
            DsOp::AddData(x, a) => json!({"op":"add_data","x":x,"b":bag_json(&single_bag(*a))}),
            DsOp::SetData(x, a) => json!({"op":"set_data","x":x,"b":bag_json(&single_bag(*a))}),
            DsOp::Sets => json!({"op":"sets"}),
        }
    }

    fn name(&self) -> &'static str {
        match self {
            DsOp::Insert(_) => "insert",
            DsOp::Find(_) => "find",
            DsOp::GetData(_) => "get_data",
            DsOp::Union(..) => "union",
            DsOp::AddData(..) => "add_data",
            DsOp::SetData(..) => "set_data",
            DsOp::Sets => "sets",
        }
    }

    fn elems(&self) -> Vec<usize> {
        match self {
            DsOp::Insert(x) | DsOp::Find(x) | DsOp::GetData(x) => vec![*x],
            DsOp::Union(x, y) => vec![*x, *y],
            DsOp::AddData(x, _) | DsOp::SetData(x, _) => vec![*x],
            DsOp::Sets => vec![],
        }
    }

    fn atom(&self) -> Option<usize> {
        match self {
            DsOp::AddData(_, a) | DsOp::SetData(_, a) => Some(*a),
            _ => None,
        }
    }
}

fn single_bag(a: usize) -> BagV {
    let mut r = [0; NATOMS];
    r[a] = 1;
    r
}

fn bag_json(b: &BagV) -> J {
    let mut m = serde_json::Map::new();
    for i in 0..NATOMS {
        m.insert(ATOM_NAMES[i].to_string(), json!(b[i]));
    }
    J::Object(m)
}

fn bag_from_json(v: &J) -> BagV {
    let mut r = [0; NATOMS];
    if let Some(o) = v.as_object() {
        for (k, n) in o {
            if let Some(i) = ATOM_NAMES.iter().position(|a| a == k) {
                r[i] = u32::try_from(n.as_u64().unwrap_or(0)).unwrap_or(u32::MAX);
            }
        }
    }
    r
}

/// The abstract state of the forest: a partition with one bag per class.
#[derive(Clone, Debug, PartialEq, Eq, Hash, PartialOrd, Ord)]
struct Abs {
    known:   Vec<usize>,
    classes: Vec<(Vec<usize>, BagV)>,
}

impl Abs {
    fn from_json(v: &J) -> Abs {
        let mut known: Vec<usize> = v["known"]
            .as_array()
            .map(|a| a.iter().map(|x| x.as_u64().unwrap() as usize).collect())
            .unwrap_or_default();
        known.sort_unstable();
        let mut classes: Vec<(Vec<usize>, BagV)> = v["classes"]
            .as_array()
            .map(|a| {
                a.iter()
                    .map(|c| {
                        let mut m: Vec<usize> = c["members"]
                            .as_array()
                            .unwrap()
                            .iter()
                            .map(|x| x.as_u64().unwrap() as usize)
                            .collect();
                        m.sort_unstable();
                        (m, bag_from_json(&c["b"]))
                    })
                    .collect()
            })
            .unwrap_or_default();
        classes.sort();
        Abs { known, classes }
    }

    fn to_json(&self) -> J {
        json!({
            "known": self.known,
            "classes": self.classes.iter().map(|(m, b)| json!({"members": m, "b": bag_json(b)})).collect::<Vec<_>>(),
        })
    }

    fn through<M: Monoid>(&self) -> Abs {
        Abs {
            known:   self.known.clone(),
            classes: self.classes.iter().map(|(m, b)| (m.clone(), M::abstraction(b))).collect(),
        }
    }

    fn class_of(&self, x: usize) -> Option<&(Vec<usize>, BagV)> {
        self.classes.iter().find(|(m, _)| m.contains(&x))
    }
}

fn project<M: Monoid>(ds: &DisjointSet<usize, M>) -> Result<Abs, String> {
    // Projection runs on a clone: `find` compresses paths and registers elements.
    let mut ds = ds.clone();
    guarded(move || {
        let mut known = ds.values();
        known.sort_unstable();
        let mut groups: BTreeMap<usize, Vec<usize>> = BTreeMap::new();
        for x in &known {
            let r = ds.find(x);
            groups.entry(r).or_default().push(*x);
        }
        let mut classes = Vec::new();
        for (r, mut members) in groups {
            members.sort_unstable();
            let d = ds.get_data(&r).cloned().unwrap_or_else(M::identity);
            classes.push((members, d.view()));
        }
        classes.sort();
        Abs { known, classes }
    })
}

/// What the real call returned, in a comparable shape.
#[derive(Clone, Debug, PartialEq)]
enum DsRes {
    Unit,
    Rep(usize),
    Data(BagV),
    Sets(Vec<(usize, BagV)>),
}

fn apply<M: Monoid>(ds: &mut DisjointSet<usize, M>, op: &DsOp) -> Result<DsRes, String> {
    guarded(|| match op {
        DsOp::Insert(x) => {
            ds.insert(*x);
            DsRes::Unit
        }
        DsOp::Find(x) => DsRes::Rep(ds.find(x)),
        DsOp::GetData(x) => DsRes::Data(ds.get_data(x).cloned().unwrap_or_else(M::identity).view()),
        DsOp::Union(x, y) => {
            ds.union(x, y);
            DsRes::Unit
        }
        DsOp::AddData(x, a) => {
            ds.add_data(x, M::single(*a));
            DsRes::Unit
        }
        DsOp::SetData(x, a) => {
            ds.set_data(x, M::single(*a));
            DsRes::Unit
        }
        DsOp::Sets => DsRes::Sets(ds.sets().into_iter().map(|(v, d)| (v, d.view())).collect()),
    })
}

/// Checks a call's reported result against the post-state the model demands.
fn check_result<M: Monoid>(op: &DsOp, res: &DsRes, post: &Abs) -> Result<(), String> {
    match (op, res) {
        (DsOp::Find(x), DsRes::Rep(r)) => {
            let c = post.class_of(*x).ok_or("model has no class for x")?;
            if c.0.contains(r) {
                Ok(())
            } else {
                Err(format!("find({x}) returned {r}, not a member of its class {:?}", c.0))
            }
        }
        (DsOp::GetData(x), DsRes::Data(d)) => {
            let c = post.class_of(*x).ok_or("model has no class for x")?;
            if *d == M::abstraction(&c.1) {
                Ok(())
            } else {
                Err(format!("get_data({x}) returned {d:?}, model says {:?}", M::abstraction(&c.1)))
            }
        }
        (DsOp::Sets, DsRes::Sets(v)) => {
            if v.len() != post.classes.len() {
                return Err(format!(
                    "sets() returned {} pairs for {} classes",
                    v.len(),
                    post.classes.len()
                ));
            }
            let mut seen = HashSet::new();
            for (m, d) in v {
                let (i, c) = post
                    .classes
                    .iter()
                    .enumerate()
                    .find(|(_, c)| c.0.contains(m))
                    .ok_or(format!("sets() named unknown element {m}"))?;
                if !seen.insert(i) {
                    return Err(format!("sets() listed the class of {m} twice"));
                }
                if *d != M::abstraction(&c.1) {
                    return Err(format!(
                        "sets() data for class {:?} is {d:?}, model says {:?}",
                        c.0,
                        M::abstraction(&c.1)
                    ));
                }
            }
            Ok(())
        }
        _ => Ok(()),
    }
}

struct DsGraph {
    states: Vec<Abs>,
    /// per state: op -> successor state id
    edges:  Vec<HashMap<DsOp, usize>>,
    init:   usize,
}

fn ds_op_from_json(r: &J) -> Option<DsOp> {
    let x = || r["x"].as_u64().map(|v| v as usize);
    let atom = || {
        let b = bag_from_json(&r["b"]);
        b.iter().position(|n| *n == 1)
    };
    Some(match r["op"].as_str()? {
        "insert" => DsOp::Insert(x()?),
        "find" => DsOp::Find(x()?),
        "get_data" => DsOp::GetData(x()?),
        "union" => DsOp::Union(x()?, r["y"].as_u64()? as usize),
        "add_data" => DsOp::AddData(x()?, atom()?),
        "set_data" => DsOp::SetData(x()?, atom()?),
        "sets" => DsOp::Sets,
        _ => return None,
    })
}

fn load_ds_graph(path: &str) -> R<DsGraph> {
    let text = std::fs::read_to_string(path).map_err(|e| format!("read {path}: {e}"))?;
    let mut ids: HashMap<Abs, usize> = HashMap::new();
    let mut states: Vec<Abs> = Vec::new();
    let mut edges: Vec<HashMap<DsOp, usize>> = Vec::new();
    let mut intern = |a: Abs, states: &mut Vec<Abs>, edges: &mut Vec<HashMap<DsOp, usize>>| {
        if let Some(i) = ids.get(&a) {
            *i
        } else {
            let i = states.len();
            ids.insert(a.clone(), i);
            states.push(a);
            edges.push(HashMap::new());
            i
        }
    };
    for line in text.lines() {
        if line.trim().is_empty() {
            continue;
        }
        let v: J = serde_json::from_str(line).map_err(|e| format!("graph line: {e}"))?;
        let s = intern(Abs::from_json(&v["s"]), &mut states, &mut edges);
        let t = intern(Abs::from_json(&v["t"]), &mut states, &mut edges);
        let op = ds_op_from_json(&v["r"]).ok_or("bad op in graph")?;
        if let Some(prev) = edges[s].insert(op.clone(), t) {
            if prev != t {
                return Err(format!("model is nondeterministic on {op:?}"));
            }
        }
    }
    let init = *ids
        .get(&Abs {
            known:   vec![],
            classes: vec![],
        })
        .ok_or("graph has no initial state")?;
    Ok(DsGraph {
        states,
        edges,
        init,
    })
}

#[derive(Clone)]
struct Mismatch {
    path:     Vec<J>,
    kind:     String,
    sig:      String,
    detail:   String,
    expected: J,
    actual:   J,
}

impl Mismatch {
    fn to_json(&self) -> J {
        json!({"path": self.path, "kind": self.kind, "sig": self.sig, "detail": self.detail,
               "expected": self.expected, "actual": self.actual})
    }
}

#[derive(Default)]
struct WalkStats {
    paths:      AtomicU64,
    steps:      AtomicU64,
    mismatches: AtomicU64,
}

struct WalkCtx<'a> {
    graph:     &'a DsGraph,
    ops:       &'a [DsOp],
    depth:     usize,
    canonical: bool,
    stats:     &'a WalkStats,
    found:     &'a Mutex<BTreeMap<String, (u64, Mismatch)>>,
    edges_hit: &'a Mutex<HashSet<(usize, DsOp)>>,
}

/// Condition under which the failing call was made; part of the signature by
/// which a known finding is recognised.
fn ds_condition(pre: &Abs, op: &DsOp) -> String {
    match op {
        DsOp::Union(x, y) => {
            let cx = pre.class_of(*x).map(|c| c.0.clone());
            let cy = pre.class_of(*y).map(|c| c.0.clone());
            if cx.is_some() && cx == cy {
                "same-class".into()
            } else {
                "distinct-classes".into()
            }
        }
        DsOp::Insert(x) => match pre.class_of(*x) {
            None => "new-element".into(),
            Some(c) if c.0.len() == 1 => "known-singleton".into(),
            Some(_) => "known-member-of-larger-class".into(),
        },
        other => match other.elems().first().map(|x| pre.known.contains(x)) {
            Some(false) => "unknown-element".into(),
            _ => "any".into(),
        },
    }
}

fn record(ctx: &WalkCtx, m: Mismatch) {
    ctx.stats.mismatches.fetch_add(1, Ordering::Relaxed);
    let mut f = ctx.found.lock().unwrap();
    let e = f.entry(m.sig.clone()).or_insert((0, m.clone()));
    e.0 += 1;
    if m.path.len() < e.1.path.len() {
        e.1 = m;
    }
}

/// One checked step: applies `op` to a copy of the real forest and compares the
/// call's result and the projected state with the model's successor state.
fn checked_step<M: Monoid>(
    ctx: &WalkCtx,
    ds: &DisjointSet<usize, M>,
    state: usize,
    next: usize,
    op: &DsOp,
    path: &[DsOp],
) -> Result<DisjointSet<usize, M>, Mismatch> {
    let mut ds2 = ds.clone();
    let pre = &ctx.graph.states[state];
    let post = &ctx.graph.states[next];
    let fail = |kind: &str, detail: String, actual: J| Mismatch {
        path: path.iter().chain(std::iter::once(op)).map(DsOp::to_json).collect(),
        kind: kind.to_string(),
        sig: format!("{}:{}:{}", op.name(), kind, ds_condition(pre, op)),
        detail,
        expected: post.through::<M>().to_json(),
        actual,
    };
    let res = apply(&mut ds2, op).map_err(|p| fail("panic", p, J::Null))?;
    check_result::<M>(op, &res, post).map_err(|d| fail("result", d, json!(format!("{res:?}"))))?;
    let got = project(&ds2).map_err(|p| fail("panic-in-projection", p, J::Null))?;
    let want = post.through::<M>();
    if got != want {
        let kind = if got.known != want.known {
            "known"
        } else if got.classes.iter().map(|c| &c.0).ne(want.classes.iter().map(|c| &c.0)) {
            "partition"
        } else {
            "data"
        };
        return Err(fail(kind, "projected state differs from the model".into(), got.to_json()));
    }
    Ok(ds2)
}

/// First-use canonical naming of elements and atoms (symmetry reduction).
fn canonical_ok(op: &DsOp, me: &mut isize, ma: &mut isize) -> bool {
    for x in op.elems() {
        let x = x as isize;
        if x > *me + 1 {
            return false;
        }
        *me = (*me).max(x);
    }
    if let Some(a) = op.atom() {
        let a = a as isize;
        if a > *ma + 1 {
            return false;
        }
        *ma = (*ma).max(a);
    }
    true
}

fn walk<M: Monoid>(
    ctx: &WalkCtx,
    ds: &DisjointSet<usize, M>,
    state: usize,
    path: &mut Vec<DsOp>,
    max_elem: isize,
    max_atom: isize,
    local_edges: &mut HashSet<(usize, DsOp)>,
) {
    if path.len() == ctx.depth {
        ctx.stats.paths.fetch_add(1, Ordering::Relaxed);
        return;
    }
    for op in ctx.ops {
        let mut me = max_elem;
        let mut ma = max_atom;
        if ctx.canonical && !canonical_ok(op, &mut me, &mut ma) {
            continue;
        }
        let Some(&next) = ctx.graph.edges[state].get(op) else {
            continue;
        };
        local_edges.insert((state, op.clone()));
        ctx.stats.steps.fetch_add(1, Ordering::Relaxed);
        match checked_step(ctx, ds, state, next, op, path) {
            Ok(ds2) => {
                path.push(op.clone());
                walk(ctx, &ds2, next, path, me, ma, local_edges);
                path.pop();
            }
            Err(m) => {
                // Off-model from here on: the rest of this subtree says nothing.
                ctx.stats.paths.fetch_add(1, Ordering::Relaxed);
                record(ctx, m);
            }
        }
    }
}

fn ds_all_ops(elems: usize, atoms: usize) -> Vec<DsOp> {
    let mut ops = Vec::new();
    for x in 0..elems {
        ops.push(DsOp::Insert(x));
        ops.push(DsOp::Find(x));
        ops.push(DsOp::GetData(x));
        for y in 0..elems {
            ops.push(DsOp::Union(x, y));
        }
        for a in 0..atoms {
            ops.push(DsOp::AddData(x, a));
            ops.push(DsOp::SetData(x, a));
        }
    }
    ops.push(DsOp::Sets);
    ops
}

fn run_ds_walk<M: Monoid>(o: &Opts, graph: &DsGraph) -> J {
    let depth: usize = o.num("depth", 4);
    let elems: usize = o.num("elems", 4);
    let atoms: usize = o.num("atoms", 2);
    let canonical = o.flag("canonical");
    let threads: usize = o.num("threads", 16);
    let ops = ds_all_ops(elems, atoms);
    let stats = WalkStats::default();
    let found = Mutex::new(BTreeMap::new());
    let edges_hit = Mutex::new(HashSet::new());
    // The first operation is walked sequentially; every (first, second) pair whose
    // first step conforms is a parallel task.
    let ctx = WalkCtx {
        graph,
        ops: &ops,
        depth,
        canonical,
        stats: &stats,
        found: &found,
        edges_hit: &edges_hit,
    };
    let mut tasks: Vec<(DisjointSet<usize, M>, usize, Vec<DsOp>, isize, isize)> = Vec::new();
    {
        let mut local = HashSet::new();
        let empty: DisjointSet<usize, M> = DisjointSet::new();
        for op in &ops {
            let (mut me, mut ma) = (-1isize, -1isize);
            if canonical && !canonical_ok(op, &mut me, &mut ma) {
                continue;
            }
            let Some(&next) = graph.edges[graph.init].get(op) else { continue };
            local.insert((graph.init, op.clone()));
            stats.steps.fetch_add(1, Ordering::Relaxed);
            match checked_step(&ctx, &empty, graph.init, next, op, &[]) {
                Ok(ds2) => tasks.push((ds2, next, vec![op.clone()], me, ma)),
                Err(m) => {
                    stats.paths.fetch_add(1, Ordering::Relaxed);
                    record(&ctx, m);
                }
            }
        }
        edges_hit.lock().unwrap().extend(local);
    }
    if depth <= 1 {
        stats.paths.fetch_add(tasks.len() as u64, Ordering::Relaxed);
        tasks.clear();
    }
    // Split each task once more by its second operation for load balance.
    let mut fine: Vec<(DisjointSet<usize, M>, usize, Vec<DsOp>, isize, isize, DsOp)> = Vec::new();
    for (ds, st, path, me, ma) in tasks {
        for op in &ops {
            fine.push((ds.clone(), st, path.clone(), me, ma, op.clone()));
        }
    }
    let queue = Mutex::new(fine);
    std::thread::scope(|s| {
        for _ in 0..threads {
            s.spawn(|| {
                let mut local = HashSet::new();
                loop {
                    let Some((ds, st, mut path, me, ma, op)) = queue.lock().unwrap().pop() else { break };
                    let one = [op];
                    let sub = WalkCtx {
                        graph,
                        ops: &one,
                        depth: 2,
                        canonical,
                        stats: &stats,
                        found: &found,
                        edges_hit: &edges_hit,
                    };
                    // Take the second step with the restricted op list, then continue with all ops.
                    let (mut me2, mut ma2) = (me, ma);
                    let op = &one[0];
                    if canonical && !canonical_ok(op, &mut me2, &mut ma2) {
                        continue;
                    }
                    let Some(&next) = graph.edges[st].get(op) else { continue };
                    local.insert((st, op.clone()));
                    stats.steps.fetch_add(1, Ordering::Relaxed);
                    match checked_step(&sub, &ds, st, next, op, &path) {
                        Ok(ds2) => {
                            path.push(op.clone());
                            walk(&ctx, &ds2, next, &mut path, me2, ma2, &mut local);
                        }
                        Err(m) => {
                            stats.paths.fetch_add(1, Ordering::Relaxed);
                            record(&ctx, m);
                        }
                    }
                }
                edges_hit.lock().unwrap().extend(local);
            });
        }
    });
    let found = found.into_inner().unwrap();
    let total_edges: usize = graph.edges.iter().map(HashMap::len).sum();
    json!({
        "depth": depth, "elems": elems, "atoms": atoms, "canonical": canonical,
        "ops": ops.len(),
        "paths": stats.paths.load(Ordering::Relaxed),
        "steps": stats.steps.load(Ordering::Relaxed),
        "graph_states": graph.states.len(),
        "graph_edges": total_edges,
        "graph_edges_exercised": edges_hit.into_inner().unwrap().len(),
        "mismatching_paths": stats.mismatches.load(Ordering::Relaxed),
        "mismatches": found.iter().map(|(sig, (n, m))| json!({"sig": sig, "count": n, "shortest": m.to_json()})).collect::<Vec<_>>(),
    })
}

pub fn ds_walk(o: &Opts) -> R<()> {
    let graph = load_ds_graph(&o.str("graph")?)?;
    let out = o.str("out")?;
    let res = match o.str_or("monoid", "bag").as_str() {
        "bag" => run_ds_walk::<Bag>(o, &graph),
        "set" => run_ds_walk::<HashSet<u8>>(o, &graph),
        m => return Err(format!("unknown monoid {m}")),
    };
    write_json(&out, &res)
}

/// Long random histories over many elements, logged for `DisjointSetTrace.tla`.
pub fn ds_trace(o: &Opts) -> R<()> {
    let seed: u64 = o.num("seed", 1);
    let runs: usize = o.num("runs", 10);
    let len: usize = o.num("len", 400);
    let elems: usize = o.num("elems", 64);
    let out = o.str("out")?;
    let mut w = Ndjson::create(&out)?;
    let mut rng = StdRng::seed_from_u64(seed);
    // TLC starts evaluating at record 1 on its main thread; begin with a dummy.
    w.put(&json!({"op":"begin"}));
    for run in 0..runs {
        w.put(&json!({"op":"reset","run":run}));
        let mut ds: DisjointSet<usize, Bag> = DisjointSet::new();
        // A run concentrates on a random sub-universe so that classes grow.
        let span = rng.gen_range(2..=elems);
        for step in 0..len {
            let x = rng.gen_range(0..span);
            let y = rng.gen_range(0..span);
            let a = rng.gen_range(0..NATOMS);
            let op = match rng.gen_range(0..100) {
                0..=9 => DsOp::Insert(x),
                10..=39 => DsOp::Union(x, y),
                40..=59 => DsOp::AddData(x, a),
                60..=67 => DsOp::SetData(x, a),
                68..=79 => DsOp::Find(x),
                80..=91 => DsOp::GetData(x),
                _ => DsOp::Sets,
            };
            let mut ev = op.to_json();
            ev["run"] = json!(run);
            ev["step"] = json!(step);
            match apply(&mut ds, &op) {
                Err(p) => {
                    ev["panic"] = json!(p);
                    w.put(&ev);
                    break;
                }
                Ok(res) => {
                    match res {
                        DsRes::Unit => {}
                        DsRes::Rep(r) => ev["rep"] = json!(r),
                        DsRes::Data(d) => ev["out"] = bag_json(&d),
                        DsRes::Sets(v) => {
                            ev["pairs"] = J::Array(
                                v.iter().map(|(m, d)| json!({"m": m, "b": bag_json(d)})).collect(),
                            );
                        }
                    }
                    match project(&ds) {
                        Ok(p) => ev["proj"] = p.to_json(),
                        Err(p) => ev["panic"] = json!(p),
                    }
                    w.put(&ev);
                }
            }
        }
    }
    let n = w.finish();
    println!("{}", json!({"records": n, "runs": runs}));
    Ok(())
}

// --------------------------------------------------------------------------------------------
// VectorMap
// --------------------------------------------------------------------------------------------

#[derive(Clone, Debug, PartialEq, Eq, Hash, PartialOrd, Ord)]
enum VmOp {
    Insert(usize, u8),
    Remove(usize),
    Get(usize),
    Observe,
}

impl VmOp {
    fn to_json(&self) -> J {
        match self {
            VmOp::Insert(k, v) => json!({"op":"insert","k":k,"v":v}),
            VmOp::Remove(k) => json!({"op":"remove","k":k}),
            VmOp::Get(k) => json!({"op":"get","k":k}),
            VmOp::Observe => json!({"op":"observe"}),
        }
    }

    fn name(&self) -> &'static str {
        match self {
            VmOp::Insert(..) => "insert",
            VmOp::Remove(_) => "remove",
            VmOp::Get(_) => "get",
            VmOp::Observe => "observe",
        }
    }
}

type VmAbs = Vec<(usize, u8)>;

fn vm_abs_from_json(v: &J) -> VmAbs {
    let mut r: VmAbs = v["items"]
        .as_array()
        .map(|a| {
            a.iter()
                .map(|p| (p[0].as_u64().unwrap() as usize, p[1].as_u64().unwrap() as u8))
                .collect()
        })
        .unwrap_or_default();
    r.sort_unstable();
    r
}

fn vm_abs_json(a: &VmAbs) -> J {
    json!({"items": a.iter().map(|(k, v)| json!([k, v])).collect::<Vec<_>>()})
}

#[derive(Clone, Debug, PartialEq)]
enum VmRes {
    Unit,
    Out(Option<u8>),
    Obs {
        len:      usize,
        is_empty: bool,
        items:    VmAbs,
        indices:  Vec<usize>,
        values:   Vec<u8>,
    },
}

fn vm_apply(m: &mut VectorMap<usize, u8>, op: &VmOp) -> Result<VmRes, String> {
    guarded(|| match op {
        VmOp::Insert(k, v) => {
            m.insert(k, *v);
            VmRes::Unit
        }
        VmOp::Remove(k) => VmRes::Out(m.remove(k)),
        VmOp::Get(k) => VmRes::Out(m.get(k).copied()),
        VmOp::Observe => VmRes::Obs {
            len:      m.len(),
            is_empty: m.is_empty(),
            items:    m.iter().map(|(k, v)| (k, *v)).collect(),
            indices:  m.indices().collect(),
            values:   m.values().copied().collect(),
        },
    })
}

/// The full observation of a map, used as its projection.
fn vm_project(m: &VectorMap<usize, u8>, keys: usize) -> Result<(VmAbs, usize, Vec<Option<u8>>), String> {
    guarded(|| {
        let mut items: VmAbs = m.iter().map(|(k, v)| (k, *v)).collect();
        items.sort_unstable();
        let gets = (0..keys).map(|k| m.get(&k).copied()).collect();
        (items, m.len(), gets)
    })
}

fn vm_check(
    op: &VmOp,
    res: &VmRes,
    pre: &VmAbs,
    post: &VmAbs,
    m: &VectorMap<usize, u8>,
    keys: usize,
) -> Result<(), (String, String)> {
    let lookup = |a: &VmAbs, k: usize| a.iter().find(|(x, _)| *x == k).map(|(_, v)| *v);
    match (op, res) {
        (VmOp::Remove(k), VmRes::Out(o)) => {
            if *o != lookup(pre, *k) {
                return Err(("result".into(), format!("remove({k}) returned {o:?}, model {:?}", lookup(pre, *k))));
            }
        }
        (VmOp::Get(k), VmRes::Out(o)) => {
            if *o != lookup(pre, *k) {
                return Err(("result".into(), format!("get({k}) returned {o:?}, model {:?}", lookup(pre, *k))));
            }
        }
        (
            VmOp::Observe,
            VmRes::Obs {
                len,
                is_empty,
                items,
                indices,
                values,
            },
        ) => {
            if *len != post.len() {
                return Err(("len".into(), format!("len() = {len}, model has {} keys", post.len())));
            }
            if *is_empty != post.is_empty() {
                return Err(("len".into(), format!("is_empty() = {is_empty}, model has {} keys", post.len())));
            }
            if items != post {
                return Err(("contents".into(), format!("iter() = {items:?}, model {post:?}")));
            }
            if indices.iter().copied().ne(post.iter().map(|p| p.0))
                || values.iter().copied().ne(post.iter().map(|p| p.1))
            {
                return Err(("contents".into(), "indices()/values() disagree with the model".into()));
            }
        }
        _ => {}
    }
    let (items, len, gets) = vm_project(m, keys).map_err(|p| ("panic-in-projection".to_string(), p))?;
    if items != *post {
        return Err(("contents".into(), format!("contents {items:?}, model {post:?}")));
    }
    if len != post.len() {
        return Err(("len".into(), format!("len() = {len}, model has {} keys", post.len())));
    }
    for (k, g) in gets.iter().enumerate() {
        if *g != lookup(post, k) {
            return Err(("presence".into(), format!("get({k}) = {g:?}, model {:?}", lookup(post, k))));
        }
    }
    Ok(())
}

fn vm_condition(pre: &VmAbs, op: &VmOp) -> String {
    let has = |k: usize| pre.iter().any(|(x, _)| *x == k);
    match op {
        VmOp::Insert(k, _) => if has(*k) { "overwrite" } else { "fresh-key" }.into(),
        VmOp::Remove(k) => if has(*k) { "present-key" } else { "absent-key" }.into(),
        _ => "any".into(),
    }
}

pub fn vm_walk(o: &Opts) -> R<()> {
    let path = o.str("graph")?;
    let out = o.str("out")?;
    let depth: usize = o.num("depth", 5);
    let keys: usize = o.num("keys", 4);
    let text = std::fs::read_to_string(&path).map_err(|e| format!("read {path}: {e}"))?;
    let mut ids: HashMap<VmAbs, usize> = HashMap::new();
    let mut states: Vec<VmAbs> = Vec::new();
    let mut edges: Vec<BTreeMap<VmOp, usize>> = Vec::new();
    for line in text.lines().filter(|l| !l.trim().is_empty()) {
        let v: J = serde_json::from_str(line).map_err(|e| format!("graph line: {e}"))?;
        let mut id = |a: VmAbs| {
            if let Some(i) = ids.get(&a) {
                *i
            } else {
                let i = states.len();
                ids.insert(a.clone(), i);
                states.push(a);
                edges.push(BTreeMap::new());
                i
            }
        };
        let s = id(vm_abs_from_json(&v["s"]));
        let t = id(vm_abs_from_json(&v["t"]));
        let r = &v["r"];
        let k = || r["k"].as_u64().map(|x| x as usize);
        let op = match r["op"].as_str() {
            Some("insert") => VmOp::Insert(k().ok_or("k")?, r["v"].as_u64().ok_or("v")? as u8),
            Some("remove") => VmOp::Remove(k().ok_or("k")?),
            Some("get") => VmOp::Get(k().ok_or("k")?),
            Some("observe") => VmOp::Observe,
            _ => return Err("bad op".into()),
        };
        edges[s].insert(op, t);
    }
    let init = *ids.get(&Vec::new()).ok_or("no initial state")?;

    let paths = AtomicU64::new(0);
    let steps = AtomicU64::new(0);
    let bad = AtomicU64::new(0);
    let found: Mutex<BTreeMap<String, (u64, J)>> = Mutex::new(BTreeMap::new());
    let hit: Mutex<HashSet<(usize, VmOp)>> = Mutex::new(HashSet::new());

    struct C<'a> {
        states: &'a [VmAbs],
        edges:  &'a [BTreeMap<VmOp, usize>],
        depth:  usize,
        keys:   usize,
        paths:  &'a AtomicU64,
        steps:  &'a AtomicU64,
        bad:    &'a AtomicU64,
        found:  &'a Mutex<BTreeMap<String, (u64, J)>>,
    }
    fn go(c: &C, m: &VectorMap<usize, u8>, s: usize, path: &mut Vec<VmOp>, hit: &mut HashSet<(usize, VmOp)>) {
        if path.len() == c.depth {
            c.paths.fetch_add(1, Ordering::Relaxed);
            return;
        }
        for (op, &t) in &c.edges[s] {
            c.steps.fetch_add(1, Ordering::Relaxed);
            hit.insert((s, op.clone()));
            let mut m2 = m.clone();
            path.push(op.clone());
            let verdict = match vm_apply(&mut m2, op) {
                Err(p) => Err(("panic".to_string(), p)),
                Ok(res) => vm_check(op, &res, &c.states[s], &c.states[t], &m2, c.keys),
            };
            match verdict {
                Ok(()) => go(c, &m2, t, path, hit),
                Err((kind, detail)) => {
                    c.bad.fetch_add(1, Ordering::Relaxed);
                    c.paths.fetch_add(1, Ordering::Relaxed);
                    let sig = format!("{}:{}:{}", op.name(), kind, vm_condition(&c.states[s], op));
                    let m = json!({"path": path.iter().map(VmOp::to_json).collect::<Vec<_>>(),
                                   "kind": kind, "sig": sig, "detail": detail,
                                   "expected": vm_abs_json(&c.states[t])});
                    let mut f = c.found.lock().unwrap();
                    let e = f.entry(sig).or_insert((0, m.clone()));
                    e.0 += 1;
                    if path.len() < e.1["path"].as_array().map_or(usize::MAX, Vec::len) {
                        e.1 = m;
                    }
                }
            }
            path.pop();
        }
    }
    let c = C {
        states: &states,
        edges: &edges,
        depth,
        keys,
        paths: &paths,
        steps: &steps,
        bad: &bad,
        found: &found,
    };
    // Parallelise over the first operation.
    let firsts: Vec<(VmOp, usize)> = edges[init].iter().map(|(o, t)| (o.clone(), *t)).collect();
    let queue = Mutex::new(firsts);
    std::thread::scope(|sc| {
        for _ in 0..o.num("threads", 16usize) {
            sc.spawn(|| {
                let mut local = HashSet::new();
                loop {
                    let Some((op, _)) = queue.lock().unwrap().pop() else { break };
                    let single: Vec<BTreeMap<VmOp, usize>> = Vec::new();
                    let _ = single;
                    // Run the first step through `go` restricted to this operation.
                    let mut restricted = edges.clone();
                    restricted[init].retain(|k, _| *k == op);
                    // Only the root is restricted: deeper visits of `init` need all edges,
                    // so walk the first step by hand.
                    let m = VectorMap::new();
                    let mut path = Vec::new();
                    let t = edges[init][&op];
                    c.steps.fetch_add(1, Ordering::Relaxed);
                    local.insert((init, op.clone()));
                    let mut m2 = m.clone();
                    path.push(op.clone());
                    let verdict = match vm_apply(&mut m2, &op) {
                        Err(p) => Err(("panic".to_string(), p)),
                        Ok(res) => vm_check(&op, &res, &states[init], &states[t], &m2, keys),
                    };
                    match verdict {
                        Ok(()) => go(&c, &m2, t, &mut path, &mut local),
                        Err((kind, detail)) => {
                            c.bad.fetch_add(1, Ordering::Relaxed);
                            c.paths.fetch_add(1, Ordering::Relaxed);
                            let sig = format!("{}:{}:{}", op.name(), kind, vm_condition(&states[init], &op));
                            let mj = json!({"path": [op.to_json()], "kind": kind, "sig": sig, "detail": detail});
                            c.found.lock().unwrap().entry(sig).or_insert((0, mj)).0 += 1;
                        }
                    }
                }
                hit.lock().unwrap().extend(local);
            });
        }
    });
    let total_edges: usize = edges.iter().map(BTreeMap::len).sum();
    let res = json!({
        "depth": depth, "keys": keys,
        "paths": paths.load(Ordering::Relaxed),
        "steps": steps.load(Ordering::Relaxed),
        "graph_states": states.len(),
        "graph_edges": total_edges,
        "graph_edges_exercised": hit.into_inner().unwrap().len(),
        "mismatching_paths": bad.load(Ordering::Relaxed),
        "mismatches": found.into_inner().unwrap().iter()
            .map(|(sig, (n, m))| json!({"sig": sig, "count": n, "shortest": m})).collect::<Vec<_>>(),
    });
    write_json(&out, &res)
}

pub fn vm_trace(o: &Opts) -> R<()> {
    let seed: u64 = o.num("seed", 1);
    let runs: usize = o.num("runs", 10);
    let len: usize = o.num("len", 400);
    let keys: usize = o.num("keys", 64);
    let out = o.str("out")?;
    let mut w = Ndjson::create(&out)?;
    let mut rng = StdRng::seed_from_u64(seed ^ 0x5eed);
    w.put(&json!({"op":"begin"}));
    for run in 0..runs {
        w.put(&json!({"op":"reset","run":run}));
        let mut m: VectorMap<usize, u8> = VectorMap::new();
        let span = rng.gen_range(1..=keys);
        for step in 0..len {
            let k = rng.gen_range(0..span);
            let op = match rng.gen_range(0..100) {
                0..=39 => VmOp::Insert(k, rng.gen_range(0..8)),
                40..=69 => VmOp::Remove(k),
                70..=84 => VmOp::Get(k),
                _ => VmOp::Observe,
            };
            let mut ev = op.to_json();
            ev["run"] = json!(run);
            ev["step"] = json!(step);
            match vm_apply(&mut m, &op) {
                Err(p) => {
                    ev["panic"] = json!(p);
                    w.put(&ev);
                    break;
                }
                Ok(res) => {
                    match res {
                        VmRes::Unit => {}
                        VmRes::Out(o) => ev["out"] = o.map_or(json!("none"), |v| json!(v)),
                        VmRes::Obs {
                            len,
                            is_empty,
                            items,
                            ..
                        } => {
                            ev["len"] = json!(len);
                            ev["is_empty"] = json!(is_empty);
                            ev["items"] = json!(items.iter().map(|(k, v)| json!([k, v])).collect::<Vec<_>>());
                        }
                    }
                    match vm_project(&m, keys) {
                        Ok((items, len, _)) => {
                            ev["proj"] = json!({"items": items.iter().map(|(k, v)| json!([k, v])).collect::<Vec<_>>(), "len": len});
                        }
                        Err(p) => ev["panic"] = json!(p),
                    }
                    w.put(&ev);
                }
            }
        }
    }
    let n = w.finish();
    println!("{}", json!({"records": n, "runs": runs}));
    Ok(())
}
