//! Word-level lifting passes against `Lift.tla`: terms enumerated by TLC
//! (`LiftGen.tla`) are built as real values, run through the crate's default
//! lifting passes and written back in the specification's term language for
//! `LiftTrace.tla`.

use ethnum::U256;
use serde_json::{json, Value as J};
use storage_layout_extractor::{
    tc::{lift::LiftingPasses, state::TypeCheckerState},
    vm::value::{known::KnownWord, Provenance, RuntimeBoxedVal, RSV, RSVD},
};

use crate::util::{guarded, Ndjson, Opts, R};

struct Env {
    leaves: std::collections::BTreeMap<String, RuntimeBoxedVal>,
    ip: u32,
}

fn known(env: &mut Env, v: U256) -> RuntimeBoxedVal {
    env.ip += 1;
    RSV::new_known_value(env.ip, KnownWord::from_le(v), Provenance::Synthetic, None)
}

fn syn(env: &mut Env, d: RSVD) -> RuntimeBoxedVal {
    env.ip += 1;
    RSV::new_synthetic(env.ip, d)
}

fn ones(off: u64, len: u64) -> U256 {
    if off >= 256 || len == 0 {
        return U256::ZERO;
    }
    let m = if len >= 256 { U256::MAX } else { (U256::ONE << (len as u32)) - 1 };
    m << (off as u32)
}

fn pow2(n: u64) -> U256 {
    if n >= 256 { U256::ZERO } else { U256::ONE << (n as u32) }
}

/// Builds the real value for a term of `Lift.tla`.
fn build(env: &mut Env, t: &J) -> Result<RuntimeBoxedVal, String> {
    let a = t.as_array().ok_or("term")?;
    let op = a[0].as_str().ok_or("op")?;
    let num = |i: usize| a[i].as_u64().ok_or_else(|| format!("number at {i}"));
    Ok(match op {
        "x" => {
            let id = a[1].as_str().ok_or("id")?.to_string();
            if let Some(v) = env.leaves.get(&id) {
                v.clone()
            } else {
                env.ip += 1;
                let v = RSV::new_value(env.ip, Provenance::Synthetic);
                env.leaves.insert(id, v.clone());
                v
            }
        }
        "sload" => {
            let c: u64 = a[1].as_str().ok_or("slot")?.parse().map_err(|_| "slot")?;
            let key = known(env, U256::from(c));
            let inner = syn(env, RSVD::UnwrittenStorageValue { key: key.clone() });
            syn(env, RSVD::SLoad { key, value: inner })
        }
        "and" | "keep" => {
            let v = build(env, &a[1])?;
            let m = ones(num(2)?, num(3)?);
            let m = known(env, if op == "keep" { !m } else { m });
            if a[4].as_str() == Some("L") {
                syn(env, RSVD::And { left: m, right: v })
            } else {
                syn(env, RSVD::And { left: v, right: m })
            }
        }
        "shr" => {
            let v = build(env, &a[1])?;
            let n = num(2)?;
            match a[3].as_str().ok_or("form")? {
                "shr" => {
                    let s = known(env, U256::from(n));
                    syn(env, RSVD::RightShift { value: v, shift: s })
                }
                "divlit" => {
                    let d = known(env, pow2(n));
                    syn(env, RSVD::Divide { dividend: v, divisor: d })
                }
                "divexp" => {
                    let (b, e) = (known(env, U256::from(2u8)), known(env, U256::from(n)));
                    let d = syn(env, RSVD::Exp { value: b, exponent: e });
                    syn(env, RSVD::Divide { dividend: v, divisor: d })
                }
                _ => {
                    let (b, e) = (known(env, U256::ONE), known(env, U256::from(n)));
                    let d = syn(env, RSVD::LeftShift { value: b, shift: e });
                    syn(env, RSVD::Divide { dividend: v, divisor: d })
                }
            }
        }
        "shl" => {
            let v = build(env, &a[1])?;
            let n = num(2)?;
            match a[3].as_str().ok_or("form")? {
                "shl" => {
                    let s = known(env, U256::from(n));
                    syn(env, RSVD::LeftShift { value: v, shift: s })
                }
                "mullit" => {
                    let c = known(env, pow2(n));
                    syn(env, RSVD::Multiply { left: c, right: v })
                }
                _ => {
                    let c = known(env, pow2(n));
                    syn(env, RSVD::Multiply { left: v, right: c })
                }
            }
        }
        "or" => {
            let (l, r) = (build(env, &a[1])?, build(env, &a[2])?);
            syn(env, RSVD::Or { left: l, right: r })
        }
        other => return Err(format!("unknown term {other}")),
    })
}

/// A constant that is one run of ones: (off, len).
fn run_of_ones(v: U256) -> Option<(u64, u64)> {
    if v == U256::ZERO {
        return None;
    }
    let off = u64::from(v.trailing_zeros());
    let w = v >> (off as u32);
    let len = u64::from((!w).trailing_zeros());
    if len < 256 && (w >> (len as u32)) != U256::ZERO { None } else { Some((off, len)) }
}

fn const_of(v: &RuntimeBoxedVal) -> Option<U256> {
    match v.constant_fold().data() {
        RSVD::KnownData { value } => Some(value.value_le()),
        _ => None,
    }
}

fn log2_exact(v: U256) -> Option<u64> {
    if v != U256::ZERO && (v & (v - 1)) == U256::ZERO { Some(u64::from(v.trailing_zeros())) } else { None }
}

/// Writes a real value in the term language of `Lift.tla`.
fn describe(env: &Env, v: &RuntimeBoxedVal) -> J {
    if let Some((id, _)) = env.leaves.iter().find(|(_, l)| *l == v) {
        return json!(["x", id]);
    }
    match v.data() {
        RSVD::SLoad { key, .. } => match const_of(if let RSVD::StorageSlot { key } = key.data() { key } else { key }) {
            Some(c) => json!(["sload", c.to_string()]),
            None => json!(["other", "sload"]),
        },
        RSVD::StorageWrite { key, value } => json!(["write", describe(env, key), describe(env, value)]),
        RSVD::StorageSlot { key } => describe(env, key),
        RSVD::KnownData { value } => json!(["const", format!("{:x}", value.value_le())]),
        RSVD::And { left, right } => {
            let (m, val, side) = match (const_of(left), const_of(right)) {
                (Some(m), None) => (m, right, "L"),
                (None, Some(m)) => (m, left, "R"),
                _ => return json!(["other", "and"]),
            };
            if let Some((o, l)) = run_of_ones(m) {
                json!(["and", describe(env, val), o, l, side])
            } else if let Some((o, l)) = run_of_ones(!m) {
                json!(["keep", describe(env, val), o, l, side])
            } else {
                json!(["other", "and-mask"])
            }
        }
        RSVD::Or { left, right } => json!(["or", describe(env, left), describe(env, right)]),
        RSVD::RightShift { value, shift } => match const_of(shift) {
            Some(n) => json!(["shr", describe(env, value), u64::try_from(n).unwrap_or(u64::MAX).min(100_000), "shr"]),
            None => json!(["other", "shr"]),
        },
        RSVD::LeftShift { value, shift } => match const_of(shift) {
            Some(n) => json!(["shl", describe(env, value), u64::try_from(n).unwrap_or(u64::MAX).min(100_000), "shl"]),
            None => json!(["other", "shl"]),
        },
        RSVD::Divide { dividend, divisor } => match const_of(divisor).and_then(log2_exact) {
            Some(n) => json!(["shr", describe(env, dividend), n, "div"]),
            // division by the zero that 2^n is for n >= 256
            None if const_of(divisor) == Some(U256::ZERO) => json!(["shr", describe(env, dividend), 256, "div"]),
            None => json!(["other", "div"]),
        },
        RSVD::Multiply { left, right } => {
            let (c, val) = match (const_of(left), const_of(right)) {
                (Some(c), None) => (c, right),
                (None, Some(c)) => (c, left),
                _ => return json!(["other", "mul"]),
            };
            match log2_exact(c) {
                Some(n) => json!(["shl", describe(env, val), n, "mul"]),
                None if c == U256::ZERO => json!(["shl", describe(env, val), 256, "mul"]),
                None => json!(["other", "mul"]),
            }
        }
        RSVD::SubWord { value, offset, size } => json!(["subword", describe(env, value), offset, size]),
        RSVD::Shifted { offset, value } => json!(["shifted", describe(env, value), offset]),
        RSVD::Packed { elements } => {
            json!(["packed", elements.iter().map(|e| json!([e.offset, e.size, describe(env, &e.value)])).collect::<Vec<_>>()])
        }
        _ => json!(["other", format!("{v}").chars().take(40).collect::<String>()]),
    }
}

pub fn replay(o: &Opts) -> R<()> {
    let cases = std::fs::read_to_string(o.str("cases")?).map_err(|e| e.to_string())?;
    let mut w = Ndjson::create(&o.str("out")?)?;
    w.put(&json!({"ev": "begin"}));
    let (mut n, mut lifted_n, mut packed_n, mut panics) = (0u64, 0u64, 0u64, 0u64);
    for line in cases.lines().filter(|l| !l.trim().is_empty()) {
        let c: J = serde_json::from_str(line).map_err(|e| e.to_string())?;
        let fam = c["fam"].as_str().ok_or("fam")?.to_string();
        let mut env = Env { leaves: Default::default(), ip: 0 };
        let body = build(&mut env, &c["term"])?;
        // the value as the type checker receives it: a field read stands alone, a packed write is the value of a store
        let value = if fam == "write" || fam == "update" {
            let key = known(&mut env, U256::from(5u8));
            syn(&mut env, RSVD::StorageWrite { key, value: body })
        } else {
            body
        };
        let orig = describe(&env, &value);
        let res = guarded(|| {
            let state = TypeCheckerState::empty();
            LiftingPasses::default().run(value.clone(), &state).map_err(|e| format!("{e:?}"))
        });
        n += 1;
        let (lifted, outcome) = match res {
            Ok(Ok(v)) => (describe(&env, &v), "ok"),
            Ok(Err(_)) => (json!(["other", "error"]), "error"),
            Err(_) => {
                panics += 1;
                (json!(["other", "panic"]), "panic")
            }
        };
        let text = lifted.to_string();
        if text.contains("subword") {
            lifted_n += 1;
        }
        if text.contains("packed") {
            packed_n += 1;
        }
        w.put(&json!({"ev": "lift", "fam": fam, "case": c["term"], "orig": orig, "lifted": lifted, "outcome": outcome}));
    }
    w.finish();
    println!("{}", json!({"cases": n, "with_subword": lifted_n, "with_packed": packed_n, "panics": panics}));
    Ok(())
}
