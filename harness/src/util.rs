//! Small shared helpers: option parsing, panic capture, NDJSON output.

use std::{
    collections::HashMap,
    fs::File,
    io::{BufWriter, Write},
    panic::{catch_unwind, AssertUnwindSafe},
};

pub type R<T> = Result<T, String>;

pub struct Opts {
    map: HashMap<String, String>,
}

impl Opts {
    pub fn parse(args: &[String]) -> Self {
        let mut map = HashMap::new();
        let mut i = 0;
        while i < args.len() {
            if let Some(k) = args[i].strip_prefix("--") {
                if i + 1 < args.len() && !args[i + 1].starts_with("--") {
                    map.insert(k.to_string(), args[i + 1].clone());
                    i += 2;
                } else {
                    map.insert(k.to_string(), "true".to_string());
                    i += 1;
                }
            } else {
                i += 1;
            }
        }
        Self { map }
    }

    pub fn get(&self, k: &str) -> Option<&str> {
        self.map.get(k).map(String::as_str)
    }

    pub fn str(&self, k: &str) -> R<String> {
        self.get(k).map(str::to_string).ok_or(format!("missing --{k}"))
    }

    pub fn str_or(&self, k: &str, d: &str) -> String {
        self.get(k).unwrap_or(d).to_string()
    }

    pub fn num<T: std::str::FromStr>(&self, k: &str, d: T) -> T {
        self.get(k).and_then(|v| v.parse().ok()).unwrap_or(d)
    }

    pub fn flag(&self, k: &str) -> bool {
        self.get(k).map_or(false, |v| v != "false" && v != "0")
    }
}

/// Runs `f`, turning a panic into `Err(message)`.  The default panic hook is
/// silenced once so that expected panics do not flood stderr.
pub fn guarded<T>(f: impl FnOnce() -> T) -> Result<T, String> {
    silence_panics();
    catch_unwind(AssertUnwindSafe(f)).map_err(|e| {
        if let Some(s) = e.downcast_ref::<&str>() {
            (*s).to_string()
        } else if let Some(s) = e.downcast_ref::<String>() {
            s.clone()
        } else {
            "<non-string panic payload>".to_string()
        }
    })
}

pub fn silence_panics() {
    use std::sync::Once;
    static ONCE: Once = Once::new();
    ONCE.call_once(|| {
        std::panic::set_hook(Box::new(|_| {}));
    });
}

pub struct Ndjson {
    w: BufWriter<File>,
    pub lines: usize,
}

impl Ndjson {
    pub fn create(path: &str) -> R<Self> {
        let f = File::create(path).map_err(|e| format!("create {path}: {e}"))?;
        Ok(Self {
            w: BufWriter::with_capacity(1 << 20, f),
            lines: 0,
        })
    }

    pub fn put(&mut self, v: &serde_json::Value) {
        serde_json::to_writer(&mut self.w, v).expect("write");
        self.w.write_all(b"\n").expect("write");
        self.lines += 1;
    }

    /// Writes the record and flushes: what was recorded survives an abort of the process.
    pub fn put_now(&mut self, v: &serde_json::Value) {
        self.put(v);
        self.w.flush().expect("flush");
    }

    pub fn finish(mut self) -> usize {
        self.w.flush().expect("flush");
        self.lines
    }
}

pub fn write_json(path: &str, v: &serde_json::Value) -> R<()> {
    let s = serde_json::to_string_pretty(v).map_err(|e| e.to_string())?;
    std::fs::write(path, s).map_err(|e| format!("write {path}: {e}"))
}

pub fn hex_of(bytes: &[u8]) -> String {
    hex::encode(bytes)
}

pub fn unhex(s: &str) -> R<Vec<u8>> {
    hex::decode(s.trim().trim_start_matches("0x")).map_err(|e| format!("bad hex: {e}"))
}
