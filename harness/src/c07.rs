//! C07: every explored path computes what a concrete EVM computes on that path.
//!
//! Stack-safe, loop-free programs over constants are run on the real VM with the
//! hooks on; for every stored state the path it took is reconstructed from the
//! Exec / Fork / Advance events, a scratch concrete interpreter follows the same
//! path (its claims are verified by `Evm.tla`), and the final symbolic stack,
//! memory and storage are exported with a scratch evaluation of every node
//! (verified node by node by `Evm!NodeClaimOK`).

use std::collections::HashMap;

use ethnum::{I256, U256};
use rand::{rngs::StdRng, seq::SliceRandom, Rng, SeedableRng};
use serde_json::{json, Value as J};
use storage_layout_extractor::{
    disassembly::InstructionStream,
    verif::{self, Event},
    vm::{
        value::{RuntimeBoxedVal, SymbolicValueData as SVD},
        VM,
    },
};

use crate::{
    progen::{assemble, Item, Limits},
    util::{guarded, unhex, Ndjson, Opts, R},
    values,
    vmrun::{vm_config, ScriptedWatchdog},
};

fn le(w: U256) -> Vec<u8> {
    w.to_le_bytes().to_vec()
}

fn neg(w: U256) -> U256 {
    (!w).wrapping_add(U256::ONE)
}

fn is_neg(w: U256) -> bool {
    w >> 255 == U256::ONE
}

fn abs(w: U256) -> U256 {
    if is_neg(w) {
        neg(w)
    } else {
        w
    }
}

fn signed(w: U256) -> I256 {
    I256::from_le_bytes(w.to_le_bytes())
}

fn shift_amount(s: U256) -> u32 {
    if s >= U256::from(256u16) {
        256
    } else {
        s.as_u32()
    }
}

/// Scratch evaluation of a binary / unary operator (own implementation on ethnum integers).
/// Returns (result, quotient hint).
fn scratch(op: &str, a: U256, b: U256) -> Option<(U256, U256)> {
    let z = U256::ZERO;
    let bool_w = |p: bool| if p { U256::ONE } else { z };
    Some(match op {
        "Add" => (a.wrapping_add(b), z),
        "Multiply" => (a.wrapping_mul(b), z),
        "Subtract" => (a.wrapping_sub(b), z),
        "Divide" => (if b == z { z } else { a / b }, z),
        "SignedDivide" => {
            if b == z {
                (z, z)
            } else {
                let q = abs(a) / abs(b);
                (if is_neg(a) != is_neg(b) { neg(q) } else { q }, z)
            }
        }
        "Modulo" => {
            if b == z {
                (z, z)
            } else {
                (a % b, a / b)
            }
        }
        "SignedModulo" => {
            if b == z {
                (z, z)
            } else {
                let r = abs(a) % abs(b);
                (if is_neg(a) { neg(r) } else { r }, abs(a) / abs(b))
            }
        }
        "Exp" => {
            let (mut r, mut base, mut e) = (U256::ONE, a, b);
            while e != z {
                if e & U256::ONE == U256::ONE {
                    r = r.wrapping_mul(base);
                }
                base = base.wrapping_mul(base);
                e >>= 1u32;
            }
            (r, z)
        }
        "LessThan" => (bool_w(a < b), z),
        "GreaterThan" => (bool_w(a > b), z),
        "SignedLessThan" => (bool_w(signed(a) < signed(b)), z),
        "SignedGreaterThan" => (bool_w(signed(a) > signed(b)), z),
        "Equals" => (bool_w(a == b), z),
        "IsZero" => (bool_w(a == z), z),
        "And" => (a & b, z),
        "Or" => (a | b, z),
        "Xor" => (a ^ b, z),
        "Not" => (!a, z),
        "LeftShift" => (if shift_amount(a) >= 256 { z } else { b << shift_amount(a) }, z),
        "RightShift" => (if shift_amount(a) >= 256 { z } else { b >> shift_amount(a) }, z),
        "ArithmeticRightShift" => {
            let s = shift_amount(a);
            let fill = if is_neg(b) { U256::MAX } else { z };
            (if s >= 256 { fill } else if s == 0 { b } else { (b >> s) | if is_neg(b) { U256::MAX << (256 - s) } else { z } }, z)
        }
        _ => return None,
    })
}

fn sign_extend(b: U256, x: U256) -> U256 {
    if b >= U256::from(31u8) {
        return x;
    }
    let bit = 8 * b.as_u32() + 7;
    let mask = (U256::ONE << (bit + 1)) - U256::ONE;
    if (x >> bit) & U256::ONE == U256::ONE {
        x | !mask
    } else {
        x & mask
    }
}

fn byte_of(i: U256, x: U256) -> U256 {
    if i >= U256::from(32u8) {
        U256::ZERO
    } else {
        (x >> (8 * (31 - i.as_u32()))) & U256::from(0xffu8)
    }
}

/// (a + b) mod n or (a * b) mod n over the unbounded result, with a 64-byte little-endian quotient hint
fn wide_mod(a: U256, b: U256, n: U256, mul: bool) -> (U256, Vec<u8>) {
    if n == U256::ZERO {
        return (U256::ZERO, vec![0; 64]);
    }
    // 512-bit arithmetic on base-2^32 limbs, schoolbook
    let limbs = |w: U256| -> Vec<u64> { w.to_le_bytes().chunks(4).map(|c| u64::from(u32::from_le_bytes([c[0], c[1], c[2], c[3]]))).collect() };
    let (la, lb) = (limbs(a), limbs(b));
    let mut x = vec![0u64; 17];
    if mul {
        for i in 0..8 {
            let mut carry = 0u64;
            for j in 0..8 {
                let t = x[i + j] + la[i] * lb[j] + carry;
                x[i + j] = t & 0xffff_ffff;
                carry = t >> 32;
            }
            x[i + 8] += carry;
        }
    } else {
        let mut carry = 0u64;
        for i in 0..8 {
            let t = la[i] + lb[i] + carry;
            x[i] = t & 0xffff_ffff;
            carry = t >> 32;
        }
        x[8] = carry;
    }
    // long division of the 16-limb number by n, bit by bit
    let mut q = vec![0u8; 64];
    let mut r = U256::ZERO;
    for bit in (0..512).rev() {
        let top = is_neg(r);
        r = (r << 1u32) | U256::from((x[bit / 32] >> (bit % 32)) & 1);
        if top || r >= n {
            r = r.wrapping_sub(n);
            q[bit / 8] |= 1 << (bit % 8);
        }
    }
    (r, q)
}

fn pops(b: u8) -> usize {
    match b {
        0x01..=0x07 | 0x0a | 0x0b | 0x10..=0x14 | 0x16..=0x18 | 0x1a..=0x1d | 0x52 | 0x55 | 0x57 => 2,
        0x08 | 0x09 => 3,
        0x15 | 0x19 | 0x50 | 0x51 | 0x54 | 0x56 => 1,
        0x80..=0x8f => (b - 0x7f) as usize,
        0x90..=0x9f => (b - 0x8e) as usize,
        _ => 0,
    }
}

fn op_name(b: u8) -> &'static str {
    match b {
        0x01 => "Add",
        0x02 => "Multiply",
        0x03 => "Subtract",
        0x04 => "Divide",
        0x05 => "SignedDivide",
        0x06 => "Modulo",
        0x07 => "SignedModulo",
        0x0a => "Exp",
        0x10 => "LessThan",
        0x11 => "GreaterThan",
        0x12 => "SignedLessThan",
        0x13 => "SignedGreaterThan",
        0x14 => "Equals",
        0x15 => "IsZero",
        0x16 => "And",
        0x17 => "Or",
        0x18 => "Xor",
        0x19 => "Not",
        0x1b => "LeftShift",
        0x1c => "RightShift",
        0x1d => "ArithmeticRightShift",
        _ => "?",
    }
}

/// The scratch concrete interpreter along `path`; returns the step records for Evm.tla.
fn scratch_run(code: &[u8], path: &[u32]) -> (Vec<J>, Vec<U256>, Vec<(usize, &'static str)>) {
    let mut stack: Vec<U256> = Vec::new();
    let mut mem: HashMap<U256, U256> = HashMap::new();
    let mut writes: Vec<(U256, U256)> = Vec::new();
    let mut steps = Vec::new();
    let mut tags: Vec<(usize, &'static str)> = Vec::new();
    for (i, pc) in path.iter().enumerate() {
        let pc = *pc as usize;
        let b = code[pc];
        let next: i64 = path.get(i + 1).map_or(-1, |n| i64::from(*n));
        let mut claim: Vec<u8> = vec![];
        let mut hint = le(U256::ZERO);
        let mut hint2: Vec<u8> = vec![0; 64];
        if stack.len() < pops(b) {
            steps.push(json!({"pc": pc, "claim": claim, "hint": hint, "hint2": hint2, "next": next}));
            break;
        }
        let at = |s: &Vec<U256>, k: usize| s[s.len() - 1 - k];
        match b {
            0x5f => stack.push(U256::ZERO),
            0x60..=0x7f => {
                let n = (b - 0x5f) as usize;
                let mut w = [0u8; 32];
                for k in 0..n {
                    w[32 - n + k] = *code.get(pc + 1 + k).unwrap_or(&0);
                }
                stack.push(U256::from_be_bytes(w));
            }
            0x80..=0x8f => stack.push(at(&stack, (b - 0x80) as usize)),
            0x90..=0x9f => {
                let n = (b - 0x8f) as usize;
                let l = stack.len();
                stack.swap(l - 1, l - 1 - n);
            }
            0x50 => {
                stack.pop();
            }
            0x08 | 0x09 => {
                let (a, bb, n) = (at(&stack, 0), at(&stack, 1), at(&stack, 2));
                let (r, q) = wide_mod(a, bb, n, b == 0x09);
                let narrow = if n == U256::ZERO { U256::ZERO } else if b == 0x09 { a.wrapping_mul(bb) % n } else { a.wrapping_add(bb) % n };
                if narrow != r {
                    tags.push((pc, "addmod-overflow"));
                }
                stack.truncate(stack.len() - 3);
                stack.push(r);
                claim = le(r);
                hint2 = q;
            }
            0x0b => {
                let (a, x) = (at(&stack, 0), at(&stack, 1));
                stack.truncate(stack.len() - 2);
                stack.push(sign_extend(a, x));
                tags.push((pc, "signextend"));
            }
            0x1a => {
                let (a, x) = (at(&stack, 0), at(&stack, 1));
                stack.truncate(stack.len() - 2);
                stack.push(byte_of(a, x));
                if a >= (U256::ONE << 253) {
                    tags.push((pc, "byte-huge-offset"));
                }
            }
            0x58 => stack.push(U256::from(pc as u64)),
            0x38 => stack.push(U256::from(code.len() as u64)),
            0x52 => {
                let (off, v) = (at(&stack, 0), at(&stack, 1));
                stack.truncate(stack.len() - 2);
                mem.insert(off, v);
            }
            0x51 => {
                let off = stack.pop().unwrap();
                stack.push(*mem.get(&off).unwrap_or(&U256::ZERO));
            }
            0x54 => {
                let k = stack.pop().unwrap();
                stack.push(writes.iter().rev().find(|(kk, _)| *kk == k).map_or(U256::ZERO, |(_, v)| *v));
            }
            0x55 => {
                let (k, v) = (at(&stack, 0), at(&stack, 1));
                stack.truncate(stack.len() - 2);
                writes.push((k, v));
            }
            0x56 => {
                stack.pop();
            }
            0x57 => {
                stack.truncate(stack.len() - 2);
            }
            0x5b => {}
            _ => {
                let name = op_name(b);
                if name != "?" {
                    let a = at(&stack, 0);
                    let bb = if pops(b) >= 2 { at(&stack, 1) } else { U256::ZERO };
                    if let Some((r, h)) = scratch(name, a, bb) {
                        stack.truncate(stack.len() - pops(b));
                        stack.push(r);
                        claim = le(r);
                        hint = le(h);
                    }
                }
            }
        }
        steps.push(json!({"pc": pc, "claim": claim, "hint": hint, "hint2": hint2, "next": next}));
    }
    let mut offs: Vec<U256> = mem.keys().copied().collect();
    offs.sort();
    tags.sort_unstable();
    tags.dedup();
    (steps, offs, tags)
}

struct Interner {
    ids:   HashMap<usize, usize>,
    nodes: Vec<J>,
    vals:  Vec<Option<U256>>,
}

impl Interner {
    /// Interns `v` (post-order), returns its 1-based id.
    fn intern(&mut self, v: &RuntimeBoxedVal) -> usize {
        let key = std::sync::Arc::as_ptr(v) as *const u8 as usize;
        if let Some(id) = self.ids.get(&key) {
            return *id;
        }
        let kids: Vec<usize> = v.children().iter().map(|c| self.intern(c)).collect();
        let op = values::variant_name(v.data());
        let kv = |i: usize| -> Option<U256> { kids.get(i).and_then(|k| self.vals[*k - 1]) };
        let mut hint = U256::ZERO;
        let (w, claim): (Vec<u8>, Option<U256>) = match v.data() {
            SVD::KnownData { value } => (value.bytes_le().to_vec(), Some(value.value_le())),
            SVD::SLoad { .. } => (vec![], kv(1)),
            SVD::UnwrittenStorageValue { .. } => (vec![], Some(U256::ZERO)),
            SVD::SignExtend { .. } => (vec![], kv(0).zip(kv(1)).map(|(b, x)| sign_extend(b, x))),
            _ => {
                let r = kv(0).and_then(|a| {
                    let b = if kids.len() > 1 { kv(1)? } else { U256::ZERO };
                    scratch(op, a, b)
                });
                if let Some((_, h)) = r {
                    hint = h;
                }
                (vec![], r.map(|(x, _)| x))
            }
        };
        self.nodes.push(json!({"op": op, "w": w, "kids": kids, "claim": claim.map_or(vec![], le), "hint": le(hint),
                               "ip": v.instruction_pointer()}));
        self.vals.push(claim);
        let id = self.nodes.len();
        self.ids.insert(key, id);
        id
    }
}

fn boundary_const(rng: &mut StdRng) -> Vec<u8> {
    let one = U256::ONE;
    let w: U256 = match rng.gen_range(0..12) {
        0 => U256::ZERO,
        1 => one,
        2 => U256::from(rng.gen_range(2u32..300)),
        3 => one << rng.gen_range(1u32..256),
        4 => (one << rng.gen_range(1u32..256)) - one,
        5 => (one << rng.gen_range(1u32..256)) + one,
        6 => one << 255,
        7 => U256::MAX,
        8 => U256::MAX - U256::from(rng.gen_range(0u32..5)),
        9 => U256::from(rng.gen_range(0u32..40)),
        _ => {
            let mut b = [0u8; 32];
            rng.fill(&mut b[..]);
            U256::from_be_bytes(b)
        }
    };
    let be = w.to_be_bytes();
    let first = be.iter().position(|b| *b != 0).unwrap_or(31);
    // sometimes a wider PUSH than needed (leading zero bytes in the immediate)
    let start = if rng.gen_bool(0.15) { first.saturating_sub(rng.gen_range(0..3)) } else { first };
    be[start..].to_vec()
}

/// Stack-safe, loop-free programs over constants: blocks that begin and end at a fixed stack depth,
/// joined by fall-through, forward JUMP and forward JUMPI (at most 5).
pub fn constant_program(rng: &mut StdRng) -> (Vec<u8>, bool) {
    let base = *[2usize, 3, 4, 6, 17].choose(rng).unwrap();
    let nblocks = rng.gen_range(1..7);
    let mut items: Vec<Item> = Vec::new();
    for _ in 0..base {
        items.push(Item::Push(boundary_const(rng)));
    }
    // now and then: the same slot written several times before the first branch (the history that both
    // sides of a fork must inherit in full)
    let alias_kind = rng.gen_bool(0.06);
    let key_forms: Vec<bool> = (0..4).map(|_| rng.gen_bool(0.25)).collect();
    if rng.gen_bool(0.3) {
        let slot = rng.gen_range(0..4u8);
        let mut last = boundary_const(rng);
        for _ in 0..rng.gen_range(2..4) {
            // now and then the same constant again (equal values pushed at different places)
            if rng.gen_bool(0.6) {
                last = boundary_const(rng);
            }
            items.push(Item::Push(last.clone()));
            if key_forms[slot as usize] {
                items.extend([Item::Push(vec![3]), Item::Push(vec![slot + 3]), Item::Op(0x03)]);
            } else {
                items.push(Item::Push(vec![slot]));
            }
            items.push(Item::Op(0x55));
        }
    }
    // now and then: two memory words whose offsets agree in their low bits, written and read back
    if rng.gen_bool(0.2) {
        let low = 32 * rng.gen_range(0u8..4);
        let far: Vec<u8> = match rng.gen_range(0..6) {
            0 => vec![1, 0, low],
            1 => vec![1, 0, 0, 0, low],
            2 => vec![2, 0, 0, 0, 0, low],
            // offsets that agree modulo 2^64 / 2^128 / 2^255 (a host-sized index would merge them)
            3 => [vec![1u8], vec![0; 7], vec![low]].concat(),
            4 => [vec![1u8], vec![0; 15], vec![low]].concat(),
            _ => [vec![0x80u8], vec![0; 30], vec![low]].concat(),
        };
        let key = |slot: u8| -> Vec<Item> {
            if key_forms[slot as usize] {
                vec![Item::Push(vec![3]), Item::Push(vec![slot + 3]), Item::Op(0x03)]
            } else {
                vec![Item::Push(vec![slot])]
            }
        };
        items.extend([Item::Push(boundary_const(rng)), Item::Push(vec![low]), Item::Op(0x52)]);
        items.extend([Item::Push(boundary_const(rng)), Item::Push(far.clone()), Item::Op(0x52)]);
        items.extend([Item::Push(vec![low]), Item::Op(0x51)]);
        items.extend(key(2));
        items.push(Item::Op(0x55));
        items.extend([Item::Push(far), Item::Op(0x51)]);
        items.extend(key(3));
        items.push(Item::Op(0x55));
    }
    let mut jumpis = 0;
    let alu2: [u8; 19] = [0x01, 0x02, 0x03, 0x04, 0x05, 0x06, 0x07, 0x0a, 0x10, 0x11, 0x12, 0x13, 0x14, 0x16, 0x17, 0x18, 0x1b, 0x1c, 0x1d];
    for blk in 0..nblocks {
        if blk > 0 {
            items.push(Item::Label(blk));
        }
        let mut d = base;
        for _ in 0..rng.gen_range(2..10) {
            match rng.gen_range(0..16) {
                0 | 1 if d < 20 => {
                    items.push(Item::Push(boundary_const(rng)));
                    d += 1;
                }
                2 if d >= 1 && d < 20 => {
                    let n = rng.gen_range(1..=d.min(16));
                    items.push(Item::Op(0x7f + n as u8));
                    d += 1;
                }
                3 if d >= 2 => {
                    let n = rng.gen_range(1..=(d - 1).min(16));
                    items.push(Item::Op(0x8f + n as u8));
                }
                4 if d > base => {
                    items.push(Item::Op(0x50));
                    d -= 1;
                }
                5..=8 if d >= 2 => {
                    let op = *alu2.choose(rng).unwrap();
                    // keep EXP cheap for the acceptor: small exponents only (the exponent is the second operand)
                    if op == 0x0a {
                        items.push(Item::Push(vec![rng.gen_range(0..40)]));
                        items.push(Item::Op(0x90));
                        items.push(Item::Op(0x0a));
                        // PUSH e; SWAP1; EXP  computes top ** e ... net effect: depth unchanged
                    } else if (0x1b..=0x1d).contains(&op) && rng.gen_bool(0.4) {
                        // shift amounts at the edges of the word
                        let i = *[0u16, 1, 7, 8, 248, 254, 255, 256, 257].choose(rng).unwrap();
                        items.push(Item::Push(if i < 256 { vec![i as u8] } else { vec![(i >> 8) as u8, i as u8] }));
                        items.push(Item::Op(op));
                    } else {
                        items.push(Item::Op(op));
                        d -= 1;
                    }
                }
                9 if d >= 1 => items.push(Item::Op(*[0x15u8, 0x19].choose(rng).unwrap())),
                10 if d >= 3 => {
                    items.push(Item::Op(*[0x08u8, 0x09].choose(rng).unwrap()));
                    d -= 2;
                }
                11 if d >= 2 => {
                    let op = if rng.gen_bool(0.2) { 0x0b } else { 0x1a };
                    if rng.gen_bool(0.5) {
                        // the index operand at the edges of the word: PUSH i; OP leaves the depth unchanged
                        let i = *[0u16, 1, 2, 15, 16, 29, 30, 31, 32, 33, 63, 255, 256].choose(rng).unwrap();
                        items.push(Item::Push(if i < 256 { vec![i as u8] } else { vec![(i >> 8) as u8, i as u8] }));
                        items.push(Item::Op(op));
                    } else {
                        items.push(Item::Op(op));
                        d -= 1;
                    }
                }
                12 if d < 20 => {
                    items.push(Item::Op(*[0x58u8, 0x38].choose(rng).unwrap()));
                    d += 1;
                }
                13 if d >= 1 => {
                    // memory at a word-aligned offset: mostly small, now and then far out (offsets that agree in
                    // their low 16 or 32 bits are different places)
                    let low = 32 * rng.gen_range(0u8..4);
                    let off: Vec<u8> = match rng.gen_range(0..8) {
                        0 => vec![1, 0, low],             // 2^16 + low
                        1 => vec![1, 0, 0, 0, low],       // 2^32 + low
                        2 => vec![2, 0, 0, 0, 0, low],    // 2^41 + low
                        _ => vec![low],
                    };
                    if rng.gen_bool(0.5) && d > base {
                        items.extend([Item::Push(off), Item::Op(0x52)]);
                        d -= 1;
                    } else if d < 20 {
                        items.extend([Item::Push(off), Item::Op(0x51)]);
                        d += 1;
                    }
                }
                14 | 15 if d >= 1 => {
                    // storage at a constant key (now and then a computed one)
                    // every slot is always addressed through the same key expression within a program
                    // (a literal, or one fixed constant expression), unless the program is of the
                    // deliberately aliasing kind
                    let slot = rng.gen_range(0..4u8);
                    let computed = key_forms[slot as usize] || (alias_kind && rng.gen_bool(0.5));
                    let key = if !computed {
                        vec![Item::Push(vec![slot])]
                    } else {
                        vec![Item::Push(vec![3]), Item::Push(vec![slot + 3]), Item::Op(0x03)] // (slot + 3) - 3
                    };
                    if rng.gen_bool(0.5) && d > base {
                        if rng.gen_bool(0.25) {
                            // the same value stored twice in a row: both writes belong to the history
                            items.push(Item::Op(0x80));
                            items.extend(key.clone());
                            items.push(Item::Op(0x55));
                        }
                        items.extend(key);
                        items.push(Item::Op(0x55));
                        d -= 1;
                    } else if d < 20 {
                        items.extend(key);
                        items.push(Item::Op(0x54));
                        d += 1;
                    }
                }
                _ => {}
            }
        }
        // what the block computed is kept where the final state shows it (memory, storage) rather than dropped
        while d > base {
            match rng.gen_range(0..10) {
                0..=3 => items.extend([Item::Push(vec![32 * rng.gen_range(0u8..8)]), Item::Op(0x52)]),
                4..=6 => {
                    let slot = rng.gen_range(0..4u8);
                    if key_forms[slot as usize] {
                        items.extend([Item::Push(vec![3]), Item::Push(vec![slot + 3]), Item::Op(0x03)]);
                    } else {
                        items.push(Item::Push(vec![slot]));
                    }
                    items.push(Item::Op(0x55));
                }
                _ => items.push(Item::Op(0x50)),
            }
            d -= 1;
        }
        while d < base {
            items.push(Item::Push(vec![0]));
            d += 1;
        }
        if blk + 1 < nblocks {
            let target = rng.gen_range(blk + 1..nblocks);
            match rng.gen_range(0..4) {
                0 if jumpis < 5 => {
                    items.extend([Item::Push(boundary_const(rng)), Item::PushLabel { label: target, width: 2, high: 0, delta: 0 }, Item::Op(0x57)]);
                    jumpis += 1;
                }
                1 if jumpis < 5 => {
                    // the condition computed from the stack
                    items.extend([Item::Op(0x80), Item::Op(0x15), Item::PushLabel { label: target, width: 2, high: 0, delta: 0 }, Item::Op(0x57)]);
                    jumpis += 1;
                }
                2 => items.extend([Item::PushLabel { label: target, width: 2, high: 0, delta: 0 }, Item::Op(0x56)]),
                _ => {}
            }
        }
    }
    items.push(Item::Op(0x00));
    (assemble(&items), alias_kind)
}

fn put_path_records(w: &mut Ndjson, code: &[u8], fam: &str) -> (usize, usize) {
    let lim = Limits {
        l:    3,
        f:    40,
        g:    30_000_000,
        perm: false,
    };
    let code2 = code.to_vec();
    verif::start();
    let r = guarded(move || {
        let stream = InstructionStream::try_from(code2.as_slice()).map_err(|e| format!("{:?}", e.payload))?;
        let mut vm = VM::new(stream, vm_config(&lim), ScriptedWatchdog::new(1_000_000, None, 5_000_000)).map_err(|e| format!("{:?}", e.payload))?;
        let res = vm.execute();
        Ok::<_, String>((res.is_ok(), vm.consume()))
    });
    let events = verif::take();
    let (_ok, result) = match r {
        Ok(Ok(x)) => x,
        Ok(Err(e)) => {
            w.put(&json!({"ev": "path-setup-error", "hex": hex::encode(code), "msg": e}));
            return (0, 0);
        }
        Err(p) => {
            w.put(&json!({"ev": "path-panic", "hex": hex::encode(code), "family": fam, "msg": p}));
            return (0, 0);
        }
    };
    // per-thread paths from the events
    let mut own: HashMap<u64, Vec<u32>> = HashMap::new();
    let mut prefix: HashMap<u64, Vec<u32>> = HashMap::new();
    let mut retired: Vec<u64> = Vec::new();
    prefix.insert(0, vec![]);
    for e in &events {
        match e {
            Event::Exec { tid, ip, text, .. } => {
                if text != "NOP" {
                    own.entry(*tid).or_default().push(*ip);
                }
            }
            Event::Fork { parent, child, from, .. } => {
                let mut p = prefix.get(parent).cloned().unwrap_or_default();
                p.extend(own.get(parent).cloned().unwrap_or_default());
                p.push(*from);
                prefix.insert(*child, p);
            }
            Event::Advance { tid, next: None, .. } => retired.push(*tid),
            _ => {}
        }
    }
    let mut paths = 0;
    let mut nodes_total = 0;
    for (i, tid) in retired.iter().enumerate() {
        let Some(state) = result.states.get(i) else { break };
        let mut path = prefix.get(tid).cloned().unwrap_or_default();
        path.extend(own.get(tid).cloned().unwrap_or_default());
        let (steps, mem_offsets, tags) = scratch_run(code, &path);
        let mut it = Interner {
            ids:   HashMap::new(),
            nodes: vec![],
            vals:  vec![],
        };
        let depth = state.stack().depth();
        let stack: Vec<usize> = (0..depth).filter_map(|d| state.stack().read(d as u32).ok().map(|v| it.intern(v))).collect();
        // memory words at the constant offsets this path wrote (constant offsets are only reachable
        // through `load`, which needs a mutable memory: a clone is loaded from)
        let mut memory = Vec::new();
        let mut mem_clone = state.memory().clone();
        // values created here must outlive the interner, which identifies nodes by address
        let mut keep_alive: Vec<RuntimeBoxedVal> = Vec::new();
        for off in &mem_offsets {
            let off_val = storage_layout_extractor::vm::value::RSV::new_known_value(
                0,
                storage_layout_extractor::vm::value::known::KnownWord::from_le(*off),
                storage_layout_extractor::vm::value::Provenance::Synthetic,
                None,
            );
            let v = mem_clone.load(&off_val);
            let o = it.intern(&off_val);
            let g = vec![it.intern(&v)];
            keep_alive.push(off_val);
            keep_alive.push(v);
            memory.push(json!([o, g]));
        }
        let mut storage = Vec::new();
        for key in state.storage().keys() {
            let gens = state.storage().generations(key).unwrap_or_default();
            let k = it.intern(key);
            let g: Vec<usize> = gens.iter().map(|v| it.intern(v)).collect();
            storage.push(json!([k, g]));
        }
        nodes_total += it.nodes.len();
        drop(keep_alive);
        // where on this path an instruction ran into one of the known findings: the nodes built there
        // (and everything computed from them) are excused, nothing else on the path is
        let taint: Vec<J> = tags.iter().map(|(pc, t)| json!([pc, t])).collect();
        let mut tags: Vec<&'static str> = Vec::new();
        // the known finding about structural keys applies to programs that themselves address one slot
        // through two different key expressions (the generator says which those are)
        if fam == "constant-program/key-alias" {
            tags.push("key-alias");
        }
        tags.sort_unstable();
        tags.dedup();
        w.put(&json!({"ev": "path", "family": fam, "hex": hex::encode(code), "code": code, "tid": tid,
                      "steps": steps, "nodes": it.nodes, "stack": stack, "memory": memory, "storage": storage, "tags": tags, "taint": taint}));
        paths += 1;
    }
    (paths, nodes_total)
}

/// The operator grid: every ALU opcode of the fragment on operands from the boundary sets of their roles
/// (values; byte / bit indices for BYTE, SIGNEXTEND and the shifts; moduli for ADDMOD / MULMOD), one cell
/// `PUSH.. OP PUSH slot SSTORE` each, so that every result is part of the final state.
pub fn grid_cells() -> Vec<Vec<Item>> {
    let one = U256::ONE;
    let values: Vec<U256> = vec![U256::ZERO, one, U256::from(0x1234u32), U256::from(0x80u32), U256::from(0xffu32), U256::from(0x7fffu32),
                                 one << 255, U256::MAX, U256::MAX - one, (one << 255) - one, (one << 128) + U256::from(0x81u32),
                                 U256::from_be_bytes([0xa5; 32])];
    let indices: Vec<U256> = vec![U256::ZERO, one, U256::from(2u32), U256::from(7u32), U256::from(8u32), U256::from(15u32), U256::from(30u32),
                                  U256::from(31u32), U256::from(32u32), U256::from(33u32), U256::from(248u32), U256::from(255u32),
                                  U256::from(256u32), U256::from(257u32), one << 64, one << 253, one << 255, U256::MAX];
    let push = |w: &U256| {
        let be = w.to_be_bytes();
        let first = be.iter().position(|b| *b != 0).unwrap_or(31);
        Item::Push(be[first..].to_vec())
    };
    let mut cells = Vec::new();
    // binary operators: a is the top of the stack
    for op in [0x01u8, 0x02, 0x03, 0x04, 0x05, 0x06, 0x07, 0x10, 0x11, 0x12, 0x13, 0x14, 0x16, 0x17, 0x18] {
        for a in &values {
            for b in &values {
                cells.push(vec![push(b), push(a), Item::Op(op)]);
            }
        }
    }
    // EXP with small exponents (the acceptor recomputes it)
    for a in &values {
        for e in [0u32, 1, 2, 3, 8, 31, 32, 255, 256] {
            cells.push(vec![push(&U256::from(e)), push(a), Item::Op(0x0a)]);
        }
    }
    // index first, value second
    for op in [0x0bu8, 0x1a, 0x1b, 0x1c, 0x1d] {
        for i in &indices {
            for v in &values {
                cells.push(vec![push(v), push(i), Item::Op(op)]);
            }
        }
    }
    for op in [0x15u8, 0x19] {
        for a in &values {
            cells.push(vec![push(a), Item::Op(op)]);
        }
    }
    for op in [0x08u8, 0x09] {
        for a in &values {
            for b in &values {
                for n in [U256::ZERO, one, U256::from(3u32), U256::from(0x100u32), one << 255, U256::MAX] {
                    cells.push(vec![push(&n), push(b), push(a), Item::Op(op)]);
                }
            }
        }
    }
    cells
}

/// The same operators with their result used as a *memory offset*: `PUSH marker; PUSH b; PUSH a; OP; PUSH32 (E ^ 32k);
/// XOR; MSTORE`, where E is what the EVM computes for the cell.  Concretely the marker lands at offset 32k; the tool
/// folds the offset expression, and if its folding of the operator is wrong anywhere in the word the marker lands
/// somewhere else.  (A result that is only stored is kept as an expression and evaluated by the checker, so a wrong
/// fold would not show there.)  Operators with known findings (SIGNEXTEND, BYTE, ADDMOD, MULMOD) are left out.
pub fn fold_offset_programs() -> Vec<Vec<u8>> {
    let one = U256::ONE;
    let values: Vec<U256> = vec![U256::ZERO, one, U256::from(0x80u32), U256::from(0xffu32), one << 255, U256::MAX, U256::MAX - one,
                                 (one << 255) - one, (one << 255) + one];
    let indices: Vec<U256> = vec![U256::ZERO, one, U256::from(8u32), U256::from(255u32), U256::from(256u32), U256::from(257u32), one << 32,
                                  one << 64, one << 255, U256::MAX];
    let push = |w: &U256| {
        let be = w.to_be_bytes();
        let first = be.iter().position(|b| *b != 0).unwrap_or(31);
        Item::Push(be[first..].to_vec())
    };
    // (top, second, op)
    let mut cells: Vec<(U256, U256, u8)> = Vec::new();
    for op in [0x01u8, 0x02, 0x03, 0x04, 0x05, 0x06, 0x07, 0x10, 0x11, 0x12, 0x13, 0x14, 0x16, 0x17, 0x18] {
        for a in &values {
            for b in &values {
                cells.push((*a, *b, op));
            }
        }
    }
    for a in &values {
        for e in [0u32, 1, 2, 3, 8, 255, 256] {
            cells.push((*a, U256::from(e), 0x0a));
        }
        cells.push((*a, (one << 32) + one, 0x0a));
    }
    for op in [0x1bu8, 0x1c, 0x1d] {
        for i in &indices {
            for v in &values {
                cells.push((*i, *v, op));
            }
        }
    }
    let mut programs = Vec::new();
    for chunk in cells.chunks(12) {
        let mut items = Vec::new();
        for (k, (top, second, op)) in chunk.iter().enumerate() {
            let Some((e, _)) = scratch(op_name(*op), *top, *second) else { continue };
            items.push(Item::Push(vec![0x4d, k as u8 + 1]));
            items.extend([push(second), push(top), Item::Op(*op)]);
            items.push(Item::Push((e ^ U256::from(32 * k as u32)).to_be_bytes().to_vec()));
            items.extend([Item::Op(0x18), Item::Op(0x52)]);
        }
        items.push(Item::Op(0x00));
        programs.push(assemble(&items));
    }
    programs
}

fn grid_programs(rng: &mut StdRng, fraction: usize) -> Vec<Vec<u8>> {
    let mut cells = grid_cells();
    cells.shuffle(rng);
    let take = cells.len() / fraction.max(1);
    cells.truncate(take);
    cells
        .chunks(12)
        .map(|chunk| {
            let mut items = Vec::new();
            for (k, cell) in chunk.iter().enumerate() {
                items.extend(cell.iter().cloned());
                items.extend([Item::Push(vec![k as u8]), Item::Op(0x55)]);
            }
            items.push(Item::Op(0x00));
            assemble(&items)
        })
        .collect()
}

pub fn trace(o: &Opts) -> R<()> {
    let seed: u64 = o.num("seed", 1);
    let n: usize = o.num("programs", 100);
    let shards: usize = o.num("shards", 1);
    let prefix = o.str("out")?;
    let mut rng = StdRng::seed_from_u64(seed ^ 0xc07);
    let mut ws = Vec::new();
    for s in 0..shards {
        let mut w = Ndjson::create(&format!("{prefix}.{s}.ndjson"))?;
        w.put(&json!({"ev": "begin"}));
        ws.push(w);
    }
    let mut paths = 0;
    let mut nodes = 0;
    for i in 0..n {
        let (code, alias) = constant_program(&mut rng);
        let (p, nn) = put_path_records(&mut ws[i % shards], &code, if alias { "constant-program/key-alias" } else { "constant-program" });
        paths += p;
        nodes += nn;
    }
    let grid = grid_programs(&mut rng, o.num("grid-fraction", 3));
    let n_grid = grid.len();
    for (i, code) in grid.iter().enumerate() {
        let (p, nn) = put_path_records(&mut ws[i % shards], code, "operator-grid");
        paths += p;
        nodes += nn;
    }
    let fold = fold_offset_programs();
    let n_fold = fold.len();
    for (i, code) in fold.iter().enumerate() {
        let (p, nn) = put_path_records(&mut ws[i % shards], code, "fold-offset");
        paths += p;
        nodes += nn;
    }
    let mut recs = 0;
    for w in ws {
        recs += w.finish();
    }
    println!("{}", json!({"fold_offset_programs": n_fold, "programs": n + n_grid + n_fold, "grid_programs": n_grid, "grid_cells_total": grid_cells().len(), "paths": paths, "nodes": nodes, "records": recs}));
    Ok(())
}

pub fn one(o: &Opts) -> R<()> {
    let code = unhex(&o.str("hex")?)?;
    let mut w = Ndjson::create(&o.str("out")?)?;
    w.put(&json!({"ev": "begin"}));
    put_path_records(&mut w, &code, "replay");
    w.finish();
    Ok(())
}
