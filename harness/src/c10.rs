//! C10: the disassembler against `spec/Disasm.tla`.
//!
//! Everything is observed through public API: `InstructionStream::try_from`,
//! `len`, `as_bytecode`, and per-offset `ExecutionThread::instruction(i)` with
//! its concrete opcode type and encoding.

use rand::{rngs::StdRng, Rng, SeedableRng};
use serde_json::{json, Value as J};
use storage_layout_extractor::{
    disassembly::InstructionStream,
    opcode::{
        control::{Invalid, JumpDest, Nop},
        memory::PushN,
    },
};

use crate::util::{guarded, unhex, write_json, Ndjson, Opts, R};

/// What the real disassembler did with `code`.
pub struct Observation {
    pub ok:    bool,
    pub err:   Option<String>,
    pub panic: Option<String>,
    pub n:     usize,
    /// one of P(ush) N(op: immediate filler) J(umpdest) I(nvalid) O(ther) per entry
    pub kinds: Vec<char>,
    /// encoded length of each entry
    pub enc:   Vec<usize>,
    /// first encoded byte of each entry (or -1)
    pub first: Vec<i64>,
    pub rt:    bool,
}

pub fn observe(code: &[u8]) -> Observation {
    let mut o = Observation {
        ok:    false,
        err:   None,
        panic: None,
        n:     0,
        kinds: vec![],
        enc:   vec![],
        first: vec![],
        rt:    false,
    };
    let r = guarded(|| InstructionStream::try_from(code));
    match r {
        Err(p) => o.panic = Some(p),
        Ok(Err(e)) => o.err = Some(format!("{:?}", e.payload)),
        Ok(Ok(stream)) => {
            let inner = guarded(|| {
                let n = stream.len();
                let rt = stream.as_bytecode().as_slice() == code;
                let mut kinds = Vec::with_capacity(n);
                let mut enc = Vec::with_capacity(n);
                let mut first = Vec::with_capacity(n);
                if let Ok(thread) = stream.new_thread(0) {
                    for i in 0..n {
                        let Some(op) = thread.instruction(u32::try_from(i).unwrap()) else {
                            kinds.push('?');
                            enc.push(0);
                            first.push(-1);
                            continue;
                        };
                        let any = op.as_ref().as_any();
                        let k = if any.is::<JumpDest>() {
                            'J'
                        } else if any.is::<Nop>() {
                            'N'
                        } else if any.is::<PushN>() {
                            'P'
                        } else if any.is::<Invalid>() {
                            'I'
                        } else {
                            'O'
                        };
                        let e = op.encode();
                        kinds.push(k);
                        enc.push(e.len());
                        first.push(e.first().map_or(-1, |b| i64::from(*b)));
                    }
                }
                (n, rt, kinds, enc, first)
            });
            match inner {
                Err(p) => o.panic = Some(p),
                Ok((n, rt, kinds, enc, first)) => {
                    o.ok = true;
                    o.n = n;
                    o.rt = rt;
                    o.kinds = kinds;
                    o.enc = enc;
                    o.first = first;
                }
            }
        }
    }
    o
}

fn whole_record(code: &[u8], o: &Observation, src: &str) -> J {
    let mut v = json!({
        "ev": "whole", "src": src,
        "code": code, "ok": o.ok, "n": o.n, "rt": o.rt,
        "kinds": o.kinds.iter().map(|c| c.to_string()).collect::<Vec<_>>(),
        "enc": o.enc,
    });
    if let Some(p) = &o.panic {
        v["panic"] = json!(p);
    }
    if let Some(e) = &o.err {
        v["err"] = json!(e);
    }
    v
}

fn stream_records(w: &mut Ndjson, code: &[u8], o: &Observation, src: &str) {
    let mut b = json!({"ev": "sbegin", "src": src, "len": code.len(), "ok": o.ok, "n": o.n, "rt": o.rt});
    if let Some(p) = &o.panic {
        b["panic"] = json!(p);
    }
    if let Some(e) = &o.err {
        b["err"] = json!(e);
    }
    w.put(&b);
    if o.ok && o.n == code.len() {
        // The harness's own boundary scan decides where to offer a flush; the acceptor
        // only takes it when its machine is at a boundary too, so a wrong scan rejects.
        let mut boundary = vec![false; code.len()];
        let mut i = 0;
        while i < code.len() {
            boundary[i] = true;
            if (0x60..=0x7f).contains(&code[i]) {
                i += (code[i] - 0x5f) as usize;
            }
            i += 1;
        }
        let mut since = 0;
        for (i, byte) in code.iter().enumerate() {
            if since >= 256 && boundary[i] {
                w.put(&json!({"ev": "sflush"}));
                since = 0;
            }
            w.put(&json!({"ev": "sbyte", "b": byte, "k": o.kinds[i].to_string(), "enc": o.enc[i]}));
            since += 1;
        }
    }
    w.put(&json!({"ev": "send"}));
}

/// Replays the cases TLC enumerated (spec -> impl).
pub fn replay(o: &Opts) -> R<()> {
    let cases = std::fs::read_to_string(o.str("cases")?).map_err(|e| e.to_string())?;
    let mut n = 0u64;
    let mut bad = Vec::new();
    let mut nbad = 0u64;
    let mut kinds_seen = std::collections::BTreeMap::new();
    for line in cases.lines().filter(|l| !l.trim().is_empty()) {
        let c: J = serde_json::from_str(line).map_err(|e| e.to_string())?;
        let code: Vec<u8> = c["code"].as_array().ok_or("code")?.iter().map(|b| b.as_u64().unwrap() as u8).collect();
        let want: Vec<&str> = c["kinds"].as_array().ok_or("kinds")?.iter().map(|k| k.as_str().unwrap()).collect();
        let obs = observe(&code);
        n += 1;
        let mut why = None;
        if !obs.ok {
            why = Some(format!("rejected: {:?}{:?}", obs.err, obs.panic));
        } else if obs.n != code.len() {
            why = Some(format!("{} entries for {} bytes", obs.n, code.len()));
        } else if !obs.rt {
            why = Some("re-encoding differs".to_string());
        } else {
            for (i, k) in want.iter().enumerate() {
                *kinds_seen.entry((*k).to_string()).or_insert(0u64) += 1;
                let got = obs.kinds[i];
                let fine = match *k {
                    "push" => got == 'P' && obs.enc[i] == (code[i] as usize - 0x5f) + 1,
                    "imm" => got == 'N' && obs.enc[i] == 0,
                    "jumpdest" => got == 'J',
                    "op" => got == 'O',
                    "invalid" => got == 'I',
                    "trunc" => got != 'J',
                    _ => false,
                };
                if !fine {
                    why = Some(format!("offset {i}: model says {k}, real entry is {got}"));
                    break;
                }
            }
        }
        if let Some(w) = why {
            nbad += 1;
            if bad.len() < 50 {
                let sig = if !obs.ok {
                    if c["status"] == "truncated" { "rejected:truncated" } else { "rejected:complete" }
                } else {
                    "classification"
                };
                bad.push(json!({"hex": hex::encode(&code), "why": w, "status": c["status"], "sig": sig}));
            }
        }
    }
    write_json(&o.str("out")?, &json!({"cases": n, "mismatching": nbad, "mismatches": bad, "entry_kinds": kinds_seen}))
}

fn corpus(o: &Opts) -> R<Vec<(String, Vec<u8>)>> {
    let Some(p) = o.get("corpus") else { return Ok(vec![]) };
    let v: J = serde_json::from_str(&std::fs::read_to_string(p).map_err(|e| e.to_string())?).map_err(|e| e.to_string())?;
    let mut out = Vec::new();
    for c in v.as_array().ok_or("corpus")? {
        out.push((c["name"].as_str().unwrap_or("?").to_string(), unhex(c["hex"].as_str().unwrap_or(""))?));
    }
    Ok(out)
}

/// Records observations of the real disassembler on the quantifier's input
/// families for `DisasmTrace.tla` (impl -> spec).
pub fn trace(o: &Opts) -> R<()> {
    let seed: u64 = o.num("seed", 1);
    let thorough = o.flag("thorough");
    let shards: usize = o.num("shards", 1);
    let prefix = o.str("out")?;
    let mut ws: Vec<Ndjson> = Vec::new();
    for s in 0..shards {
        let mut w = Ndjson::create(&format!("{prefix}.{s}.ndjson"))?;
        w.put(&json!({"ev": "begin"}));
        ws.push(w);
    }
    let mut rng = StdRng::seed_from_u64(seed);
    let mut count = 0usize;
    let mut fams = std::collections::BTreeMap::new();
    let put_whole = |ws: &mut Vec<Ndjson>, code: &[u8], src: &str, count: &mut usize| {
        let obs = observe(code);
        ws[*count % shards].put(&whole_record(code, &obs, src));
        *count += 1;
    };
    // 1. every string of length 1
    for b in 0..=255u8 {
        put_whole(&mut ws, &[b], "len1", &mut count);
    }
    *fams.entry("len1").or_insert(0) += 256;
    // 2. strings of length 2: all (thorough) or a stratified sample (quick)
    for a in 0..=255u8 {
        for b in 0..=255u8 {
            let take = thorough || rng.gen_range(0..8) == 0 || (0x5b..=0x7f).contains(&a) && rng.gen_range(0..2) == 0;
            if take {
                put_whole(&mut ws, &[a, b], "len2", &mut count);
                *fams.entry("len2").or_insert(0) += 1;
            }
        }
    }
    // 3. every opcode byte followed by every truncation length of its immediate
    for op in 0..=255u8 {
        let n = if (0x60..=0x7f).contains(&op) { (op - 0x5f) as usize } else { 0 };
        for have in 0..=n {
            for fill in [0x00u8, 0x5b, 0x60, 0xff] {
                let mut code = vec![op];
                code.extend(std::iter::repeat(fill).take(have));
                put_whole(&mut ws, &code, "truncation", &mut count);
                // ... and the same after a leading instruction, and followed by a JUMPDEST when complete
                let mut c2 = vec![0x5b];
                c2.extend(&code);
                if have == n {
                    c2.push(0x5b);
                }
                put_whole(&mut ws, &c2, "truncation", &mut count);
                *fams.entry("truncation").or_insert(0) += 2;
            }
        }
    }
    // 4. PUSHn whose immediates consist of JUMPDEST / PUSH bytes, chained
    let chains = if thorough { 4000 } else { 400 };
    for _ in 0..chains {
        let mut code = Vec::new();
        for _ in 0..rng.gen_range(1..6) {
            let n = rng.gen_range(1..=32u8);
            code.push(0x5f + n);
            for _ in 0..n {
                code.push(*[0x5bu8, 0x60, 0x7f, 0x61, 0x5b, 0x00].get(rng.gen_range(0..6)).unwrap());
            }
            if rng.gen_bool(0.5) {
                code.push(0x5b);
            }
        }
        if rng.gen_bool(0.3) {
            let cut = rng.gen_range(1..=code.len());
            code.truncate(cut);
        }
        put_whole(&mut ws, &code, "push-of-jumpdests", &mut count);
        *fams.entry("push-of-jumpdests").or_insert(0) += 1;
    }
    // 5. short random strings
    let shorts = if thorough { 20000 } else { 1500 };
    for _ in 0..shorts {
        let len = rng.gen_range(3..=48);
        let code: Vec<u8> = (0..len)
            .map(|_| if rng.gen_bool(0.35) { rng.gen_range(0x5bu8..=0x7f) } else { rng.gen() })
            .collect();
        put_whole(&mut ws, &code, "random-short", &mut count);
        *fams.entry("random-short").or_insert(0) += 1;
    }
    // 6. long random strings up to the 24 KiB limit: streamed byte by byte
    let longs = if thorough { 12 } else { 2 };
    for i in 0..longs {
        let len = if i == 0 { 24_576 } else { rng.gen_range(1000..24_576) };
        let code: Vec<u8> = (0..len).map(|_| rng.gen()).collect();
        let obs = observe(&code);
        stream_records(&mut ws[count % shards], &code, &obs, "random-long");
        count += 1;
        *fams.entry("random-long").or_insert(0) += 1;
    }
    // 7. real contracts: whole (streamed) and truncated at every offset within 33 bytes after a PUSH
    let real = corpus(o)?;
    let mut streamed = 0;
    for (name, code) in &real {
        if code.len() < 64 {
            continue;
        }
        if streamed < if thorough { 40 } else { 3 } {
            let obs = observe(code);
            stream_records(&mut ws[count % shards], code, &obs, name);
            count += 1;
            streamed += 1;
            *fams.entry("real-whole").or_insert(0) += 1;
        }
        // truncations: keep the tail short by cutting a window around a PUSH
        let pushes: Vec<usize> = {
            let mut v = Vec::new();
            let mut i = 0;
            while i < code.len() {
                if (0x60..=0x7f).contains(&code[i]) {
                    v.push(i);
                    i += (code[i] - 0x5f) as usize;
                }
                i += 1;
            }
            v
        };
        let per = if thorough { 12 } else { 2 };
        for _ in 0..per {
            if pushes.is_empty() {
                break;
            }
            let p = pushes[rng.gen_range(0..pushes.len())];
            // start the window at an instruction boundary a little before the PUSH
            let start = pushes.iter().rev().find(|q| **q + 40 < p).copied().unwrap_or(0).max(p.saturating_sub(200));
            let start = pushes.iter().find(|q| **q >= start).copied().unwrap_or(p);
            for cut in (p + 1)..=(p + 34).min(code.len()) {
                put_whole(&mut ws, &code[start..cut], "real-truncated", &mut count);
                *fams.entry("real-truncated").or_insert(0) += 1;
            }
        }
    }
    let mut recs = 0;
    for w in ws {
        recs += w.finish();
    }
    println!("{}", json!({"inputs": count, "records": recs, "families": fams}));
    Ok(())
}

/// One input, for `--replay`.
pub fn one(o: &Opts) -> R<()> {
    let code = unhex(&o.str("hex")?)?;
    let mut w = Ndjson::create(&o.str("out")?)?;
    w.put(&json!({"ev": "begin"}));
    let obs = observe(&code);
    w.put(&whole_record(&code, &obs, "replay"));
    w.finish();
    Ok(())
}
