//! C16: the real `unification::merge` on every ordered pair and triple of the
//! evidence domain of the property, recorded for `LatticeTrace.tla`.

use ethnum::U256;
use serde_json::{json, Value as J};
use storage_layout_extractor::tc::{
    expression::{TypeExpression as TE, WordUse},
    state::{type_variable::TypeVariable, TypeCheckerState},
    unification::{merge, Merge},
};

use crate::util::{guarded, Ndjson, Opts, R};

pub fn usage_name(u: WordUse) -> &'static str {
    match u {
        WordUse::Bytes => "bytes",
        WordUse::Numeric => "numeric",
        WordUse::UnsignedNumeric => "unsigned",
        WordUse::SignedNumeric => "signed",
        WordUse::Bool => "bool",
        WordUse::Address => "address",
        WordUse::Selector => "selector",
        WordUse::Function => "function",
    }
}

pub fn idx(v: TypeVariable) -> usize {
    use storage_layout_extractor::data::vector_map::ToUniqueIndex;
    v.index()
}

/// The JSON shape shared with TypeLattice.tla.
pub fn te_json(e: &TE) -> J {
    match e {
        TE::Any => json!({"k": "any"}),
        TE::Bytes => json!({"k": "bytes"}),
        TE::Word { width, usage } => json!({"k": "word", "u": usage_name(*usage), "w": width.unwrap_or(0)}),
        TE::Mapping { key, value } => json!({"k": "map", "key": idx(*key), "val": idx(*value)}),
        TE::DynamicArray { element } => json!({"k": "dyn", "el": idx(*element)}),
        TE::FixedArray { element, length } => {
            // lengths only ever need comparing for equality: small ones as they are, large ones (TLC integers are
            // 32-bit) as a negative code that is injective on the lengths the generators use
            let code: i64 = match u32::try_from(*length) {
                Ok(n) if n < (1 << 30) => i64::from(n),
                _ => -(1 + (*length % U256::from(1_073_741_789u32)).as_u64() as i64),
            };
            json!({"k": "fix", "el": idx(*element), "len": code})
        }
        TE::Conflict { .. } => json!({"k": "conflict"}),
        TE::Equal { id } => json!({"k": "eq", "id": idx(*id)}),
        TE::Packed { types, is_struct } => json!({
            "k": "packed", "struct": is_struct,
            "spans": types.iter().map(|s| json!([idx(s.typ), s.offset, s.size])).collect::<Vec<_>>(),
        }),
    }
}

fn domain(x: TypeVariable, y: TypeVariable) -> Vec<TE> {
    let mut d = vec![TE::Any, TE::Bytes, TE::Conflict { conflicts: vec![], reasons: vec!["seed".into()] }];
    for u in [WordUse::Bytes, WordUse::Numeric, WordUse::UnsignedNumeric, WordUse::SignedNumeric] {
        for w in [None, Some(8), Some(32), Some(160), Some(192), Some(256)] {
            d.push(TE::word(w, u));
        }
    }
    d.extend([TE::bool(), TE::address(), TE::selector(), TE::function()]);
    for k in [x, y] {
        for v in [x, y] {
            d.push(TE::mapping(k, v));
        }
    }
    d.extend([TE::dyn_array(x), TE::dyn_array(y)]);
    d.push(TE::FixedArray { element: x, length: U256::from(3u32) });
    d.push(TE::FixedArray { element: y, length: U256::from(3u32) });
    d.push(TE::FixedArray { element: x, length: U256::from(5u32) });
    d
}

fn res_json(e: &TE, eqs: &[(usize, usize)]) -> J {
    json!({"e": te_json(e), "eqs": eqs.iter().map(|(a, b)| json!([a, b])).collect::<Vec<_>>()})
}

fn step(a: TE, b: TE, parent: TypeVariable, state: &mut TypeCheckerState, eqs: &mut Vec<(usize, usize)>, extra: &mut usize) -> TE {
    let Merge {
        expression,
        equalities,
        judgements,
        ty_vars,
    } = merge(a, b, parent, state);
    eqs.extend(equalities.iter().map(|e| (idx(e.left), idx(e.right))));
    *extra += judgements.len() + ty_vars.len();
    expression
}

pub fn table(o: &Opts) -> R<()> {
    let mut w = Ndjson::create(&o.str("out")?)?;
    w.put(&json!({"ev": "begin"}));
    let mut state = TypeCheckerState::empty();
    let x = unsafe { state.allocate_ty_var() };
    let y = unsafe { state.allocate_ty_var() };
    let parent = unsafe { state.allocate_ty_var() };
    let d = domain(x, y);
    let mut panics = 0usize;
    let mut extra = 0usize;
    for a in &d {
        for b in &d {
            let r = guarded(|| {
                let mut e1 = Vec::new();
                let ab = step(a.clone(), b.clone(), parent, &mut state, &mut e1, &mut extra);
                let mut e2 = Vec::new();
                let ba = step(b.clone(), a.clone(), parent, &mut state, &mut e2, &mut extra);
                (res_json(&ab, &e1), res_json(&ba, &e2))
            });
            match r {
                Ok((ab, ba)) => w.put(&json!({"ev": "pair", "a": te_json(a), "b": te_json(b), "ab": ab, "ba": ba})),
                Err(p) => {
                    panics += 1;
                    w.put(&json!({"ev": "panic", "a": te_json(a), "b": te_json(b), "msg": p}));
                }
            }
        }
    }
    for a in &d {
        for b in &d {
            for c in &d {
                let r = guarded(|| {
                    let mut e1 = Vec::new();
                    let ab = step(a.clone(), b.clone(), parent, &mut state, &mut e1, &mut extra);
                    let left = step(ab, c.clone(), parent, &mut state, &mut e1, &mut extra);
                    let mut e2 = Vec::new();
                    let bc = step(b.clone(), c.clone(), parent, &mut state, &mut e2, &mut extra);
                    let right = step(a.clone(), bc, parent, &mut state, &mut e2, &mut extra);
                    (res_json(&left, &e1), res_json(&right, &e2))
                });
                match r {
                    Ok((left, right)) => w.put(&json!({"ev": "triple", "a": te_json(a), "b": te_json(b), "c": te_json(c),
                                                      "left": left, "right": right})),
                    Err(p) => {
                        panics += 1;
                        w.put(&json!({"ev": "panic", "a": te_json(a), "b": te_json(b), "c": te_json(c), "msg": p}));
                    }
                }
            }
        }
    }
    let n = w.finish();
    println!("{}", json!({"records": n, "domain": d.len(), "panics": panics, "unexpected_judgements_or_vars": extra}));
    Ok(())
}
