//! A tiny assembler and seeded generators of EVM programs for the control-flow,
//! limit and error-mode properties (C03, C08, C17, C13, C01).

use rand::{rngs::StdRng, seq::SliceRandom, Rng};

#[derive(Clone, Debug)]
pub enum Item {
    Op(u8),
    /// PUSHn with the given immediate (n = len, 1..=32).
    Push(Vec<u8>),
    /// Push the offset of a label using a PUSH of `width` bytes; `high` is OR-ed
    /// into the bytes above the low 4 (to build targets >= 2^32 whose low bits
    /// name a valid JUMPDEST); `delta` is added to the offset.
    PushLabel { label: usize, width: usize, high: u8, delta: i64 },
    /// A JUMPDEST that defines `label`.
    Label(usize),
    Raw(Vec<u8>),
}

pub fn assemble(items: &[Item]) -> Vec<u8> {
    let mut offsets = std::collections::HashMap::new();
    let mut pos = 0usize;
    for it in items {
        match it {
            Item::Op(_) => pos += 1,
            Item::Push(v) => pos += 1 + v.len(),
            Item::PushLabel { width, .. } => pos += 1 + width,
            Item::Label(l) => {
                offsets.insert(*l, pos);
                pos += 1;
            }
            Item::Raw(v) => pos += v.len(),
        }
    }
    let mut out = Vec::with_capacity(pos);
    for it in items {
        match it {
            Item::Op(b) => out.push(*b),
            Item::Push(v) => {
                out.push(0x5f + u8::try_from(v.len()).unwrap());
                out.extend(v);
            }
            Item::PushLabel {
                label,
                width,
                high,
                delta,
            } => {
                let off = (*offsets.get(label).unwrap_or(&0) as i64 + delta).max(0) as u64;
                let mut bytes = vec![0u8; *width];
                for i in 0..(*width).min(8) {
                    bytes[*width - 1 - i] = ((off >> (8 * i)) & 0xff) as u8;
                }
                // the high byte goes to the most significant byte of the immediate
                if *width > 4 && *high != 0 {
                    bytes[0] = *high;
                }
                out.push(0x5f + u8::try_from(*width).unwrap());
                out.extend(bytes);
            }
            Item::Label(_) => out.push(0x5b),
            Item::Raw(v) => out.extend(v),
        }
    }
    out
}

pub const STOP: u8 = 0x00;
pub const ADD: u8 = 0x01;
pub const MUL: u8 = 0x02;
pub const SUB: u8 = 0x03;
pub const AND: u8 = 0x16;
pub const OR: u8 = 0x17;
pub const ISZERO: u8 = 0x15;
pub const SHA3: u8 = 0x20;
pub const CALLER: u8 = 0x33;
pub const CALLDATALOAD: u8 = 0x35;
pub const CALLDATASIZE: u8 = 0x36;
pub const POP: u8 = 0x50;
pub const MLOAD: u8 = 0x51;
pub const MSTORE: u8 = 0x52;
pub const SLOAD: u8 = 0x54;
pub const SSTORE: u8 = 0x55;
pub const JUMP: u8 = 0x56;
pub const JUMPI: u8 = 0x57;
pub const PC: u8 = 0x58;
pub const DUP1: u8 = 0x80;
pub const SWAP1: u8 = 0x90;
pub const RETURN: u8 = 0xf3;
pub const REVERT: u8 = 0xfd;
pub const INVALID: u8 = 0xfe;
pub const SELFDESTRUCT: u8 = 0xff;

fn p1(v: u8) -> Item {
    Item::Push(vec![v])
}

fn lbl(label: usize) -> Item {
    Item::PushLabel {
        label,
        width: 2,
        high: 0,
        delta: 0,
    }
}

/// `sstore(slot, 1)`: a marker that shows in the layout when reached.
pub fn marker(slot: u8) -> Vec<Item> {
    vec![p1(1), p1(slot), Item::Op(SSTORE)]
}

#[derive(Clone, Debug)]
pub struct Program {
    pub family: String,
    pub code:   Vec<u8>,
}

/// Ways to end a block that transfer control to `label` legally or not.
fn jump_variants(rng: &mut StdRng, label: usize, conditional: bool) -> (Vec<Item>, &'static str) {
    let j = if conditional { JUMPI } else { JUMP };
    let cond = |v: &mut Vec<Item>| {
        if conditional {
            v.insert(0, Item::Op(CALLDATASIZE));
        }
    };
    let (mut v, name): (Vec<Item>, &'static str) = match rng.gen_range(0..14) {
        11 => (vec![Item::PushLabel { label, width: 9, high: 1, delta: 0 }], "high-bits-2^64"),
        12 => (vec![Item::PushLabel { label, width: 17, high: 1, delta: 0 }], "high-bits-2^128"),
        13 => (vec![Item::PushLabel { label, width: *[6usize, 8, 10, 16, 24, 31].choose(rng).unwrap(), high: 0x40, delta: 0 }], "high-bits-other"),
        0 | 1 | 2 => (vec![lbl(label)], "valid"),
        3 => (
            vec![Item::PushLabel {
                label,
                width: 2,
                high: 0,
                delta: 1,
            }],
            "non-jumpdest",
        ),
        4 => (vec![Item::Push(vec![0xff, 0xf0])], "out-of-range"),
        5 => (
            vec![Item::PushLabel {
                label,
                width: 5,
                high: 1,
                delta: 0,
            }],
            "high-bits-2^32",
        ),
        6 => (
            vec![Item::PushLabel {
                label,
                width: 32,
                high: 0x80,
                delta: 0,
            }],
            "high-bits-32-bytes",
        ),
        7 => (vec![Item::Op(CALLDATASIZE)], "symbolic"),
        8 => (
            // computed constant: (label - 3) + 3
            vec![
                Item::PushLabel {
                    label,
                    width: 2,
                    high: 0,
                    delta: -3,
                },
                p1(3),
                Item::Op(ADD),
            ],
            "computed-valid",
        ),
        9 => (
            vec![
                Item::PushLabel {
                    label,
                    width: 2,
                    high: 0,
                    delta: 0,
                },
                p1(1),
                Item::Op(ADD),
            ],
            "computed-invalid",
        ),
        _ => (vec![Item::Push(vec![0xff; 32])], "max-word"),
    };
    cond(&mut v);
    v.push(Item::Op(j));
    (v, name)
}

fn halting(rng: &mut StdRng) -> Vec<Item> {
    match rng.gen_range(0..7) {
        0 => vec![Item::Op(STOP)],
        1 => vec![p1(0), p1(0), Item::Op(RETURN)],
        2 => vec![p1(0), p1(0), Item::Op(REVERT)],
        3 => vec![Item::Op(CALLER), Item::Op(SELFDESTRUCT)],
        4 => vec![Item::Op(INVALID)],
        5 => vec![Item::Op(0x0c)],
        _ => vec![Item::Op(0xef)],
    }
}

fn filler(rng: &mut StdRng, n: usize) -> Vec<Item> {
    let mut v = Vec::new();
    for _ in 0..n {
        match rng.gen_range(0..6) {
            0 => v.extend([p1(rng.gen()), Item::Op(POP)]),
            1 => v.extend([Item::Op(CALLDATASIZE), Item::Op(ISZERO), Item::Op(POP)]),
            2 => v.extend([p1(rng.gen_range(0..4)), Item::Op(SLOAD), Item::Op(POP)]),
            3 => v.extend([Item::Op(PC), p1(rng.gen_range(0..4)), Item::Op(SSTORE)]),
            4 => v.extend([Item::Push(vec![0x5b, 0x5b]), Item::Op(POP)]),
            _ => v.extend([p1(2), p1(3), Item::Op(ADD), Item::Op(POP)]),
        }
    }
    v
}

/// Block-structured programs: a chain of blocks, each a JUMPDEST, some filler and
/// a terminator (fall through, jump, conditional jump - legal or not -, halt).
pub fn blocks(rng: &mut StdRng) -> Program {
    let n = rng.gen_range(2..7);
    let mut items = Vec::new();
    let mut fam = Vec::new();
    // entry: sometimes jump straight to a block
    if rng.gen_bool(0.5) {
        let (t, c) = (rng.gen_range(0..n), rng.gen_bool(0.6));
        let (j, name) = jump_variants(rng, t, c);
        fam.push(name);
        items.extend(j);
    }
    for b in 0..n {
        items.push(Item::Label(b));
        let k = rng.gen_range(0..3);
        items.extend(filler(rng, k));
        items.extend(marker(10 + b as u8));
        match rng.gen_range(0..10) {
            0..=2 => {
                let t = rng.gen_range(0..n);
                let (j, name) = jump_variants(rng, t, true);
                fam.push(name);
                items.extend(j);
            }
            3..=4 => {
                let t = rng.gen_range(0..n);
                let (j, name) = jump_variants(rng, t, false);
                fam.push(name);
                items.extend(j);
                // dead or live code behind the jump
                items.extend(marker(40 + b as u8));
            }
            5..=6 => {
                items.extend(halting(rng));
                items.extend(marker(60 + b as u8));
                fam.push("halt");
            }
            _ => {}
        }
    }
    items.push(Item::Op(STOP));
    fam.sort_unstable();
    fam.dedup();
    Program {
        family: format!("blocks[{}]", fam.join(",")),
        code:   assemble(&items),
    }
}

pub fn loops(rng: &mut StdRng) -> Program {
    let kind = rng.gen_range(0..8);
    let (name, items): (&str, Vec<Item>) = match kind {
        0 => ("self-jump", vec![Item::Label(0), lbl(0), Item::Op(JUMP)]),
        1 => {
            // tight loop with a conditional exit
            let mut v = vec![Item::Label(0)];
            v.extend(filler(rng, 1));
            v.extend([Item::Op(CALLDATASIZE), lbl(1), Item::Op(JUMPI), lbl(0), Item::Op(JUMP), Item::Label(1)]);
            v.extend(marker(1));
            v.push(Item::Op(STOP));
            ("tight-loop", v)
        }
        2 => {
            // nested loops
            let mut v = vec![Item::Label(0)];
            v.extend(marker(1));
            v.push(Item::Label(1));
            v.extend(filler(rng, 1));
            v.extend([Item::Op(CALLDATASIZE), lbl(1), Item::Op(JUMPI)]);
            v.extend([Item::Op(CALLER), lbl(0), Item::Op(JUMPI)]);
            v.push(Item::Op(STOP));
            ("nested-loops", v)
        }
        3 => {
            // loop whose body grows the stack
            let v = vec![
                Item::Label(0),
                Item::Op(PC),
                Item::Op(DUP1),
                Item::Op(CALLDATASIZE),
                lbl(0),
                Item::Op(JUMPI),
                Item::Op(STOP),
            ];
            ("stack-growing-loop", v)
        }
        4 => {
            // fork bomb: a chain of JUMPIs to shared targets that loop back
            let mut v = vec![Item::Label(0)];
            for _ in 0..rng.gen_range(3..9) {
                v.extend([Item::Op(CALLDATASIZE), lbl(rng.gen_range(0..3)), Item::Op(JUMPI)]);
            }
            v.push(Item::Label(1));
            v.extend(marker(2));
            v.extend([Item::Op(CALLER), lbl(0), Item::Op(JUMPI)]);
            v.push(Item::Label(2));
            v.extend(marker(3));
            v.push(Item::Op(STOP));
            ("fork-bomb", v)
        }
        5 => {
            // jump table / dispatcher
            let n = rng.gen_range(2..6);
            let mut v = Vec::new();
            for i in 0..n {
                v.extend([p1(0), Item::Op(CALLDATALOAD), p1(i as u8), Item::Op(0x14), lbl(i), Item::Op(JUMPI)]);
            }
            v.push(Item::Op(STOP));
            for i in 0..n {
                v.push(Item::Label(i));
                v.extend(marker(i as u8));
                if rng.gen_bool(0.5) {
                    v.extend([lbl(rng.gen_range(0..n)), Item::Op(JUMP)]);
                } else {
                    v.push(Item::Op(STOP));
                }
            }
            ("jump-table", v)
        }
        6 => {
            // storage read-mask-write in a loop (cyclic type evidence)
            let mut v = vec![Item::Label(0)];
            v.extend([
                p1(0),
                Item::Op(SLOAD),
                Item::Push(vec![0xff; 20]),
                Item::Op(AND),
                p1(1),
                Item::Op(SSTORE),
                p1(1),
                Item::Op(SLOAD),
                p1(0),
                Item::Op(SSTORE),
            ]);
            v.extend([Item::Op(CALLDATASIZE), lbl(0), Item::Op(JUMPI), Item::Op(STOP)]);
            ("read-mask-write-loop", v)
        }
        _ => {
            // loop that squares / hashes a running value
            let mut v = vec![Item::Op(CALLDATASIZE), Item::Label(0)];
            if rng.gen_bool(0.5) {
                v.extend([Item::Op(DUP1), Item::Op(MUL)]);
            } else {
                v.extend([p1(0), Item::Op(MSTORE), p1(32), p1(0), Item::Op(SHA3)]);
            }
            v.extend([Item::Op(DUP1), p1(1), Item::Op(SSTORE), lbl(0), Item::Op(JUMP)]);
            ("running-value-loop", v)
        }
    };
    Program {
        family: format!("loops[{name}]"),
        code:   assemble(&items),
    }
}

/// Programs that raise each kind of execution error.
pub fn errors(rng: &mut StdRng) -> Program {
    let kind = rng.gen_range(0..9);
    let (name, items): (String, Vec<Item>) = match kind {
        0 => {
            // stack underflow at a random opcode after some valid work
            let ops = [ADD, MUL, POP, SSTORE, SLOAD, MSTORE, JUMP, JUMPI, DUP1, 0x8f, SWAP1, 0x9f, ISZERO, SHA3, 0xa2, 0xf1, RETURN];
            let op = *ops.choose(rng).unwrap();
            let mut v = marker(1);
            if rng.gen_bool(0.5) {
                v.push(p1(7));
            }
            v.push(Item::Op(op));
            v.extend(marker(2));
            v.push(Item::Op(STOP));
            (format!("underflow[{op:02x}]"), v)
        }
        1 | 2 => {
            // stack overflow: exactly 1024 items, then one more through each kind of pushing opcode
            let last = *[PC, DUP1, 0x8f, CALLER, 0x60, 0x5f, CALLDATASIZE, 0x7f].choose(rng).unwrap();
            let mut v: Vec<Item> = (0..1024).map(|_| Item::Op(PC)).collect();
            match last {
                0x60 => v.push(p1(1)),
                0x7f => v.push(Item::Push(vec![1; 32])),
                b => v.push(Item::Op(b)),
            }
            v.push(Item::Op(STOP));
            (format!("overflow[{last:02x}]"), v)
        }
        3 => {
            // an error on the fall-through of a fork and a clean jump-taken branch
            let mut v = vec![Item::Op(CALLDATASIZE), lbl(0), Item::Op(JUMPI), Item::Op(POP), Item::Op(STOP), Item::Label(0)];
            v.extend(marker(1));
            v.push(Item::Op(STOP));
            ("error-on-one-branch".to_string(), v)
        }
        4 | 5 => {
            let (j, n) = jump_variants(rng, 0, false);
            let mut v = marker(1);
            v.extend(j);
            v.push(Item::Label(0));
            v.extend(marker(2));
            v.push(Item::Op(STOP));
            (format!("jump[{n}]"), v)
        }
        6 | 7 => {
            let (j, n) = jump_variants(rng, 0, true);
            let mut v = marker(1);
            v.extend(j);
            v.extend(marker(3));
            v.push(Item::Label(0));
            v.extend(marker(2));
            v.push(Item::Op(STOP));
            (format!("jumpi[{n}]"), v)
        }
        _ => {
            // jump into push data that contains a 0x5b byte
            let v = vec![
                p1(4),
                Item::Op(JUMP),
                Item::Push(vec![0x5b, 0x5b]),
                Item::Op(POP),
                p1(1),
                p1(5),
                Item::Op(SSTORE),
                Item::Op(STOP),
            ];
            ("jump-into-push-data".to_string(), v)
        }
    };
    Program {
        family: format!("errors[{name}]"),
        code:   assemble(&items),
    }
}

#[derive(Clone, Debug)]
pub struct Limits {
    pub l:    usize,
    pub f:    usize,
    pub g:    usize,
    pub perm: bool,
}

pub fn limits(rng: &mut StdRng) -> Limits {
    Limits {
        l:    *[1, 1, 2, 2, 3, 3, 4, 5, 8, 12].choose(rng).unwrap(),
        f:    *[1, 1, 2, 2, 3, 5, 8, 20, 60].choose(rng).unwrap(),
        g:    *[200, 300, 500, 1000, 5000, 100_000, 30_000_000, 30_000_000, 30_000_000]
            .choose(rng)
            .unwrap(),
        perm: rng.gen_bool(0.5),
    }
}

/// A gas-burning prefix followed by a fork and more work: shows whether gas is
/// inherited across forks and whether the limit binds.
pub fn gas_program(rng: &mut StdRng) -> Program {
    let mut v = Vec::new();
    for _ in 0..rng.gen_range(1..6) {
        v.extend([p1(0), Item::Op(SLOAD), Item::Op(POP)]);
    }
    v.extend([Item::Op(CALLDATASIZE), lbl(0), Item::Op(JUMPI)]);
    for _ in 0..rng.gen_range(0..4) {
        v.extend([p1(1), Item::Op(SLOAD), Item::Op(POP)]);
    }
    v.extend(marker(1));
    v.push(Item::Op(STOP));
    v.push(Item::Label(0));
    for _ in 0..rng.gen_range(0..6) {
        v.extend([p1(2), Item::Op(SLOAD), Item::Op(POP)]);
    }
    v.extend(marker(2));
    v.push(Item::Op(STOP));
    Program {
        family: "gas[burn-fork-burn]".to_string(),
        code:   assemble(&v),
    }
}

/// Blocks joined by legal jumps only, forwards and backwards, conditional and not: loops that share blocks,
/// blocks entered both by fall-through and by jumps from before and behind, forks out of and into loops.
/// This is where the per-path visit counts of a block and the limits on forking to it interact.
pub fn spaghetti(rng: &mut StdRng) -> Program {
    let n = rng.gen_range(3..7);
    let mut items = Vec::new();
    if rng.gen_bool(0.4) {
        items.extend([lbl(rng.gen_range(0..n)), Item::Op(JUMP)]);
    }
    for b in 0..n {
        items.push(Item::Label(b));
        if rng.gen_bool(0.5) {
            items.extend(marker(10 + b as u8));
        }
        match rng.gen_range(0..10) {
            0..=4 => items.extend([Item::Op(CALLDATASIZE), lbl(rng.gen_range(0..n)), Item::Op(JUMPI)]),
            5..=7 => items.extend([lbl(rng.gen_range(0..n)), Item::Op(JUMP)]),
            8 if b > 0 => items.push(Item::Op(STOP)),
            _ => {}
        }
    }
    items.push(Item::Op(STOP));
    Program {
        family: "spaghetti".to_string(),
        code:   assemble(&items),
    }
}

/// A loop whose body block T is executed up to the iteration limit, an edge that forks out of the loop, and
/// a block R elsewhere that enters T again - by a jump or by the fork of a conditional jump - with the
/// blocks laid out in any order, so that the edge into T points forwards or backwards.  The visit counts
/// a thread inherits must bound that re-entry however it is made.
pub fn reentry(rng: &mut StdRng) -> Program {
    const R: usize = 0;
    const L1: usize = 1;
    const T: usize = 2;
    const X: usize = 3;
    let jump = |l: usize| vec![lbl(l), Item::Op(JUMP)];
    let jumpi = |l: usize| vec![Item::Op(CALLDATASIZE), lbl(l), Item::Op(JUMPI)];
    let mut blocks: Vec<Vec<Item>> = Vec::new();
    // R: enters T again
    let mut r = vec![Item::Label(R)];
    if rng.gen_bool(0.6) {
        r.extend(jumpi(T));
        r.push(Item::Op(STOP));
    } else {
        r.extend(jump(T));
    }
    blocks.push(r);
    // L1: loop head (now and then the loop head is T itself)
    let merged = rng.gen_bool(0.3);
    let head = if merged { T } else { L1 };
    if !merged {
        let mut l1 = vec![Item::Label(L1)];
        if rng.gen_bool(0.5) {
            l1.extend(marker(11));
        }
        l1.extend(jump(T));
        blocks.push(l1);
    }
    // T: loop body with the edge out of the loop before or after the marker
    let mut t = vec![Item::Label(T)];
    if rng.gen_bool(0.5) {
        t.extend(marker(12));
    }
    t.extend(jumpi(X));
    t.extend(jump(head));
    blocks.push(t);
    // X: out of the loop, on to R
    let mut x = vec![Item::Label(X)];
    x.extend(if rng.gen_bool(0.7) { jump(R) } else { jumpi(R) });
    x.push(Item::Op(STOP));
    blocks.push(x);
    blocks.shuffle(rng);
    let mut items = jump(head);
    for b in blocks {
        items.extend(b);
    }
    items.push(Item::Op(STOP));
    Program {
        family: "reentry".to_string(),
        code:   assemble(&items),
    }
}

/// Jumps that aim at the very edges of the code: a JUMPDEST that is the last byte of the code, and a 0x5b
/// byte inside a trailing PUSH whose immediate is cut short by the end of the code (push data, not a
/// destination, however it is decoded).
/// Jumps whose target the code *computes* from constants: PC-relative (`PC; PUSH k; ADD; JUMP`), scaled
/// (`PC; PUSH m; MUL`), from the end of the code (`PUSH k; CODESIZE; SUB`) and jump tables
/// (`base + index * stride`), landing exactly on a JUMPDEST or one byte beside it.  Several JUMPDESTs lie around
/// the right one, so that a target that is computed slightly wrong still lands on *a* destination.
pub fn computed_targets(rng: &mut StdRng) -> Program {
    let conditional = rng.gen_bool(0.4);
    let mut code: Vec<u8> = Vec::new();
    // a few instructions first, so that PC is not 0
    for _ in 0..rng.gen_range(0..4) {
        code.extend([0x60, rng.gen(), 0x50]);
    }
    if rng.gen_bool(0.3) {
        code.push(0x5b);
    }
    if conditional {
        code.push(CALLDATASIZE);
    }
    let miss: i64 = *[0i64, 0, 0, 1, -1].choose(rng).unwrap();
    let kind = rng.gen_range(0..5);
    // the jump sequence has a fixed length per kind; the landing pad follows after a gap
    let seq_len: usize = match kind { 0 => 5, 1 => 5, 2 => 5, 3 => 9, _ => 6 };
    let start = code.len();
    let gap = rng.gen_range(1..6usize);
    // pad: STOP, then JUMPDEST-separated blocks; the right destination is one of them
    let mut pad: Vec<u8> = vec![STOP];
    let mut dests = Vec::new();
    for i in 0..gap + 3 {
        dests.push(start + seq_len + pad.len());
        pad.extend([0x5b, 0x60, i as u8 + 1, 0x60, 0x0d, SSTORE, STOP]);
    }
    let mut want = dests[gap] as i64;
    let fam;
    match kind {
        0 => {
            // PC; PUSH1 k; ADD; JUMP   (PC is the offset of the PC instruction itself)
            let pc = start as i64;
            code.extend([0x58, 0x60, (want + miss - pc) as u8, ADD, if conditional { JUMPI } else { JUMP }]);
            fam = "computed-target[pc-relative]";
        }
        1 => {
            // PUSH1 k; PC; ADD; JUMP
            let pc = start as i64 + 2;
            code.extend([0x60, (want + miss - pc) as u8, 0x58, ADD, if conditional { JUMPI } else { JUMP }]);
            fam = "computed-target[pc-relative-swapped]";
        }
        2 => {
            // PUSH1 k; CODESIZE; SUB; JUMP   (codesize - k)
            let size = (start + seq_len + pad.len()) as i64;
            code.extend([0x60, (size - (want + miss)) as u8, 0x38, SUB, if conditional { JUMPI } else { JUMP }]);
            fam = "computed-target[from-codesize]";
        }
        3 => {
            // jump table: PUSH1 base; PUSH1 stride; PUSH1 index; MUL; ADD; JUMP
            let base = dests[0] as i64;
            code.extend([0x60, (base + miss) as u8, 0x60, 7, 0x60, gap as u8, MUL, ADD, if conditional { JUMPI } else { JUMP }]);
            fam = "computed-target[jump-table]";
        }
        _ => {
            // PC; PUSH1 m; MUL; JUMP with the code padded so that pc * m is the destination, when it can be
            let pc = start as i64;
            let m = if pc > 0 && want % pc == 0 && want / pc < 256 { want / pc } else { 1 };
            if m == 1 {
                // no exact multiple: aim at pc itself (not a destination unless a JUMPDEST happens to sit there)
                want = pc;
            }
            code.extend([0x58, 0x60, m as u8, MUL, if conditional { JUMPI } else { JUMP }, 0x00]);
            fam = "computed-target[pc-scaled]";
        }
    }
    let _ = want;
    code.extend(pad);
    Program { family: fam.into(), code }
}

/// Code longer than 24 576 bytes (the size limit of deployed contracts, not of code the tool is given) whose jumps
/// aim at JUMPDESTs beyond that offset: offsets are offsets, wherever they lie.
pub fn long_code(rng: &mut StdRng, base: usize) -> Program {
    let conditional = rng.gen_bool(0.5);
    let mut code: Vec<u8> = Vec::new();
    if conditional {
        code.push(CALLDATASIZE);
    }
    let at = code.len();
    code.extend([0x61, 0, 0, if conditional { JUMPI } else { JUMP }]);
    code.extend([0x60, 0x01, 0x60, 0x0d, SSTORE, STOP]);
    // dead filler: zero bytes, with JUMPDESTs sprinkled in
    let total = base + [0usize, 1, 5, 70][rng.gen_range(0..4)];
    while code.len() < total {
        code.push(if rng.gen_bool(0.01) { 0x5b } else { 0x00 });
    }
    // exactly at the limit, just below it, or beyond
    let target = match rng.gen_range(0..3) {
        0 => {
            code.truncate(base - 1);
            base - 1
        }
        1 => {
            code.truncate(base);
            base
        }
        _ => code.len(),
    };
    code.extend([0x5b, 0x60, 0x02, 0x60, 0x0e, SSTORE, STOP]);
    code[at + 1] = (target >> 8) as u8;
    code[at + 2] = (target & 0xff) as u8;
    Program { family: if base >= 24_576 { "long-code" } else { "far-jump" }.into(), code }
}

pub fn code_edges(rng: &mut StdRng) -> Program {
    let conditional = rng.gen_bool(0.6);
    let mut code: Vec<u8> = Vec::new();
    if conditional {
        code.push(CALLDATASIZE);
    }
    let at = code.len();
    code.extend([0x61, 0, 0, if conditional { JUMPI } else { JUMP }]);
    // what follows the jump: live after a JUMPI, dead after a JUMP
    code.extend([0x60, 0x01, 0x60, 0x0d, SSTORE]);
    let fam;
    let target;
    match rng.gen_range(0..3) {
        0 => {
            // the destination is the last byte of the code
            code.push(STOP);
            for _ in 0..rng.gen_range(0..3) {
                code.extend([0x60, 0x01, 0x50]);
            }
            target = code.len();
            code.push(0x5b);
            fam = "code-edges[last-byte-jumpdest]";
        }
        1 => {
            // ... or the last but one, followed by a single instruction
            code.push(STOP);
            target = code.len();
            code.extend([0x5b, *[STOP, 0x5b, 0x36].choose(rng).unwrap()]);
            fam = "code-edges[jumpdest-before-last]";
        }
        _ => {
            // a 0x5b inside a trailing, truncated PUSH
            code.push(STOP);
            let n = rng.gen_range(2..=32u8);
            let present = rng.gen_range(1..n) as usize;
            code.push(0x5f + n);
            let hit = rng.gen_range(0..present);
            target = code.len() + hit;
            for k in 0..present {
                code.push(if k == hit || rng.gen_bool(0.5) { 0x5b } else { 0x00 });
            }
            fam = "code-edges[truncated-push-data]";
        }
    }
    code[at + 1] = (target >> 8) as u8;
    code[at + 2] = target as u8;
    Program {
        family: fam.to_string(),
        code,
    }
}

/// Every opcode that does not transfer control, on a stack that holds enough small constants: what each
/// leaves on the stack is what the EVM's table says (Opcodes.tla), or under- and overflow detection is off.
fn stack_effect_pool() -> Vec<u8> {
    let mut pool: Vec<u8> = Vec::new();
    pool.extend(0x01..=0x0b);
    pool.extend(0x10..=0x1d);
    pool.push(0x20);
    pool.extend(0x30..=0x48);
    pool.extend(0x50..=0x55);
    pool.extend([0x58, 0x59, 0x5a, 0x5b, 0x5f]);
    pool.extend(0x80..=0x9f);
    pool.extend(0xa0..=0xa4);
    pool.extend([0xf0, 0xf1, 0xf2, 0xf4, 0xf5, 0xfa]);
    pool
}

/// The same for EVERY such opcode, a few per program, each on a stack of sixteen small constants.
pub fn stack_effects_all() -> Vec<Program> {
    stack_effect_pool()
        .chunks(5)
        .map(|chunk| {
            let mut items = Vec::new();
            for op in chunk {
                for k in 0..16u8 {
                    items.push(p1(1 + k));
                }
                items.push(Item::Op(*op));
            }
            items.extend(marker(1));
            items.push(Item::Op(STOP));
            Program {
                family: format!("stack-effects[{}]", chunk.iter().map(|b| format!("{b:02x}")).collect::<Vec<_>>().join(",")),
                code:   assemble(&items),
            }
        })
        .collect()
}

pub fn stack_effects(rng: &mut StdRng) -> Program {
    let mut pool: Vec<u8> = Vec::new();
    pool.extend(0x01..=0x0b);
    pool.extend(0x10..=0x1d);
    pool.push(0x20);
    pool.extend(0x30..=0x48);
    pool.extend(0x50..=0x55);
    pool.extend([0x58, 0x59, 0x5a, 0x5b, 0x5f]);
    pool.extend(0x80..=0x9f);
    pool.extend(0xa0..=0xa4);
    pool.extend([0xf0, 0xf1, 0xf2, 0xf4, 0xf5, 0xfa]);
    let mut items = Vec::new();
    let mut names = Vec::new();
    for _ in 0..rng.gen_range(3..9) {
        let op = *pool.choose(rng).unwrap();
        for _ in 0..8 {
            items.push(p1(rng.gen_range(1..33)));
        }
        items.push(Item::Op(op));
        names.push(format!("{op:02x}"));
    }
    items.extend(marker(1));
    items.push(Item::Op(STOP));
    Program {
        family: format!("stack-effects[{}]", names.join(",")),
        code:   assemble(&items),
    }
}

pub fn any(rng: &mut StdRng) -> Program {
    match rng.gen_range(0..17) {
        15 | 16 => computed_targets(rng),
        14 => stack_effects(rng),
        13 => code_edges(rng),
        12 => reentry(rng),
        10 | 11 => spaghetti(rng),
        0..=3 => blocks(rng),
        4..=6 => loops(rng),
        7..=8 => errors(rng),
        _ => gas_program(rng),
    }
}
