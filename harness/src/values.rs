//! Export of symbolic value trees (public API only) in a JSON shape the TLA+
//! acceptors understand: {"op": <variant>, "c": <hex> (constants), "n": [usize...], "args": [...]}.

use serde_json::{json, Value as J};
use storage_layout_extractor::vm::value::{RuntimeBoxedVal, SymbolicValueData as SVD, RSVD};

pub fn variant_name(d: &RSVD) -> &'static str {
    match d {
        SVD::Value { .. } => "Value",
        SVD::KnownData { .. } => "KnownData",
        SVD::Add { .. } => "Add",
        SVD::Multiply { .. } => "Multiply",
        SVD::Subtract { .. } => "Subtract",
        SVD::Divide { .. } => "Divide",
        SVD::SignedDivide { .. } => "SignedDivide",
        SVD::Modulo { .. } => "Modulo",
        SVD::SignedModulo { .. } => "SignedModulo",
        SVD::Exp { .. } => "Exp",
        SVD::SignExtend { .. } => "SignExtend",
        SVD::CallWithValue { .. } => "CallWithValue",
        SVD::CallWithoutValue { .. } => "CallWithoutValue",
        SVD::Sha3 { .. } => "Sha3",
        SVD::Address => "Address",
        SVD::Balance { .. } => "Balance",
        SVD::Origin => "Origin",
        SVD::Caller => "Caller",
        SVD::CallValue => "CallValue",
        SVD::GasPrice => "GasPrice",
        SVD::ExtCodeHash { .. } => "ExtCodeHash",
        SVD::BlockHash { .. } => "BlockHash",
        SVD::CoinBase => "CoinBase",
        SVD::BlockTimestamp => "BlockTimestamp",
        SVD::BlockNumber => "BlockNumber",
        SVD::Prevrandao => "Prevrandao",
        SVD::GasLimit => "GasLimit",
        SVD::ChainId => "ChainId",
        SVD::SelfBalance => "SelfBalance",
        SVD::BaseFee => "BaseFee",
        SVD::Gas => "Gas",
        SVD::Log { .. } => "Log",
        SVD::Create { .. } => "Create",
        SVD::Create2 { .. } => "Create2",
        SVD::SelfDestruct { .. } => "SelfDestruct",
        SVD::LessThan { .. } => "LessThan",
        SVD::GreaterThan { .. } => "GreaterThan",
        SVD::SignedLessThan { .. } => "SignedLessThan",
        SVD::SignedGreaterThan { .. } => "SignedGreaterThan",
        SVD::Equals { .. } => "Equals",
        SVD::IsZero { .. } => "IsZero",
        SVD::And { .. } => "And",
        SVD::Or { .. } => "Or",
        SVD::Xor { .. } => "Xor",
        SVD::Not { .. } => "Not",
        SVD::LeftShift { .. } => "LeftShift",
        SVD::RightShift { .. } => "RightShift",
        SVD::ArithmeticRightShift { .. } => "ArithmeticRightShift",
        SVD::CallData { .. } => "CallData",
        SVD::CallDataSize => "CallDataSize",
        SVD::CodeCopy { .. } => "CodeCopy",
        SVD::ExtCodeSize { .. } => "ExtCodeSize",
        SVD::ExtCodeCopy { .. } => "ExtCodeCopy",
        SVD::ReturnData { .. } => "ReturnData",
        SVD::Return { .. } => "Return",
        SVD::Revert { .. } => "Revert",
        SVD::UnwrittenStorageValue { .. } => "UnwrittenStorageValue",
        SVD::SLoad { .. } => "SLoad",
        SVD::StorageSlot { .. } => "StorageSlot",
        SVD::StorageWrite { .. } => "StorageWrite",
        SVD::Concat { .. } => "Concat",
        SVD::MappingIndex { .. } => "MappingIndex",
        SVD::DynamicArrayIndex { .. } => "DynamicArrayIndex",
        SVD::SubWord { .. } => "SubWord",
        SVD::Shifted { .. } => "Shifted",
        SVD::Packed { .. } => "Packed",
    }
}

pub fn const_hex(v: &RuntimeBoxedVal) -> Option<String> {
    if let SVD::KnownData { value } = v.data() {
        Some(hex::encode(value.bytes_be()))
    } else {
        None
    }
}

/// The whole tree.
pub fn export(v: &RuntimeBoxedVal) -> J {
    let d = v.data();
    let mut o = json!({"op": variant_name(d)});
    match d {
        SVD::KnownData { value } => {
            o["c"] = json!(hex::encode(value.bytes_be()));
        }
        SVD::SubWord { offset, size, .. } => {
            o["n"] = json!([offset, size]);
        }
        SVD::Shifted { offset, .. } => {
            o["n"] = json!([offset]);
        }
        SVD::Packed { elements } => {
            o["n"] = json!(elements.iter().flat_map(|e| [e.offset, e.size]).collect::<Vec<_>>());
        }
        SVD::MappingIndex { projection, .. } => {
            o["n"] = json!([projection.map_or(-1i64, |p| p as i64)]);
        }
        _ => {}
    }
    let kids = v.children();
    if !kids.is_empty() {
        o["args"] = J::Array(kids.iter().map(export).collect());
    }
    o
}

/// Number of nodes actually contained in the tree (independent of the memoised size).
pub fn count_nodes(v: &RuntimeBoxedVal) -> usize {
    1 + v.children().iter().map(count_nodes).sum::<usize>()
}

/// Visits every node of the tree.
pub fn walk(v: &RuntimeBoxedVal, f: &mut dyn FnMut(&RuntimeBoxedVal)) {
    f(v);
    for c in v.children() {
        walk(&c, f);
    }
}
