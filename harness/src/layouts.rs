//! Layout-level observations for C04, C05, C06, C11, C12: programs (idiom
//! contracts from descriptions, boundary mask/shift programs, control-flow
//! programs, real and mutated contracts) are analysed through the staged API;
//! the layout, and the key terms of every storage access the VM performed, are
//! recorded for `LayoutTrace.tla`.

use std::collections::BTreeSet;

use ethnum::U256;
use rand::{rngs::StdRng, seq::SliceRandom, Rng, SeedableRng};
use serde_json::{json, Value as J};
use sha3::{Digest, Keccak256};
use storage_layout_extractor as sle;
use storage_layout_extractor::{
    extractor::{
        chain::{
            version::{ChainVersion, EthereumVersion},
            Chain,
        },
        contract::Contract,
    },
    tc,
    tc::abi::AbiType,
    vm::value::{RuntimeBoxedVal, SymbolicValueData as SVD},
    StorageLayout,
};

use crate::{
    idioms::{self, VarDesc},
    progen::{self, assemble, Item, Limits},
    util::{guarded, unhex, Ndjson, Opts, R},
    values,
    vmrun::{vm_config, ScriptedWatchdog},
};

/// AbiType in a shape without nulls: {"k", "n", "sub", "offs"}.
pub fn type_json(t: &AbiType) -> J {
    let opt = |o: &Option<usize>| o.map_or(0, |v| v as u64);
    match t {
        AbiType::Any => json!({"k": "any", "n": 0}),
        AbiType::Number { size } => json!({"k": "number", "n": opt(size)}),
        AbiType::UInt { size } => json!({"k": "uint", "n": opt(size)}),
        AbiType::Int { size } => json!({"k": "int", "n": opt(size)}),
        AbiType::Address => json!({"k": "address", "n": 160}),
        AbiType::Selector => json!({"k": "selector", "n": 32}),
        AbiType::Function => json!({"k": "function", "n": 192}),
        AbiType::Bool => json!({"k": "bool", "n": 8}),
        AbiType::Array { size, tp } => {
            json!({"k": "array", "n": u32::try_from(size.0).map_or(-1i64, i64::from), "sub": [type_json(tp)]})
        }
        AbiType::Bytes { length } => json!({"k": "bytes", "n": opt(length) * 8}),
        AbiType::Bits { length } => json!({"k": "bits", "n": opt(length)}),
        AbiType::DynArray { tp } => json!({"k": "dyn_array", "n": 0, "sub": [type_json(tp)]}),
        AbiType::DynBytes => json!({"k": "dyn_bytes", "n": 0}),
        AbiType::Mapping { key_type, value_type } => {
            json!({"k": "mapping", "n": 0, "sub": [type_json(key_type), type_json(value_type)]})
        }
        AbiType::Struct { elements } => json!({
            "k": "struct", "n": 0,
            "sub": elements.iter().map(|e| type_json(&e.typ)).collect::<Vec<_>>(),
            "offs": elements.iter().map(|e| e.offset).collect::<Vec<_>>(),
        }),
        AbiType::InfiniteType => json!({"k": "infinite", "n": 0}),
        AbiType::ConflictedType { .. } => json!({"k": "conflict", "n": 0}),
    }
}

pub fn entries_json(l: &StorageLayout) -> Vec<J> {
    l.slots()
        .iter()
        .map(|s| {
            let be = s.index.0.to_be_bytes();
            json!({"slot": hex::encode(be), "idx": be.to_vec(), "offset": s.offset, "type": type_json(&s.typ)})
        })
        .collect()
}

fn keccak_word(n: u64) -> String {
    let mut w = [0u8; 32];
    w[24..].copy_from_slice(&n.to_be_bytes());
    hex::encode(Keccak256::digest(w))
}

thread_local! {
    static PREIMAGES: std::collections::HashMap<String, u64> = (0..10_000u64).map(|n| (keccak_word(n), n)).collect();
}

fn word_hex(n: U256) -> String {
    hex::encode(n.to_be_bytes())
}

#[derive(Default)]
struct KeyFacts {
    /// constants occurring inside key terms of executed accesses
    consts:       BTreeSet<String>,
    /// keys that are literal constants (not the keccak of a small slot number)
    literal:      BTreeSet<String>,
    /// constants derivable from key-term constants by the documented derivations
    derived:      BTreeSet<String>,
    /// constants occurring only in stored *values*
    value_consts: BTreeSet<String>,
    accesses:     usize,
    /// executed SLOAD / SSTORE instructions (by code byte), summed over explored paths
    storage_ops:  usize,
    /// some value is a mask of a (shifted) masked value
    nested_masks: bool,
}

/// keccak images of constant data under a Sha3 node, in the forms the proxy-slot pass documents:
/// the words as they are, with trailing NULs trimmed, and the payload of an ABI-encoded string.
fn constant_hashes(data: &RuntimeBoxedVal, out: &mut Vec<U256>) {
    let words: Vec<RuntimeBoxedVal> = match data.data() {
        SVD::Concat { values } => values.clone(),
        _ => vec![data.clone()],
    };
    let mut bytes = Vec::new();
    for w in &words {
        match w.constant_fold().data() {
            SVD::KnownData { value } => bytes.extend(value.bytes_be()),
            _ => return,
        }
    }
    let mut forms: Vec<Vec<u8>> = vec![bytes.clone()];
    let mut trimmed = bytes.clone();
    while trimmed.last() == Some(&0) {
        trimmed.pop();
    }
    forms.push(trimmed);
    for skip in [32usize, 64] {
        if bytes.len() > skip {
            let len = U256::from_be_bytes(bytes[skip - 32..skip].try_into().unwrap());
            if let Ok(l) = usize::try_from(len) {
                if skip + l <= bytes.len() {
                    forms.push(bytes[skip..skip + l].to_vec());
                }
            }
        }
    }
    for f in forms {
        out.push(U256::from_be_bytes(Keccak256::digest(&f).into()));
    }
}

fn consts_of(v: &RuntimeBoxedVal, into: &mut BTreeSet<String>, derived: &mut BTreeSet<String>) {
    let mut locals: Vec<U256> = Vec::new();
    let mut hashes: Vec<U256> = Vec::new();
    values::walk(v, &mut |n| {
        if let SVD::KnownData { value } = n.data() {
            locals.push(value.value_le());
        }
        // a constant sub-tree also contributes the value it folds to
        if let SVD::KnownData { value } = n.constant_fold().data() {
            derived.insert(word_hex(value.value_le()));
        }
        if let SVD::Sha3 { data } = n.data() {
            constant_hashes(data, &mut hashes);
        }
    });
    for c in &locals {
        into.insert(word_hex(*c));
        PREIMAGES.with(|p| {
            if let Some(n) = p.get(&word_hex(*c)) {
                derived.insert(word_hex(U256::from(*n)));
            }
        });
    }
    // constant addition (mapping offsets, proxy slots keccak(string) +/- c)
    for a in locals.iter().chain(hashes.iter()) {
        derived.insert(word_hex(*a));
        for b in &locals {
            derived.insert(word_hex(a.wrapping_add(*b)));
            derived.insert(word_hex(a.wrapping_sub(*b)));
        }
    }
}

/// Does some value mask a (shifted) value that is itself a masked value?  (a sub-word of a sub-word)
fn has_nested_masks(vals: &[RuntimeBoxedVal]) -> bool {
    fn is_const(v: &RuntimeBoxedVal) -> bool {
        matches!(v.constant_fold().data(), SVD::KnownData { .. })
    }
    fn masked(v: &RuntimeBoxedVal) -> Option<RuntimeBoxedVal> {
        if let SVD::And { left, right } = v.data() {
            if is_const(left) && !is_const(right) {
                return Some(right.clone());
            }
            if is_const(right) && !is_const(left) {
                return Some(left.clone());
            }
        }
        None
    }
    fn through_shift(v: &RuntimeBoxedVal) -> RuntimeBoxedVal {
        match v.data() {
            SVD::RightShift { value, .. } | SVD::LeftShift { value, .. } => value.clone(),
            SVD::Divide { dividend, .. } => dividend.clone(),
            SVD::Multiply { left, right } => if is_const(left) { right.clone() } else { left.clone() },
            // a value read back from the slot it was stored to is that value
            SVD::SLoad { value, .. } => value.clone(),
            _ => v.clone(),
        }
    }
    // the masked value behind any number of shifts and storage round trips
    fn behind(v: &RuntimeBoxedVal) -> RuntimeBoxedVal {
        let mut cur = v.clone();
        for _ in 0..8 {
            let next = through_shift(&cur);
            if std::sync::Arc::ptr_eq(&next, &cur) {
                break;
            }
            cur = next;
        }
        cur
    }
    let mut found = false;
    for v in vals {
        values::walk(v, &mut |n| {
            if let Some(inner) = masked(n) {
                if masked(&behind(&inner)).is_some() {
                    found = true;
                }
            }
        });
    }
    found
}

fn key_facts(vals: &[RuntimeBoxedVal]) -> KeyFacts {
    let mut f = KeyFacts::default();
    f.nested_masks = has_nested_masks(vals);
    for v in vals {
        values::walk(v, &mut |n| {
            let (key, value) = match n.data() {
                SVD::SLoad { key, value } => (Some(key), Some(value)),
                SVD::StorageWrite { key, value } => (Some(key), Some(value)),
                SVD::UnwrittenStorageValue { key } => (Some(key), None),
                _ => (None, None),
            };
            if let Some(k) = key {
                f.accesses += 1;
                consts_of(k, &mut f.consts, &mut f.derived);
                if let SVD::KnownData { value } = k.data() {
                    let h = word_hex(value.value_le());
                    if PREIMAGES.with(|p| !p.contains_key(&h)) {
                        f.literal.insert(h);
                    }
                }
            }
            if let Some(val) = value {
                let mut d = BTreeSet::new();
                consts_of(val, &mut f.value_consts, &mut d);
                f.value_consts.extend(d);
            }
        });
    }
    f
}

pub struct Observed {
    pub res:     &'static str,
    pub msg:     String,
    pub entries: Vec<J>,
    pub keys:    J,
    pub values:  usize,
    /// what the one-call entry point returns for the same input, when that is a layout different from `entries`
    pub entries_analyze: Option<Vec<J>>,
}

/// Staged analysis with the VM's values observed between execution and inference.
pub fn observe(code: &[u8], lim: &Limits) -> Observed {
    let code2 = code.to_vec();
    let code_bytes = code.to_vec();
    let cfg = vm_config(lim);
    storage_layout_extractor::verif::start();
    let r = guarded(move || {
        let contract = Contract::new(
            code2,
            Chain::Ethereum {
                version: EthereumVersion::latest(),
            },
        );
        let wd = ScriptedWatchdog::new(1_000_000, None, 20_000_000);
        let ex = sle::new(contract, cfg, tc::Config::default(), wd)
            .disassemble()
            .map_err(|e| format!("{e:?}"))?
            .prepare_vm()
            .map_err(|e| format!("{e:?}"))?
            .execute()
            .map_err(|e| format!("{e:?}"))?;
        // storage instructions the VM actually executed, judged from the code bytes: an executed
        // offset whose byte is SLOAD (0x54) or SSTORE (0x55) at an instruction boundary
        let boundaries = {
            let mut b = vec![false; code_bytes.len()];
            let mut i = 0;
            while i < code_bytes.len() {
                b[i] = true;
                if (0x60..=0x7f).contains(&code_bytes[i]) {
                    i += (code_bytes[i] - 0x5f) as usize;
                }
                i += 1;
            }
            b
        };
        let mut storage_ops = 0usize;
        for st in &ex.state().execution_result.states {
            for (off, byte) in code_bytes.iter().enumerate() {
                if boundaries[off] && (*byte == 0x54 || *byte == 0x55)
                    && st.visited_instructions().visit_count(off as u32).unwrap_or(0) > 0
                {
                    storage_ops += 1;
                }
            }
        }
        let vals = ex.state().execution_result.clone().all_values();
        let mut facts = key_facts(&vals);
        facts.storage_ops = storage_ops;
        let ex = ex.prepare_unifier().infer().map_err(|e| format!("{e:?}"))?;
        Ok::<_, String>((ex.layout().clone(), facts, vals.len()))
    });
    // literal keys of the SLOAD / SSTORE instructions the VM executed, as reported by the hooks
    let mut exec_literal: BTreeSet<String> = BTreeSet::new();
    for e in storage_layout_extractor::verif::take() {
        if let storage_layout_extractor::verif::Event::StorageAccess { key: Some(k), .. } = e {
            let h = hex::encode(k);
            if PREIMAGES.with(|p| !p.contains_key(&h)) {
                exec_literal.insert(h);
            }
        }
    }
    match r {
        Err(p) => Observed {
            res:     "panic",
            msg:     p,
            entries: vec![],
            keys:    J::Null,
            values:  0,
            entries_analyze: None,
        },
        Ok(Err(e)) => Observed {
            res:     "err",
            msg:     e.chars().take(200).collect(),
            entries: vec![],
            keys:    J::Null,
            values:  0,
            entries_analyze: None,
        },
        Ok(Ok((layout, f, n))) => Observed {
            entries_analyze: {
                // the one-call entry point on the same input: whatever it returns must satisfy the same invariants
                let code3 = code.to_vec();
                let cfg3 = vm_config(lim);
                let one = guarded(move || {
                    let contract = Contract::new(code3, Chain::Ethereum { version: EthereumVersion::latest() });
                    sle::new(contract, cfg3, tc::Config::default(), ScriptedWatchdog::new(1_000_000, None, 20_000_000)).analyze()
                });
                let _ = storage_layout_extractor::verif::take();
                match one {
                    Ok(Ok(l)) => {
                        let e = entries_json(&l);
                        if e == entries_json(&layout) { None } else { Some(e) }
                    }
                    _ => None,
                }
            },
            res:     "ok",
            msg:     String::new(),
            entries: entries_json(&layout),
            keys:    json!({"consts": f.consts, "literal": f.literal, "derived": f.derived,
                            "value_consts": f.value_consts, "accesses": f.accesses, "storage_ops": f.storage_ops, "nested_masks": f.nested_masks, "exec_literal": exec_literal}),
            values:  n,
        },
    }
}

fn record(src: &str, code: &[u8], desc: Option<&J>, o: &Observed) -> J {
    let mut r = json!({"ev": "layout", "src": src, "hex": hex::encode(code), "res": o.res, "msg": o.msg,
                       "entries": o.entries, "vars": desc.map_or(json!([]), |d| d["vars"].clone())});
    if o.res == "ok" {
        r["keys"] = o.keys.clone();
    }
    if let Some(e) = &o.entries_analyze {
        r["entries_analyze"] = json!(e);
    }
    // small generated programs carry their bytes, so that Cfg.tla can say which storage instructions are dead
    if code.len() <= 400 && matches!(src, "dead-storage" | "control-flow" | "literal-keys" | "lookalike-storage-free" | "lookalike-as-value") {
        r["code"] = json!(code);
    }
    r
}

fn p1(v: u8) -> Item {
    Item::Push(vec![v])
}

/// Mask-and-shift programs with shift amounts and mask positions anywhere (C12, C01).
fn mask_shift_program(rng: &mut StdRng) -> Vec<u8> {
    let shifts: [&[u8]; 12] = [&[0], &[8], &[0xf8], &[0xff], &[1, 0], &[1, 1], &[1, 0x2c], &[1, 0, 0, 0, 0],
                              &[0xff; 8], &[1, 0, 0, 0, 0, 0, 0, 0, 0], &[0x80, 0, 0, 0, 0, 0, 0, 0, 0, 0, 0, 0, 0, 0, 0, 0, 0, 0, 0, 0, 0, 0, 0, 0, 0, 0, 0, 0, 0, 0, 0, 0], &[0xff; 32]];
    let masks: [&[u8]; 8] = [&[0xff], &[0xff, 0xff], &[0xff; 20], &[0xff, 0], &[0xff, 0, 0, 0, 0], &[0xff; 32],
                             &[0xff, 0xff, 0, 0, 0, 0, 0, 0, 0, 0, 0, 0, 0, 0, 0, 0, 0, 0, 0, 0, 0, 0, 0, 0, 0, 0, 0, 0, 0, 0, 0, 0], &[0x0f]];
    let mut items = Vec::new();
    // shifts right at the edge of the word with narrow masks: the region ends at 255, 256, 257 ...
    if rng.gen_bool(0.2) {
        let sh: u16 = rng.gen_range(240..=262);
        let mask: Vec<u8> = (*[&[0x01u8][..], &[0xff], &[0xff, 0xff], &[0x03]].choose(rng).unwrap()).to_vec();
        items.extend([p1(0), Item::Op(0x54), Item::Push(vec![(sh >> 8) as u8, (sh & 0xff) as u8]), Item::Op(0x1c), Item::Push(mask), Item::Op(0x16), p1(1), Item::Op(0x55), Item::Op(0x00)]);
        return assemble(&items);
    }
    // constants that end up as the width of a type: SIGNEXTEND with a constant in either operand position
    if rng.gen_bool(0.12) {
        let k: u32 = *[0u32, 1, 15, 30, 31, 32, 33, 127, 128, 255, 256, 257, 260, 263, 264, 511, 65536].choose(rng).unwrap();
        let kb = k.to_be_bytes();
        let first = kb.iter().position(|b| *b != 0).unwrap_or(3);
        let val: Vec<Item> = if rng.gen_bool(0.5) { vec![p1(0), Item::Op(0x54)] } else { vec![p1(0), Item::Op(0x35)] };
        if rng.gen_bool(0.5) {
            items.extend(val);
            items.extend([Item::Push(kb[first..].to_vec()), Item::Op(0x0b)]);
        } else {
            items.push(Item::Push(kb[first..].to_vec()));
            items.extend(val);
            items.push(Item::Op(0x0b));
        }
        items.extend([p1(1), Item::Op(0x55), Item::Op(0x00)]);
        return assemble(&items);
    }
    // several extractions from ONE slot, some of them nested, stored to different slots
    if rng.gen_bool(0.2) {
        for i in 0..rng.gen_range(2..4u8) {
            items.extend([p1(0), Item::Op(0x54)]);
            if rng.gen_bool(0.5) {
                items.extend([Item::Push(vec![0xff; 7]), Item::Op(0x16), p1(*[8u8, 16, 40, 100].choose(rng).unwrap()), Item::Op(0x1c)]);
            } else {
                items.extend([p1(*[8u8, 64, 72, 128, 200].choose(rng).unwrap()), Item::Op(0x1c)]);
            }
            items.extend([p1(0xff), Item::Op(0x16), p1(i + 1), Item::Op(0x55)]);
        }
        items.push(Item::Op(0x00));
        return assemble(&items);
    }
    // sub-words of sub-words, and masked values moved by a multiplication with a power of two
    if rng.gen_bool(0.35) {
        let a: u8 = *[0u8, 8, 64, 100, 200, 248].choose(rng).unwrap();
        let b: u8 = *[0u8, 8, 56, 100, 200].choose(rng).unwrap();
        let m1 = masks[rng.gen_range(0..3)].to_vec();
        if rng.gen_bool(0.5) {
            // sstore(1, (((sload(0) >> a) & m1) >> b) & 0xff)
            items.extend([p1(0), Item::Op(0x54), p1(a), Item::Op(0x1c), Item::Push(m1), Item::Op(0x16), p1(b), Item::Op(0x1c), p1(0xff), Item::Op(0x16), p1(1), Item::Op(0x55)]);
        } else {
            // sstore(1, (sload(0) & m1) * 2^k)
            let k = *[8u32, 64, 128, 200, 248, 255].choose(rng).unwrap();
            let mut pow = [0u8; 32];
            pow[31 - (k / 8) as usize] = 1 << (k % 8);
            let first = pow.iter().position(|b| *b != 0).unwrap();
            items.extend([p1(0), Item::Op(0x54), Item::Push(m1), Item::Op(0x16), Item::Push(pow[first..].to_vec()), Item::Op(0x02), p1(1), Item::Op(0x55)]);
        }
        items.push(Item::Op(0x00));
        return assemble(&items);
    }
    for i in 0..rng.gen_range(1..4u8) {
        let shift = shifts.choose(rng).unwrap().to_vec();
        let mask = masks.choose(rng).unwrap().to_vec();
        let shop = *[0x1cu8, 0x1b, 0x1d, 0x04, 0x02].choose(rng).unwrap();
        // sstore(i+1, (sload(i) <shift-op> shift) & mask)
        items.extend([p1(i), Item::Op(0x54)]);
        match shop {
            0x04 | 0x02 => items.extend([Item::Push(shift), Item::Op(0x90), Item::Op(shop)]),
            _ => items.extend([Item::Push(shift), Item::Op(shop)]),
        }
        items.extend([Item::Push(mask), Item::Op(0x16), p1(i + 1), Item::Op(0x55)]);
    }
    items.push(Item::Op(0x00));
    assemble(&items)
}

/// Storage-free programs full of look-alike hashing, and programs that use such hashes as values (C05).
fn lookalike_program(rng: &mut StdRng, with_storage: bool) -> Vec<u8> {
    let mut items = Vec::new();
    for _ in 0..rng.gen_range(1..5) {
        let c = rng.gen_range(0..30u8);
        match rng.gen_range(0..if with_storage { 7 } else { 6 }) {
            5 | 6 if rng.gen_bool(0.5) || !with_storage => {
                // the hash of a small slot number as a pushed literal (what the optimiser leaves of keccak(c)),
                // alone, plus an index, or as the second half of a hashed pair
                let lit = Item::Push(hex::decode(keccak_word(u64::from(c))).unwrap());
                match rng.gen_range(0..3) {
                    0 => items.push(lit),
                    1 => items.extend([lit, p1(4), Item::Op(0x35), Item::Op(0x01)]),
                    _ => items.extend([p1(4), Item::Op(0x35), lit, Item::Op(0x01)]),
                }
            }
            3 | 5 | 6 => {
                // bytes that are not storage instructions but look like them to a careless table
                // (0x5c / 0x5d are unassigned in the targeted fork), with constant operands
                if rng.gen_bool(0.5) {
                    items.extend([p1(c), Item::Op(0x5c), Item::Op(0x50)]);
                } else {
                    items.extend([p1(4), Item::Op(0x35), p1(c), Item::Op(0x5d)]);
                }
                continue;
            }
            4 => {
                // keccak(sload(s) || c): the pre-image contains a storage read, the hash is only a value
                items.extend([p1(rng.gen_range(60..70)), Item::Op(0x54), p1(0), Item::Op(0x52), p1(c), p1(0x20), Item::Op(0x52), p1(0x40), p1(0), Item::Op(0x20)]);
            }
            0 => {
                // keccak(key || c)
                items.extend([p1(4), Item::Op(0x35), p1(0), Item::Op(0x52), p1(c), p1(0x20), Item::Op(0x52), p1(0x40), p1(0), Item::Op(0x20)]);
            }
            1 => {
                // keccak(c) + i
                items.extend([p1(c), p1(0), Item::Op(0x52), p1(0x20), p1(0), Item::Op(0x20), p1(4), Item::Op(0x35), Item::Op(0x01)]);
            }
            _ => {
                // (x >> 8) & 0xff | ...
                items.extend([p1(4), Item::Op(0x35), p1(8), Item::Op(0x1c), p1(0xff), Item::Op(0x16)]);
            }
        }
        // what happens to the hash: left in memory, logged, or (with_storage) stored as a VALUE
        match rng.gen_range(0..if with_storage { 4 } else { 3 }) {
            0 => items.extend([p1(0x80), Item::Op(0x52)]),
            1 => items.extend([p1(0), Item::Op(0x52), p1(0x20), p1(0), Item::Op(0xa0)]),
            2 => items.push(Item::Op(0x50)),
            _ => items.extend([p1(rng.gen_range(40..60)), Item::Op(0x55)]),
        }
    }
    if with_storage && rng.gen_bool(0.5) {
        items.extend([p1(rng.gen_range(60..80)), Item::Op(0x54), Item::Op(0x50)]);
    }
    items.push(Item::Op(0x00));
    assemble(&items)
}

/// One SSTORE (and one SLOAD) instruction shared by several call sites on one path, each passing its own literal
/// key: `PUSH ret; PUSH val; PUSH key; PUSH setter; JUMP`, with `setter: JUMPDEST SSTORE JUMP` (C06: every key counts,
/// however often the instruction that uses it has already run).
fn shared_accessor_program(rng: &mut StdRng) -> Vec<u8> {
    let mut items = Vec::new();
    let n = rng.gen_range(2..6usize);
    let (setter, getter) = (100usize, 101usize);
    let lbl = |label: usize| Item::PushLabel { label, width: 2, high: 0, delta: 0 };
    for i in 0..n {
        let key: Vec<u8> = match rng.gen_range(0..4) {
            0 => vec![rng.gen_range(0..50)],
            1 => vec![1, 0, 0, 0, 0, 0, 0, 0, rng.gen()],
            2 => unhex("360894a13ba1a3210667c828492db98dca3e2076cc3735a920a3ca505d382bbc").unwrap(),
            _ => {
                let mut k = vec![0u8; 32];
                rng.fill(&mut k[..]);
                k
            }
        };
        items.push(lbl(i));
        if rng.gen_bool(0.7) {
            // the value: an argument, or a constant
            if rng.gen_bool(0.5) {
                items.extend([p1(4), Item::Op(0x35)]);
            } else {
                items.push(p1(rng.gen_range(1..200)));
            }
            items.extend([Item::Push(key), lbl(setter), Item::Op(0x56)]);
        } else {
            items.extend([Item::Push(key), lbl(getter), Item::Op(0x56)]);
        }
        items.push(Item::Label(i));
    }
    items.push(Item::Op(0x00));
    items.extend([Item::Label(setter), Item::Op(0x55), Item::Op(0x56)]);
    items.extend([Item::Label(getter), Item::Op(0x54), Item::Op(0x50), Item::Op(0x56)]);
    assemble(&items)
}

/// Programs whose storage instructions are all dead: the live part only hashes and masks (leaving look-alike slot
/// hashes on the stack) and then ends - by a halting instruction, an unassigned byte, a jump whose constant target
/// is no jump destination (out of range, inside the code but not a JUMPDEST, a JUMPDEST offset plus 2^32 / 2^64,
/// a 0x5b inside the data of a trailing PUSH that the end of the code cuts short) or a jump over the dead part.
/// The EVM never executes the SLOAD / SSTORE bytes that follow, so the layout is empty (C05; `Cfg.tla` decides
/// what is dead from the code bytes alone).
fn dead_storage_program(rng: &mut StdRng) -> Vec<u8> {
    let mut items = Vec::new();
    // live: storage-free hashing that leaves something slot-like on the stack
    let c = rng.gen_range(0..30u8);
    match rng.gen_range(0..4) {
        0 => items.extend([Item::Op(0x33), p1(0), Item::Op(0x52), p1(c), p1(0x20), Item::Op(0x52), p1(0x40), p1(0), Item::Op(0x20)]),
        1 => items.extend([p1(c), p1(0), Item::Op(0x52), p1(0x20), p1(0), Item::Op(0x20), p1(4), Item::Op(0x35), Item::Op(0x01)]),
        2 => items.extend([p1(4), Item::Op(0x35)]),
        _ => items.push(p1(c)),
    }
    // dead: storage accesses that use what the live part left behind, and constants of their own
    let mut dead: Vec<Item> = Vec::new();
    if rng.gen_bool(0.5) {
        dead.push(Item::Label(7));
    }
    for _ in 0..rng.gen_range(1..4) {
        match rng.gen_range(0..4) {
            0 => dead.extend([p1(rng.gen_range(0..40)), Item::Op(0x54), Item::Op(0x50)]),
            1 => dead.extend([p1(rng.gen_range(1..200)), p1(rng.gen_range(0..40)), Item::Op(0x55)]),
            2 => dead.extend([Item::Op(0x80), Item::Op(0x54), Item::Op(0x50)]),
            _ => dead.extend([p1(4), Item::Op(0x35), Item::Op(0x81), Item::Op(0x55)]),
        }
    }
    dead.push(Item::Op(0x00));
    let lbl = |label: usize, width: usize, high: u8, delta: i64| Item::PushLabel { label, width, high, delta };
    match rng.gen_range(0..9) {
        0 => items.push(Item::Op(*[0x00u8, 0xfe, 0xff, 0x0c, 0x21, 0xef, 0x5c].choose(rng).unwrap())),
        1 => items.extend([p1(0), p1(0), Item::Op(*[0xf3u8, 0xfd].choose(rng).unwrap())]),
        // a constant target that is no destination
        2 => items.extend([Item::Push(vec![0x7f, 0xff]), Item::Op(0x56)]),
        3 => items.extend([lbl(7, 2, 0, 1), Item::Op(0x56)]),
        4 => items.extend([lbl(7, 5, 1, 0), Item::Op(0x56)]),
        5 => items.extend([lbl(7, 9, 1, 0), Item::Op(0x56)]),
        6 => {
            // jump over the dead part
            items.extend([lbl(8, 2, 0, 0), Item::Op(0x56)]);
            items.extend(dead.clone());
            items.extend([Item::Label(8), Item::Op(0x00)]);
            return assemble(&items);
        }
        7 => {
            // a conditional jump to a bad target: the fall-through stops
            items.extend([p1(1), lbl(7, 2, 0, 1), Item::Op(0x57), Item::Op(0x00)]);
        }
        _ => {
            // the dead part sits in the data of a trailing PUSH32 that the end of the code cuts short; the live part
            // jumps at the 0x5b inside it
            items.extend([lbl(9, 2, 0, 0), Item::Op(0x56), Item::Op(0x00)]);
            let mut code = assemble(&items);
            // where label 9 would be: right after the PUSH32 byte
            let at = code.len() + 1;
            let w = code.len();
            // patch the PUSH2 immediate (the last PUSH2 before the JUMP)
            code[w - 4] = (at >> 8) as u8;
            code[w - 3] = (at & 0xff) as u8;
            code.push(0x7f);
            code.extend([0x5b, 0x60, rng.gen_range(0..40), 0x54, 0x50, 0x60, 0x01, 0x60, rng.gen_range(0..40), 0x55, 0x00]);
            return code;
        }
    }
    items.extend(dead);
    assemble(&items)
}

/// Values of 8..128 bits packed into words with holes between (and below) the fields, read back in parts that cut
/// the fields, and packed again - the very same values, or the parts read back - high up in other slots (C12: what
/// is learnt about a field in one slot is carried into every slot that holds the same value).
fn packed_dataflow_program(rng: &mut StdRng) -> Vec<u8> {
    let mut items = Vec::new();
    let widths = [8usize, 16, 32, 64, 64, 128];
    let nvals = rng.gen_range(2..5);
    let ws: Vec<usize> = (0..nvals).map(|_| widths[rng.gen_range(0..widths.len())]).collect();
    let mask = |bits: usize| Item::Push(vec![0xff; bits / 8]);
    let pow2 = |off: usize| {
        let mut v = vec![0u8; off / 8 + 1];
        v[0] = 1 << (off % 8);
        Item::Push(v)
    };
    // value i: calldataload(4 + 32 i) & mask, computed once and kept on the stack, so that every use is the very
    // same value (DUP); in one program out of three every use computes it afresh instead
    let shared = rng.gen_bool(0.67);
    if shared {
        for i in 0..nvals {
            items.extend([p1((4 + 32 * i) as u8), Item::Op(0x35), mask(ws[i]), Item::Op(0x16)]);
        }
    }
    // `extra`: how many items lie above the values at the moment
    let val = |i: usize, w: usize, extra: usize| -> Vec<Item> {
        if shared {
            vec![Item::Op(0x80 + (nvals - 1 - i + extra) as u8)]
        } else {
            vec![p1((4 + 32 * i) as u8), Item::Op(0x35), mask(w), Item::Op(0x16)]
        }
    };
    let nslots = rng.gen_range(2..4usize);
    let mut placed: Vec<Vec<(usize, usize)>> = Vec::new(); // per slot: (offset, width)
    for slot in 0..nslots {
        // fields in ascending order with random holes; later slots are filled up to the top of the word, so that
        // anything placed even slightly too high leaves it
        let mut chosen: Vec<(usize, usize)> = Vec::new();
        for i in 0..nvals {
            if rng.gen_bool(if slot == 0 { 0.8 } else { 0.6 }) {
                chosen.push((i, 8 * [0usize, 1, 4, 8, 8][rng.gen_range(0..5)]));
            }
        }
        let total: usize = chosen.iter().map(|(i, g)| ws[*i] + g).sum();
        let mut pos = if slot == 0 { 8 * rng.gen_range(0..2usize) } else { 256usize.saturating_sub(total) };
        let mut first = true;
        let mut fields = Vec::new();
        for (i, gap) in chosen {
            pos += gap;
            if pos + ws[i] > 256 {
                break;
            }
            items.extend(val(i, ws[i], usize::from(!first)));
            if pos > 0 || rng.gen_bool(0.5) {
                items.extend([pow2(pos), Item::Op(0x02)]);
            }
            if !first {
                items.push(Item::Op(0x17));
            }
            first = false;
            fields.push((pos, ws[i]));
            pos += ws[i];
        }
        if first {
            items.extend(val(0, ws[0], 0));
            fields.push((0, ws[0]));
        }
        items.extend([p1(slot as u8), Item::Op(0x55)]);
        placed.push(fields);
    }
    // partial reads that cut fields, stored on their own or packed high into a further slot
    for r in 0..rng.gen_range(2..5usize) {
        let slot = if rng.gen_bool(0.7) { 0 } else { rng.gen_range(0..nslots) };
        let (off, w) = placed[slot][rng.gen_range(0..placed[slot].len())];
        let cut = [8usize, 16, 32][rng.gen_range(0..3)].min(w);
        let from = off + if rng.gen_bool(0.5) { 0 } else { 8 * rng.gen_range(0..=(w - cut) / 8) };
        items.extend([p1(slot as u8), Item::Op(0x54)]);
        if from > 0 {
            items.extend([Item::Push(vec![(from >> 8) as u8, from as u8]), Item::Op(0x1c)]);
        }
        items.extend([mask(cut), Item::Op(0x16)]);
        if rng.gen_bool(0.5) {
            let up = 256 - cut - 8 * rng.gen_range(0..4usize);
            items.extend([pow2(up), Item::Op(0x02)]);
        }
        items.extend([p1((10 + r) as u8), Item::Op(0x55)]);
    }
    items.push(Item::Op(0x00));
    assemble(&items)
}

/// Programs whose accesses use literal keys of every magnitude (C06).
fn literal_key_program(rng: &mut StdRng) -> Vec<u8> {
    if rng.gen_bool(0.25) {
        return shared_accessor_program(rng);
    }
    let mut items = Vec::new();
    let n = rng.gen_range(1..5);
    let fork = rng.gen_bool(0.4);
    if rng.gen_bool(0.25) {
        // a byte with no assigned opcode lies in front of the first storage instruction, jumped over
        let b = *[0x0cu8, 0x1e, 0x21, 0x2f, 0x49, 0x5c, 0xa5, 0xef, 0xf6, 0xfb].choose(rng).unwrap();
        items.extend([Item::PushLabel { label: 50, width: 2, high: 0, delta: 0 }, Item::Op(0x56), Item::Raw(vec![b]), Item::Label(50)]);
    }
    if fork {
        items.extend([Item::Op(0x36), Item::PushLabel { label: 0, width: 2, high: 0, delta: 0 }, Item::Op(0x57)]);
    }
    for i in 0..n {
        let key: Vec<u8> = match rng.gen_range(0..9) {
            0 => vec![rng.gen_range(0..50)],
            // a literal right next to the hash of a small slot number (keccak(n) +- k): a constant like any other -
            // only keccak(n) itself denotes array data
            7 | 8 => {
                let h = U256::from_be_bytes(unhex(&keccak_word(rng.gen_range(0..12))).unwrap().try_into().unwrap());
                let k = U256::from([1u32, 1, 2, 3, 7, 15, 16, 17, 32, 255, 256][rng.gen_range(0..11)]);
                (if rng.gen_bool(0.75) { h.wrapping_add(k) } else { h.wrapping_sub(k) }).to_be_bytes().to_vec()
            }
            1 => vec![1, 0, 0, 0, 0, 0, 0, 0, rng.gen()],                 // >= 2^64
            2 => {
                let mut k = vec![0u8; 17];
                k[0] = 1;
                k[16] = rng.gen();
                k
            } // >= 2^128
            3 => vec![0xff; 32],
            4 => unhex("360894a13ba1a3210667c828492db98dca3e2076cc3735a920a3ca505d382bbc").unwrap(),
            5 => {
                let mut k = vec![0u8; 32];
                rng.fill(&mut k[..]);
                k
            }
            _ => vec![0x80, 0, 0, 0, 0, 0, 0, 0, 0, 0, 0, 0, 0, 0, 0, 0, 0, 0, 0, 0, 0, 0, 0, 0, 0, 0, 0, 0, 0, 0, 0, 1],
        };
        match rng.gen_range(0..7) {
            6 => {
                // a write whose value is as large as the (default) value size limit allows, or just beyond
                items.push(Item::Op(0x33));
                for _ in 0..rng.gen_range(122..127) {
                    items.extend([Item::Op(0x33), Item::Op(0x01)]);
                }
                items.extend([Item::Push(key), Item::Op(0x55)]);
            }
            3 => {
                // a read whose value is consumed by an expression that outgrows the size limit
                items.extend([Item::Push(key), Item::Op(0x54)]);
                for _ in 0..rng.gen_range(8..10) {
                    items.extend([Item::Op(0x80), Item::Op(0x01)]);
                }
                items.push(Item::Op(0x50));
            }
            4 => {
                // clearing one member of a packed slot: sstore(k, sload(k) & ~0xff)
                let mut m = vec![0xffu8; 32];
                m[31] = 0;
                items.extend([Item::Push(key.clone()), Item::Op(0x54), Item::Push(m), Item::Op(0x16), Item::Push(key), Item::Op(0x55)]);
            }
            5 => {
                // the key computed from constants: still a constant key once folded
                items.extend([Item::Push(key), Item::Op(0x54), Item::Op(0x50)]);
            }
            0 => items.extend([Item::Push(key), Item::Op(0x54), Item::Op(0x50)]),
            1 => items.extend([p1(4), Item::Op(0x35), Item::Push(key), Item::Op(0x55)]),
            _ => items.extend([Item::Push(key.clone()), Item::Op(0x54), p1(1), Item::Op(0x01), Item::Push(key), Item::Op(0x55)]),
        }
        if fork && i == n / 2 {
            items.push(Item::Op(0x00));
            items.push(Item::Label(0));
        }
    }
    if rng.gen_bool(0.3) {
        items.push(Item::Op(0x50)); // an error after the accesses: the thread's state must still count
    }
    items.push(Item::Op(0x00));
    if fork && !items.iter().any(|i| matches!(i, Item::Label(0))) {
        items.push(Item::Label(0));
        items.push(Item::Op(0x00));
    }
    assemble(&items)
}

fn renumber(vars: &[VarDesc], rng: &mut StdRng) -> (Vec<VarDesc>, Vec<(String, String)>) {
    let mut used: Vec<[u8; 32]> = vars.iter().map(|v| v.slot).collect();
    let mut out = Vec::new();
    let mut sigma = Vec::new();
    // now and then every new slot number is the same small number plus a different multiple of 2^64
    let congruent = rng.gen_bool(0.35);
    let named = rng.gen_bool(0.4);
    let low: u8 = rng.gen_range(0..40);
    for (n, v) in vars.iter().enumerate() {
        let mut w = v.clone();
        let mut fresh = idioms::random_var(rng, &mut used).slot;
        if named && !congruent {
            // a slot named by a short printable string, left-aligned in the word
            let mut s = [0u8; 32];
            let name = [&b"balances"[..], b"owner", b"total.supply", b"allowances", b"paused"][n % 5];
            s[..name.len()].copy_from_slice(name);
            s[name.len()] = b'0' + (n / 5) as u8;
            if !used.contains(&s) {
                used.push(s);
                fresh = s;
            }
        }
        if congruent {
            let mut s = [0u8; 32];
            s[31] = low;
            if n > 0 {
                s[23 - 8 * ((n - 1) % 3)] = 1 + ((n - 1) / 3) as u8; // 2^64, 2^128, 2^192 times a small factor
            }
            if !used.contains(&s) {
                used.push(s);
                fresh = s;
            }
        }
        // arrays reached through a literal folded base: onto small slots of every kind of hash (among them the ones
        // whose hash begins with a zero byte)
        if !named && !congruent && rng.gen_bool(0.5) {
            let special = idioms::short_hash_slots();
            let n = if rng.gen_bool(0.6) { special[rng.gen_range(0..special.len())] } else { rng.gen_range(0..10_000) };
            let mut s = [0u8; 32];
            s[24..].copy_from_slice(&n.to_be_bytes());
            if !used.contains(&s) {
                used.push(s);
                fresh = s;
            }
        }
        sigma.push((hex::encode(v.slot), hex::encode(fresh)));
        w.slot = fresh;
        if rng.gen_bool(0.3) {
            w.width = *[0usize, 32].choose(rng).unwrap();
        }
        out.push(w);
    }
    (out, sigma)
}

pub fn run(o: &Opts) -> R<()> {
    let seed: u64 = o.num("seed", 1);
    let shards: usize = o.num("shards", 1);
    let prefix = o.str("out")?;
    let n_random: usize = o.num("random", 200);
    let n_other: usize = o.num("programs", 200);
    let n_pairs: usize = o.num("pairs", 60);
    let mut rng = StdRng::seed_from_u64(seed ^ 0xc04);
    let mut ws = Vec::new();
    for s in 0..shards {
        let mut w = Ndjson::create(&format!("{prefix}.{s}.ndjson"))?;
        w.put(&json!({"ev": "begin"}));
        ws.push(w);
    }
    let lim = Limits {
        l:    3,
        f:    8,
        g:    30_000_000,
        perm: true,
    };
    let mut count = 0usize;
    let mut fams = std::collections::BTreeMap::new();
    let mut oks = 0usize;
    let mut emit = |ws: &mut Vec<Ndjson>, r: J, fam: &str, count: &mut usize| {
        ws[*count % shards].put(&r);
        *count += 1;
        *fams.entry(fam.to_string()).or_insert(0usize) += 1;
    };
    // 1. descriptions enumerated by TLC (IdiomsGen)
    let mut model_index = 0usize;
    if let Some(p) = o.get("descs") {
        for line in std::fs::read_to_string(p).map_err(|e| e.to_string())?.lines().filter(|l| !l.trim().is_empty()) {
            let d: J = serde_json::from_str(line).map_err(|e| e.to_string())?;
            let mut vars: Vec<VarDesc> = d["vars"].as_array().ok_or("vars")?.iter().filter_map(VarDesc::from_json).collect();
            // the description fixes what is stored where; the code style cycles through the variants
            for (k, v) in vars.iter_mut().enumerate() {
                v.style = (model_index + k) % 4;
            }
            model_index += 1;
            let code = idioms::compile(&vars);
            let desc = json!({"vars": vars.iter().map(VarDesc::to_json).collect::<Vec<_>>()});
            let obs = observe(&code, &lim);
            if obs.res == "ok" {
                oks += 1;
            }
            emit(&mut ws, record("idioms-model", &code, Some(&desc), &obs), "idioms-model", &mut count);
        }
    }
    // 2. random ground-truth contracts (1..12 variables)
    for _ in 0..n_random {
        let (desc, code) = idioms::random_contract(&mut rng);
        let obs = observe(&code, &lim);
        if obs.res == "ok" {
            oks += 1;
        }
        emit(&mut ws, record("idioms-random", &code, Some(&desc), &obs), "idioms-random", &mut count);
    }
    // 3. other programs: masks and shifts, look-alike hashing, literal keys, control flow, real and mutated contracts
    let mut real: Vec<(String, Vec<u8>)> = Vec::new();
    if let Some(p) = o.get("corpus") {
        let v: J = serde_json::from_str(&std::fs::read_to_string(p).map_err(|e| e.to_string())?).map_err(|e| e.to_string())?;
        for c in v.as_array().ok_or("corpus")? {
            let code = unhex(c["hex"].as_str().unwrap_or(""))?;
            if code.len() >= 100 && code.len() <= o.num("max-real-bytes", 2500usize) {
                real.push((c["name"].as_str().unwrap_or("?").to_string(), code));
            }
        }
    }
    for i in 0..n_other {
        let (fam, code): (&str, Vec<u8>) = match i % 7 {
            6 => ("dead-storage", dead_storage_program(&mut rng)),
            0 => ("mask-shift", mask_shift_program(&mut rng)),
            1 => ("lookalike-storage-free", lookalike_program(&mut rng, false)),
            2 => ("lookalike-as-value", lookalike_program(&mut rng, true)),
            3 => ("literal-keys", literal_key_program(&mut rng)),
            4 => ("control-flow", progen::any(&mut rng).code),
            5 | _ => {
                if real.is_empty() {
                    ("mask-shift", mask_shift_program(&mut rng))
                } else {
                    let (_, c) = &real[rng.gen_range(0..real.len())];
                    let mut m = c.clone();
                    for _ in 0..rng.gen_range(0..3) {
                        let at = rng.gen_range(0..m.len());
                        m[at] = rng.gen();
                    }
                    ("real-mutated", m)
                }
            }
        };
        let obs = observe(&code, &lim);
        if obs.res == "ok" {
            oks += 1;
        }
        emit(&mut ws, record(fam, &code, None, &obs), fam, &mut count);
    }
    // 3b. every region that ends within two bits of the end of the word, through SHR and through DIV
    for end in 253u16..=259 {
        for (width, mask) in [(1u16, vec![0x01u8]), (2, vec![0x03]), (8, vec![0xff]), (16, vec![0xff, 0xff]), (160, vec![0xff; 20])] {
            if end < width {
                continue;
            }
            let sh = end - width;
            for via_div in [false, true] {
                let mut items = vec![p1(0), Item::Op(0x54)];
                if via_div {
                    if sh > 255 {
                        continue;
                    }
                    let mut pow = [0u8; 32];
                    pow[31 - (sh / 8) as usize] = 1 << (sh % 8);
                    let first = pow.iter().position(|b| *b != 0).unwrap();
                    items.extend([Item::Push(pow[first..].to_vec()), Item::Op(0x90), Item::Op(0x04)]);
                } else {
                    items.extend([Item::Push(vec![(sh >> 8) as u8, (sh & 0xff) as u8]), Item::Op(0x1c)]);
                }
                items.extend([Item::Push(mask.clone()), Item::Op(0x16), p1(1), Item::Op(0x55), Item::Op(0x00)]);
                let code = assemble(&items);
                let obs = observe(&code, &lim);
                if obs.res == "ok" {
                    oks += 1;
                }
                emit(&mut ws, record("word-edge", &code, None, &obs), "word-edge", &mut count);
            }
        }
    }
    // 3c. constants that end up as the width of a type: SIGNEXTEND with every boundary constant in either position
    for k in [0u32, 1, 7, 15, 30, 31, 32, 33, 127, 128, 255, 256, 257, 258, 260, 263, 264, 511, 65536] {
        for const_on_top in [false, true] {
            for from_storage in [false, true] {
                let kb = k.to_be_bytes();
                let first = kb.iter().position(|b| *b != 0).unwrap_or(3);
                let val: Vec<Item> = if from_storage { vec![p1(0), Item::Op(0x54)] } else { vec![p1(0), Item::Op(0x35)] };
                let mut items = Vec::new();
                if const_on_top {
                    items.extend(val);
                    items.extend([Item::Push(kb[first..].to_vec()), Item::Op(0x0b)]);
                } else {
                    items.push(Item::Push(kb[first..].to_vec()));
                    items.extend(val);
                    items.push(Item::Op(0x0b));
                }
                items.extend([p1(1), Item::Op(0x55), Item::Op(0x00)]);
                let code = assemble(&items);
                let obs = observe(&code, &lim);
                if obs.res == "ok" {
                    oks += 1;
                }
                emit(&mut ws, record("width-constants", &code, None, &obs), "width-constants", &mut count);
            }
        }
    }
    // 3d. bulk copies whose constant size is not a whole number of words: every word of the copy, the last
    //     partial one included, loaded and stored to a slot of its own
    for op in [0x37u8, 0x39] {
        for size in [1u16, 31, 32, 33, 40, 64, 65, 100, 394, 395, 400, 1000] {
            let words = (usize::from(size).min(400) + 31) / 32;
            for form in 0..3 {
            // the size as a literal, or computed from constants (a sum, a difference): still a constant size
            let size_items: Vec<Item> = match form {
                0 => vec![Item::Push(vec![(size >> 8) as u8, size as u8])],
                1 => vec![Item::Push(vec![((size - size / 2) >> 8) as u8, (size - size / 2) as u8]), Item::Push(vec![((size / 2) >> 8) as u8, (size / 2) as u8]), Item::Op(0x01)],
                _ => vec![p1(0x20), Item::Push(vec![((size + 0x20) >> 8) as u8, (size + 0x20) as u8]), Item::Op(0x03)],
            };
            let mut items = size_items;
            items.extend([p1(4), p1(0), Item::Op(op)]);
            for w in [0usize, words.saturating_sub(2), words - 1].iter().copied().collect::<BTreeSet<usize>>() {
                let off = 32 * w;
                items.extend([Item::Push(vec![(off >> 8) as u8, off as u8]), Item::Op(0x51), p1(w as u8), Item::Op(0x55)]);
            }
            items.push(Item::Op(0x00));
            let code = assemble(&items);
            let obs = observe(&code, &lim);
            if obs.res == "ok" {
                oks += 1;
            }
            emit(&mut ws, record("ragged-copy", &code, None, &obs), "ragged-copy", &mut count);
            }
        }
    }
    // 3e. packed words with holes whose fields travel: read back in part (cutting a field), and packed again, high up,
    //     into another slot
    for _ in 0..n_other / 6 {
        let code = packed_dataflow_program(&mut rng);
        let obs = observe(&code, &lim);
        if obs.res == "ok" {
            oks += 1;
        }
        emit(&mut ws, record("packed-dataflow", &code, None, &obs), "packed-dataflow", &mut count);
    }
    // 4. C11: composition of fragments with disjoint slot sets, and renumbering
    let mut compose = 0usize;
    let mut renames = 0usize;
    for _ in 0..n_pairs {
        let mut used = Vec::new();
        let mut a: Vec<VarDesc> = (0..rng.gen_range(1..4)).map(|_| idioms::random_var(&mut rng, &mut used)).collect();
        let mut b: Vec<VarDesc> = (0..rng.gen_range(1..4)).map(|_| idioms::random_var(&mut rng, &mut used)).collect();
        // often: both fragments write values from the same environment source, in different shapes
        if rng.gen_bool(0.5) {
            let src = rng.gen_range(1..6);
            for v in a.iter_mut().chain(b.iter_mut()).filter(|v| v.wall == 0 && v.pre == 0) {
                v.src = src;
                if !v.access.contains('w') {
                    v.access = "rw".to_string();
                }
            }
        }
        let mut ab = a.clone();
        ab.extend(b.clone());
        if rng.gen_bool(0.5) {
            ab.reverse(); // a different dispatcher shape
        }
        // the dispatcher, or a chain of guards (accesses of both fragments then share paths)
        let shape = if rng.gen_bool(0.35) && idioms::branch_count(&ab) <= 5 { 2 } else { 0 };
        let (oa, ob, oab) = (observe(&idioms::compile_shaped(&a, shape), &lim), observe(&idioms::compile_shaped(&b, shape), &lim),
                             observe(&idioms::compile_shaped(&ab, shape), &lim));
        emit(&mut ws, json!({"ev": "compose", "a": oa.entries, "b": ob.entries, "ab": oab.entries, "shape": shape,
                             "res": [oa.res, ob.res, oab.res], "hex": hex::encode(idioms::compile_shaped(&ab, shape)),
                             "vars": ab.iter().map(VarDesc::to_json).collect::<Vec<_>>()}), "compose", &mut count);
        compose += 1;
        // renumbering, under every control-flow shape (straight-line code puts all accesses on one path)
        let rshape = if idioms::branch_count(&a) <= 5 { rng.gen_range(0..3) } else { rng.gen_range(0..2) };
        let (q, sigma) = renumber(&a, &mut rng);
        let op = observe(&idioms::compile_shaped(&a, rshape), &lim);
        let oq = observe(&idioms::compile_shaped(&q, rshape), &lim);
        emit(&mut ws, json!({"ev": "rename", "p": op.entries, "q": oq.entries, "res": [op.res, oq.res], "shape": rshape,
                             "sigma": sigma.iter().map(|(f, t)| json!([f, t])).collect::<Vec<_>>(),
                             "hex": hex::encode(idioms::compile_shaped(&a, rshape)), "hex_q": hex::encode(idioms::compile_shaped(&q, rshape))}), "rename", &mut count);
        renames += 1;
    }
    let mut recs = 0;
    for w in ws {
        recs += w.finish();
    }
    println!("{}", json!({"programs": count, "records": recs, "analysed_ok": oks, "families": fams, "compose": compose, "renames": renames}));
    Ok(())
}

/// One program, for `--replay`.
pub fn one(o: &Opts) -> R<()> {
    let code = unhex(&o.str("hex")?)?;
    let lim = Limits { l: 3, f: 8, g: 30_000_000, perm: true };
    let mut w = Ndjson::create(&o.str("out")?)?;
    w.put(&json!({"ev": "begin"}));
    let obs = observe(&code, &lim);
    w.put(&record("replay", &code, None, &obs));
    w.finish();
    Ok(())
}
