//! C14 / C15 / C02 at the level of the unifier: judgement sets are loaded into a
//! `TypeCheckerState` through `allocate_ty_var` / `infer`, `unification::unify`
//! is run, and the forest is projected through `find` / `get_data`.

use std::collections::{BTreeMap, BTreeSet};

use ethnum::U256;
use sha3::Digest;
use rand::{rngs::StdRng, seq::SliceRandom, Rng, SeedableRng};
use serde_json::{json, Value as J};
use storage_layout_extractor::{
    data::vector_map::FromUniqueIndex,
    tc::{
        expression::{Span, TypeExpression as TE, WordUse},
        state::{type_variable::TypeVariable, TypeCheckerState},
        unification,
    },
};

use crate::{
    c16::{idx, te_json},
    util::{guarded, write_json, Ndjson, Opts, R},
    vmrun::ScriptedWatchdog,
};

fn tv(i: usize) -> TypeVariable {
    TypeVariable::from_index(i)
}

fn usage_from(s: &str) -> WordUse {
    match s {
        "numeric" => WordUse::Numeric,
        "unsigned" => WordUse::UnsignedNumeric,
        "signed" => WordUse::SignedNumeric,
        "bool" => WordUse::Bool,
        "address" => WordUse::Address,
        "selector" => WordUse::Selector,
        "function" => WordUse::Function,
        _ => WordUse::Bytes,
    }
}

pub fn te_from_json(e: &J) -> Option<TE> {
    let n = |k: &str| e[k].as_u64().map(|x| x as usize);
    Some(match e["k"].as_str()? {
        "any" => TE::Any,
        "bytes" => TE::Bytes,
        "word" => TE::word(n("w").filter(|w| *w != 0), usage_from(e["u"].as_str()?)),
        "map" => TE::mapping(tv(n("key")?), tv(n("val")?)),
        "dyn" => TE::dyn_array(tv(n("el")?)),
        "fix" => TE::FixedArray {
            element: tv(n("el")?),
            length:  U256::from(e["len"].as_u64()?),
        },
        "eq" => TE::eq(tv(n("id")?)),
        "packed" => TE::Packed {
            types:     e["spans"]
                .as_array()?
                .iter()
                .map(|s| Span::new(tv(s[0].as_u64().unwrap() as usize), s[1].as_u64().unwrap() as usize, s[2].as_u64().unwrap() as usize))
                .collect(),
            is_struct: e["struct"].as_bool().unwrap_or(false),
        },
        "conflict" => TE::Conflict {
            conflicts: vec![],
            reasons:   vec!["seeded".into()],
        },
        _ => return None,
    })
}

/// Renames the type variables of an expression (the numbering of variables follows hash-map
/// iteration order in the real pipeline, so results must not depend on it).
fn rename(e: &TE, pi: &[usize]) -> TE {
    let r = |v: &TypeVariable| tv(pi[idx(*v)]);
    match e {
        TE::Equal { id } => TE::eq(r(id)),
        TE::Mapping { key, value } => TE::mapping(r(key), r(value)),
        TE::DynamicArray { element } => TE::dyn_array(r(element)),
        TE::FixedArray { element, length } => TE::FixedArray { element: r(element), length: *length },
        TE::Packed { types, is_struct } => TE::Packed {
            types:     types.iter().map(|s| Span::new(r(&s.typ), s.offset, s.size)).collect(),
            is_struct: *is_struct,
        },
        other => other.clone(),
    }
}

/// Runs the unifier on the judgement set renamed by `pi` and maps the outcome back.
pub fn run_unify_renamed(nvars: usize, judgements: &[(usize, TE)], budget: u64, pi: &[usize]) -> UnifyOutcome {
    let renamed: Vec<(usize, TE)> = judgements.iter().map(|(v, e)| (pi[*v], rename(e, pi))).collect();
    let mut out = run_unify(nvars, &renamed, budget);
    // inverse renaming of the declared variables; variables the unifier allocated keep their ids
    let mut inv = vec![0usize; nvars];
    for (i, p) in pi.iter().enumerate() {
        inv[*p] = i;
    }
    let back = |v: usize| if v < nvars { inv[v] } else { v };
    let back_e = |e: &J| -> J {
        let mut e = e.clone();
        for f in ["key", "val", "el", "id"] {
            if let Some(x) = e.get(f).and_then(J::as_u64) {
                e[f] = json!(back(x as usize));
            }
        }
        if let Some(sp) = e.get("spans").and_then(J::as_array).cloned() {
            e["spans"] = J::Array(sp.iter().map(|s| json!([back(s[0].as_u64().unwrap_or(0) as usize), s[1], s[2]])).collect());
        }
        e
    };
    let mut vars: Vec<(usize, Vec<usize>, Vec<J>)> = out
        .vars
        .iter()
        .map(|(v, cls, ex)| {
            let mut c: Vec<usize> = cls.iter().map(|m| back(*m)).collect();
            c.sort_unstable();
            (back(*v), c, ex.iter().map(back_e).collect())
        })
        .collect();
    vars.sort_by_key(|x| x.0);
    out.vars = vars;
    out
}

fn random_perm(rng: &mut StdRng, n: usize) -> Vec<usize> {
    let mut p: Vec<usize> = (0..n).collect();
    p.shuffle(rng);
    p
}

pub struct UnifyOutcome {
    /// per variable (declared ones first, then any the unifier allocated): class members and expressions
    pub vars:    Vec<(usize, Vec<usize>, Vec<J>)>,
    /// variables of the state the resulting forest does not know
    pub unknown: Vec<usize>,
    pub nvars:   usize,
    pub stopped: bool,
    pub polls:   u64,
    pub panic:   Option<String>,
}

/// Runs the real unifier on `judgements` over `nvars` declared variables.
pub fn run_unify(nvars: usize, judgements: &[(usize, TE)], budget: u64) -> UnifyOutcome {
    let wd = ScriptedWatchdog::new(1, None, budget);
    let wd2: std::rc::Rc<dyn storage_layout_extractor::watchdog::Watchdog> = wd.clone();
    let r = guarded(|| {
        let mut state = TypeCheckerState::empty();
        for _ in 0..nvars {
            let _ = unsafe { state.allocate_ty_var() };
        }
        for (v, e) in judgements {
            state.infer(tv(*v), e.clone());
        }
        let res = unification::unify(&mut state, &wd2);
        let stopped = res.is_err();
        let mut out = Vec::new();
        let mut unknown: Vec<usize> = Vec::new();
        let total = state.tyvar_count();
        if !stopped {
            let forest = state.result();
            // which variables of the state the forest knows about, asked before any `find` (which registers
            // what it is asked about): every variable of the state must have come out of unification resolved
            for v in 0..total {
                if forest.get_data(&tv(v)).is_none() {
                    unknown.push(v);
                }
            }
            let mut by_rep: BTreeMap<usize, Vec<usize>> = BTreeMap::new();
            for v in 0..total {
                let rep = idx(forest.find(&tv(v)));
                by_rep.entry(rep).or_default().push(v);
            }
            for v in 0..total {
                let rep = idx(forest.find(&tv(v)));
                let exprs: Vec<J> = forest
                    .get_data(&tv(v))
                    .map(|s| {
                        let mut x: Vec<J> = s.iter().map(te_json).collect();
                        x.sort_by_key(|j| j.to_string());
                        x
                    })
                    .unwrap_or_default();
                out.push((v, by_rep[&rep].clone(), exprs));
            }
        }
        (out, total, stopped, unknown)
    });
    match r {
        Ok((vars, total, stopped, unknown)) => UnifyOutcome {
            unknown,
            vars,
            nvars: total,
            stopped,
            polls: wd.polls.get(),
            panic: None,
        },
        Err(p) => UnifyOutcome {
            unknown: vec![],
            vars:    vec![],
            nvars,
            stopped: false,
            polls:   wd.polls.get(),
            panic:   Some(p),
        },
    }
}

fn outcome_json(o: &UnifyOutcome, declared: usize) -> J {
    let mut v = json!({
        "nvars": o.nvars, "stopped": o.stopped, "polls": o.polls, "unknown": o.unknown,
        "vars": o.vars.iter().filter(|(v, ..)| *v < declared.max(o.nvars)).map(|(v, cls, ex)| json!({"v": v, "cls": cls, "exprs": ex})).collect::<Vec<_>>(),
    });
    if let Some(p) = &o.panic {
        v["panic"] = json!(p);
    }
    v
}

/// A representative-independent view of an outcome restricted to the declared variables.
fn norm_outcome(vars: &[(usize, Vec<usize>, Vec<J>)], declared: usize) -> Vec<(Vec<usize>, String)> {
    let class_of = |x: usize| -> Vec<usize> {
        vars.iter().find(|(v, ..)| *v == x).map(|(_, c, _)| c.iter().copied().filter(|m| *m < declared).collect()).unwrap_or_default()
    };
    let norm_e = |e: &J| -> String {
        let mut e = e.clone();
        for f in ["key", "val", "el"] {
            if let Some(x) = e.get(f).and_then(J::as_u64) {
                e[f] = json!(class_of(x as usize));
            }
        }
        if let Some(sp) = e.get("spans").and_then(J::as_array).cloned() {
            e["spans"] = J::Array(sp.iter().map(|s| json!([class_of(s[0].as_u64().unwrap_or(0) as usize), s[1], s[2]])).collect());
        }
        if e["k"] == "conflict" {
            e = json!({"k": "conflict"});
        }
        e.to_string()
    };
    (0..declared)
        .map(|v| {
            let (_, cls, ex) = vars.iter().find(|(x, ..)| *x == v).cloned().unwrap_or((v, vec![v], vec![]));
            let cls: Vec<usize> = cls.into_iter().filter(|m| *m < declared).collect();
            let t = match ex.len() {
                0 => json!({"k": "any"}).to_string(),
                1 => norm_e(&ex[0]),
                _ => format!("multi:{}", ex.len()),
            };
            (cls, t)
        })
        .collect()
}

fn model_outcomes(case: &J, declared: usize) -> BTreeSet<Vec<(Vec<usize>, String)>> {
    let mut set = BTreeSet::new();
    for o in case["outcomes"].as_array().into_iter().flatten() {
        // o is an array indexed by variable (TLC prints functions over 0..n as arrays or objects)
        let get = |v: usize| -> J {
            if let Some(a) = o.as_array() {
                a.get(v).cloned().unwrap_or(J::Null)
            } else {
                o[v.to_string()].clone()
            }
        };
        let vars: Vec<(usize, Vec<usize>, Vec<J>)> = (0..declared)
            .map(|v| {
                let e = get(v);
                let mut cls: Vec<usize> = e["cls"].as_array().map(|a| a.iter().map(|x| x.as_u64().unwrap() as usize).collect()).unwrap_or_default();
                cls.sort_unstable();
                let typ = e["typ"].clone();
                let ex = if typ["k"] == "any" { vec![] } else { vec![typ] };
                (v, cls, ex)
            })
            .collect();
        set.insert(norm_outcome(&vars, declared));
    }
    set
}

fn parse_case(case: &J) -> Option<Vec<(usize, TE)>> {
    let mut js = Vec::new();
    for j in case["j"].as_array()? {
        js.push((j["v"].as_u64()? as usize, te_from_json(&j["e"])?));
    }
    Some(js)
}

/// `unify-replay`: every judgement set the model enumerated, `--runs` times on the real unifier.
/// Writes (a) a summary of disagreements with the model's outcome set, (b) a trace for UnifyTrace.
pub fn replay(o: &Opts) -> R<()> {
    let text = std::fs::read_to_string(o.str("cases")?).map_err(|e| e.to_string())?;
    let runs: usize = o.num("runs", 6);
    let nvars: usize = o.num("nvars", 3);
    let mut w = Ndjson::create(&o.str("trace")?)?;
    w.put(&json!({"ev": "begin"}));
    let mut n = 0u64;
    let mut prng = StdRng::seed_from_u64(0xbeef);
    let mut outside = Vec::new();
    let mut n_outside = 0u64;
    let mut nondeterministic = 0u64;
    for line in text.lines().filter(|l| !l.trim().is_empty()) {
        let case: J = serde_json::from_str(line).map_err(|e| e.to_string())?;
        let Some(js) = parse_case(&case) else { continue };
        let allowed = model_outcomes(&case, nvars);
        let mut seen = BTreeSet::new();
        let mut outs = Vec::new();
        let mut shuffled = js.clone();
        for r in 0..runs {
            // the order of `infer` calls is one more source of order
            if r % 2 == 1 {
                shuffled.reverse();
            }
            let out = if r < 2 { run_unify(nvars, &shuffled, 20_000) } else { let pi = random_perm(&mut prng, nvars); run_unify_renamed(nvars, &shuffled, 20_000, &pi) };
            let norm = norm_outcome(&out.vars, nvars);
            if !out.stopped && out.panic.is_none() && !allowed.contains(&norm) {
                n_outside += 1;
                if outside.len() < 30 {
                    outside.push(json!({"j": case["j"], "real": outcome_json(&out, nvars), "model_outcomes": case["outcomes"]}));
                }
            }
            seen.insert(norm);
            outs.push(outcome_json(&out, nvars));
        }
        if seen.len() > 1 {
            nondeterministic += 1;
        }
        w.put(&json!({"ev": "unify", "nv": nvars, "j": case["j"], "runs": outs, "distinct": seen.len(), "src": "model"}));
        n += 1;
    }
    w.finish();
    write_json(
        &o.str("out")?,
        &json!({"cases": n, "runs_per_case": runs, "real_outcomes_outside_model": n_outside, "examples": outside,
                "cases_with_more_than_one_real_outcome": nondeterministic}),
    )
}

fn random_te(rng: &mut StdRng, nv: usize, packed: bool) -> TE {
    let v = |rng: &mut StdRng| tv(rng.gen_range(0..nv));
    let widths = [None, Some(8), Some(16), Some(32), Some(64), Some(128), Some(160), Some(192), Some(256)];
    match rng.gen_range(0..if packed { 12 } else { 10 }) {
        0 => TE::Any,
        1 => TE::Bytes,
        2 | 3 | 4 => {
            let u = *[WordUse::Bytes, WordUse::Numeric, WordUse::UnsignedNumeric, WordUse::SignedNumeric].choose(rng).unwrap();
            TE::word(*widths.choose(rng).unwrap(), u)
        }
        5 => {
            // sized usages: usually at their inherent width, sometimes unsized or at a different width
            let u = *[WordUse::Bool, WordUse::Address, WordUse::Selector, WordUse::Function].choose(rng).unwrap();
            match rng.gen_range(0..4) {
                0 => TE::word(None, u),
                1 => TE::word(*widths.choose(rng).unwrap(), u),
                _ => TE::word(u.size(), u),
            }
        }
        6 | 7 => TE::mapping(v(rng), v(rng)),
        8 => TE::dyn_array(v(rng)),
        9 => TE::FixedArray {
            element: v(rng),
            length:  U256::from(*[1u32, 2, 3, 10].choose(rng).unwrap()),
        },
        _ => {
            let n = rng.gen_range(0..4);
            let spans = (0..n)
                .map(|_| {
                    let off = *[0usize, 8, 16, 32, 64, 128, 160].choose(rng).unwrap();
                    let size = *[8usize, 16, 32, 64, 96, 128, 160].choose(rng).unwrap();
                    Span::new(v(rng), off, size.min(256 - off))
                })
                .collect();
            TE::Packed {
                types:     spans,
                is_struct: rng.gen_bool(0.2),
            }
        }
    }
}

/// Evidence generated from a hidden ground-truth typing: every variable belongs to a group with one
/// true type; the judgements are weakenings of that type plus equalities inside the group.  With
/// `contradict`, one plainly contradictory judgement is injected into one group.
fn ground_truth_set(rng: &mut StdRng, nv: usize, contradict: bool) -> Vec<(usize, TE)> {
    let ngroups = rng.gen_range(1..=nv.min(6));
    let group_of: Vec<usize> = (0..nv).map(|v| if v < ngroups { v } else { rng.gen_range(0..ngroups) }).collect();
    let members = |g: usize| -> Vec<usize> { (0..nv).filter(|v| group_of[*v] == g).collect() };
    // true types: words of a usage and width, or constructors over groups
    #[derive(Clone)]
    enum T {
        W(WordUse, usize),
        Map(usize, usize),
        Dyn(usize),
    }
    let truth: Vec<T> = (0..ngroups)
        .map(|g| match rng.gen_range(0..8) {
            0 => T::W(WordUse::Address, 160),
            1 => T::W(WordUse::Bool, 8),
            2 => T::W(WordUse::SignedNumeric, *[8usize, 64, 256].choose(rng).unwrap()),
            3 | 4 => T::W(WordUse::UnsignedNumeric, *[8usize, 32, 128, 256].choose(rng).unwrap()),
            5 => T::Map(rng.gen_range(0..ngroups), if g + 1 < ngroups { g + 1 } else { 0 }),
            6 => T::Dyn(if g + 1 < ngroups { g + 1 } else { 0 }),
            _ => T::W(WordUse::Bytes, *[32usize, 128, 256].choose(rng).unwrap()),
        })
        .collect();
    let mut js = Vec::new();
    for g in 0..ngroups {
        let ms = members(g);
        // equalities making the group one class (a random spanning chain)
        for w in ms.windows(2) {
            js.push((w[0], TE::eq(tv(w[1]))));
        }
        for _ in 0..rng.gen_range(1..5) {
            let v = *ms.choose(rng).unwrap();
            let e = match &truth[g] {
                T::W(u, w) => {
                    let weaker_usage: Vec<WordUse> = match u {
                        WordUse::Address => vec![WordUse::Address, WordUse::Numeric, WordUse::UnsignedNumeric, WordUse::Bytes],
                        WordUse::UnsignedNumeric => vec![WordUse::UnsignedNumeric, WordUse::Numeric, WordUse::Bytes],
                        WordUse::SignedNumeric => vec![WordUse::SignedNumeric, WordUse::Numeric, WordUse::Bytes],
                        other => vec![*other, WordUse::Bytes],
                    };
                    let uu = *weaker_usage.choose(rng).unwrap();
                    let ww = if rng.gen_bool(0.6) { Some(*w) } else { None };
                    if rng.gen_bool(0.1) { TE::Any } else { TE::word(ww, uu) }
                }
                T::Map(k, val) => TE::mapping(tv(*members(*k).choose(rng).unwrap()), tv(*members(*val).choose(rng).unwrap())),
                T::Dyn(el) => TE::dyn_array(tv(*members(*el).choose(rng).unwrap())),
            };
            js.push((v, e));
        }
        // the full truth is always among the evidence of a word group, so the join is the truth
        if let T::W(u, w) = &truth[g] {
            js.push((ms[0], TE::word(Some(*w), *u)));
        }
    }
    if contradict {
        let g = rng.gen_range(0..ngroups);
        let v = *members(g).choose(rng).unwrap();
        let e = match &truth[g] {
            // a different width: on plain bytes, or keeping the true usage
            T::W(u, w) => TE::word(Some(if *w == 8 { 16 } else { 8 }), if rng.gen_bool(0.5) { WordUse::Bytes } else { *u }),
            T::Map(..) => TE::dyn_array(tv(v)),
            T::Dyn(_) => TE::mapping(tv(v), tv(v)),
        };
        js.push((v, e));
    }
    js
}

/// `unify-random`: large random judgement sets (also cyclic, also packed) for the envelope.
pub fn random(o: &Opts) -> R<()> {
    let seed: u64 = o.num("seed", 1);
    let n: usize = o.num("sets", 200);
    let runs: usize = o.num("runs", 3);
    let mut rng = StdRng::seed_from_u64(seed ^ 0xc14);
    let mut w = Ndjson::create(&o.str("trace")?)?;
    w.put(&json!({"ev": "begin"}));
    let mut stopped = 0usize;
    let mut panics = 0usize;
    let mut with_packed = 0usize;
    for i in 0..n {
        let nv = if (i % 7 == 6 || i % 7 == 0) && i % 3 == 0 {
            rng.gen_range(16..=24) // room for a long ring of packed encodings
        } else if i % 11 == 4 { *[12usize, 30, 36, 40].choose(&mut rng).unwrap() } else { rng.gen_range(2..=if i % 5 == 0 { 40 } else { 10 }) };
        let packed = i % 3 == 0;
        if packed {
            with_packed += 1;
        }
        let nj = if i % 4 == 1 || i % 4 == 2 { 0 } else { rng.gen_range(1..=(nv * 2).min(30)) };
        let mut js: Vec<(usize, TE)> = Vec::new();
        if i % 4 == 1 || i % 4 == 2 {
            js = ground_truth_set(&mut rng, nv, i % 4 == 2);
        }
        for _ in 0..nj {
            let v = rng.gen_range(0..nv);
            if rng.gen_bool(0.3) {
                js.push((v, TE::eq(tv(rng.gen_range(0..nv)))));
            } else {
                js.push((v, random_te(&mut rng, nv, packed)));
            }
        }
        // cyclic evidence: a packed encoding one of whose spans is (a variable equal to) the
        // variable itself, next to a sized word; a mapping / array whose component is itself
        if i % 7 == 3 {
            let a = rng.gen_range(0..nv);
            let b = rng.gen_range(0..nv);
            let (w, word) = match rng.gen_range(0..4) {
                0 => (160, TE::address()),
                1 => (8, TE::bool()),
                2 => (32, TE::selector()),
                _ => (64, TE::word(Some(64), WordUse::SignedNumeric)),
            };
            js.push((a, TE::Packed { types: vec![Span::new(tv(b), 0, w)], is_struct: false }));
            js.push((a, word));
            if a != b && rng.gen_bool(0.7) {
                js.push((a, TE::eq(tv(b))));
            }
        }
        if i % 7 == 5 {
            let a = rng.gen_range(0..nv);
            js.push((a, TE::mapping(tv(rng.gen_range(0..nv)), tv(a))));
            js.push((a, TE::dyn_array(tv(a))));
        }
        // cycles through the first spans of several packed encodings (v1 = [v2 ..], v2 = [v1 ..]), with a
        // sized word on some of them: evidence that can alternate between forests from round to round
        if i % 7 == 6 || i % 7 == 0 {
            // mostly short rings, now and then one that takes many rounds to come back to where it began
            let long = nv >= 16 && rng.gen_bool(0.5);
            let k = if long { rng.gen_range(5..=16) } else { rng.gen_range(2..=4.min(nv)) };
            let cyc: Vec<usize> = rand::seq::index::sample(&mut rng, nv, k).into_vec();
            let w = if long { 160 } else { *[8usize, 160, 256].choose(&mut rng).unwrap() };
            if long {
                // a pure ring: nothing but the first spans and one sized word, on variables of its own
                js.clear();
                js.push((cyc[0], TE::address()));
            }
            for (n, a) in cyc.iter().enumerate() {
                let b = cyc[(n + 1) % k];
                let mut spans = vec![Span::new(tv(b), 0, w)];
                if long {
                    js.push((*a, TE::Packed { types: spans, is_struct: false }));
                    continue;
                }
                if w < 256 && rng.gen_bool(0.4) {
                    spans.push(Span::new(tv(rng.gen_range(0..nv)), w, *[8usize, 96].choose(&mut rng).unwrap()));
                }
                js.push((*a, TE::Packed { types: spans, is_struct: false }));
                if rng.gen_bool(0.5) {
                    let word = match w {
                        160 => TE::address(),
                        8 => if rng.gen_bool(0.5) { TE::bool() } else { TE::word(Some(8), WordUse::SignedNumeric) },
                        _ => TE::word(None, WordUse::Bytes),
                    };
                    js.push((*a, word));
                }
            }
        }
        // fixed arrays whose (equal or different) lengths are beyond 64 and 128 bits, in one class
        if i % 11 == 9 && nv >= 5 {
            js.clear();
            let lens = [U256::from(3u8), U256::ONE << 64, (U256::ONE << 64) + U256::ONE, U256::ONE << 128, U256::MAX];
            let l1 = *lens.choose(&mut rng).unwrap();
            let l2 = if rng.gen_bool(0.6) { l1 } else { *lens.choose(&mut rng).unwrap() };
            js.push((0, TE::FixedArray { element: tv(2), length: l1 }));
            if rng.gen_bool(0.5) {
                js.push((0, TE::FixedArray { element: tv(3), length: l2 }));
            } else {
                js.push((1, TE::FixedArray { element: tv(3), length: l2 }));
                js.push((0, TE::eq(tv(1))));
            }
            js.push((2, TE::word(None, WordUse::UnsignedNumeric)));
            js.push((3, TE::address()));
        }
        // two constructors of one kind in one class that share one component variable and differ in the other,
        // with the evidence about the differing component split over the two variables
        if i % 11 == 7 && nv >= 5 {
            js.clear();
            let (v, w, shared, a, b) = (0usize, 1usize, 2usize, 3usize, 4usize);
            let mk = |x: usize, kind: usize| match kind {
                0 => TE::mapping(tv(x), tv(shared)),
                1 => TE::mapping(tv(shared), tv(x)),
                _ => TE::dyn_array(tv(x)),
            };
            let kind = (i / 11) % 3;
            js.push((v, mk(a, kind)));
            if rng.gen_bool(0.5) {
                js.push((v, mk(b, kind)));
            } else {
                js.push((w, mk(b, kind)));
                js.push((v, TE::eq(tv(w))));
            }
            let (ea, eb) = match rng.gen_range(0..4) {
                0 => (TE::word(None, WordUse::UnsignedNumeric), TE::address()),
                1 => (TE::word(Some(160), WordUse::Bytes), TE::address()),
                2 => (TE::word(None, WordUse::Numeric), TE::word(Some(64), WordUse::SignedNumeric)),
                _ => (TE::bool(), TE::address()), // contradictory
            };
            js.push((a, ea));
            js.push((b, eb));
        }
        // two long chains of constructed types that meet at the top: x0 ~ y0, x_i = C(x_{i+1}), y_i = C(y_{i+1});
        // the equality of the components has to travel all the way down, one level per round
        if i % 11 == 4 && nv >= 6 {
            js.clear();
            let depth = (nv / 2 - 1).min(19);
            let (x, y) = (|k: usize| k, |k: usize| nv / 2 + k);
            js.push((x(0), TE::eq(tv(y(0)))));
            for k in 0..depth {
                for side in [x(k), y(k)] {
                    let inner = tv(side + 1);
                    js.push((side, if (i / 11) % 2 == 0 { TE::dyn_array(inner) } else { TE::mapping(inner, inner) }));
                }
            }
            js.push((x(depth), TE::address()));
        }
        let mut outs = Vec::new();
        let mut seen = BTreeSet::new();
        for r in 0..runs {
            let mut s = js.clone();
            if r > 0 {
                s.shuffle(&mut rng);
            }
            let out = if r == 0 { run_unify(nv, &s, 20_000) } else { let pi = random_perm(&mut rng, nv); run_unify_renamed(nv, &s, 20_000, &pi) };
            if out.stopped {
                stopped += 1;
            }
            if out.panic.is_some() {
                panics += 1;
            }
            seen.insert(norm_outcome(&out.vars, nv));
            outs.push(outcome_json(&out, nv));
        }
        w.put(&json!({
            "ev": "unify", "nv": nv, "src": if packed { "random-packed" } else { "random" },
            "j": js.iter().map(|(v, e)| json!({"v": v, "e": te_json(e)})).collect::<Vec<_>>(),
            "runs": outs, "distinct": seen.len(),
        }));
    }
    w.finish();
    println!("{}", json!({"sets": n, "runs_per_set": runs, "stopped_runs": stopped, "panics": panics, "sets_with_packed": with_packed}));
    Ok(())
}

/// `determinism`: the whole pipeline N times on the same bytes (fresh hash seeds every time).
/// A straight-line program of `let v = source; sink(part(v)); ...` statements over constant slots,
/// elements of mappings (one or two words) and elements of a dynamic array.
/// Packed words written more than once with the same field split - some fields the very same value both times
/// (DUP), others different values with different evidence (a sum, an address, a flag, raw bytes) - and packed words
/// whose spans look like the header of a string slot ((0,1) (1,7) / (8,248)) next to array evidence for the same slot,
/// with the fields also stored on their own elsewhere.  Which side of such a combination is "left" must not matter.
fn packed_rewrite_program(rng: &mut StdRng) -> Vec<u8> {
    let mut c: Vec<u8> = Vec::new();
    let push = |c: &mut Vec<u8>, bytes: &[u8]| {
        c.push(0x5f + bytes.len() as u8);
        c.extend(bytes);
    };
    // a raw argument, left on the stack
    let source = |c: &mut Vec<u8>, _rng: &mut StdRng, arg: u8| {
        c.extend([0x60, 4 + 32 * arg, 0x35]);
    };
    // evidence about the (masked) field on top of the stack, which stays there: used as a divisor, an address, a
    // condition, a signed number - or not at all
    let mut sink = 20u8;
    let mut usage = |c: &mut Vec<u8>, rng: &mut StdRng| {
        sink += 1;
        match rng.gen_range(0..6) {
            0 => c.extend([0x80, 0x60, 0x03, 0x04, 0x60, sink, 0x55]), // 3 / x stored: unsigned
            1 => c.extend([0x80, 0x31, 0x50]),                         // balance(x): an address
            2 => c.extend([0x80, 0x15, 0x60, sink, 0x55]),             // iszero(x) stored
            3 => c.extend([0x80, 0x60, 0x03, 0x05, 0x60, sink, 0x55]), // 3 sdiv x stored: signed
            4 => c.extend([0x80, 0x60, 0x01, 0x01, 0x60, sink, 0x55]), // x + 1 stored: a number
            _ => {}
        }
    };
    if rng.gen_bool(0.6) {
        // the same split written twice (or three times)
        let splits: [&[(usize, usize)]; 4] = [&[(0, 128), (128, 128)], &[(0, 64), (64, 64), (128, 128)], &[(0, 160), (160, 96)], &[(0, 8), (8, 8), (16, 240)]];
        let split = splits[rng.gen_range(0..splits.len())];
        let slot = rng.gen_range(0..3u8);
        // shared fields: computed once, kept at the bottom of the stack
        let shared: Vec<bool> = split.iter().map(|_| rng.gen_bool(0.5)).collect();
        let nshared = shared.iter().filter(|b| **b).count();
        let mut k = 0u8;
        let inplace = rng.gen_bool(0.5);
        for (i, (off, w)) in split.iter().enumerate() {
            if shared[i] {
                source(&mut c, rng, k);
                if inplace {
                    push(&mut c, &[vec![0xff; w / 8], vec![0x00; off / 8]].concat());
                } else {
                    push(&mut c, &vec![0xff; w / 8]);
                }
                c.push(0x16);
                k += 1;
            }
        }
        for _round in 0..rng.gen_range(2..4) {
            let mut first = true;
            let mut seen_shared = 0usize;
            for (i, (off, w)) in split.iter().enumerate() {
                if shared[i] {
                    // DUP the shared value: it sits below `extra` items
                    let extra = usize::from(!first);
                    c.push(0x80 + (nshared - 1 - seen_shared + extra) as u8);
                    seen_shared += 1;
                    if *off > 0 && !inplace {
                        let mut p2 = vec![0u8; off / 8 + 1];
                        p2[0] = 1;
                        push(&mut c, &p2);
                        c.push(0x02);
                    }
                } else {
                    source(&mut c, rng, k);
                    k = (k + 1) % 6;
                    if inplace {
                        // the field masked where it lies: x & (ones << off)
                        push(&mut c, &[vec![0xff; w / 8], vec![0x00; off / 8]].concat());
                        c.push(0x16);
                        usage(&mut c, rng);
                    } else {
                        push(&mut c, &vec![0xff; w / 8]);
                        c.push(0x16);
                        usage(&mut c, rng);
                        if *off > 0 {
                            let mut p2 = vec![0u8; off / 8 + 1];
                            p2[0] = 1;
                            push(&mut c, &p2);
                            c.push(0x02);
                        }
                    }
                }
                if !first {
                    c.push(0x17);
                }
                first = false;
            }
            c.extend([0x60, slot, 0x55]);
        }
    } else {
        // string-header spans plus array evidence for the same slot
        let slot = rng.gen_range(0..3u8);
        // store to keccak(slot) + i
        c.extend([0x60, 0x2a, 0x60, slot, 0x60, 0x00, 0x52, 0x60, 0x20, 0x60, 0x00, 0x20, 0x60, 0x04, 0x35, 0x01, 0x55]);
        let (m1, m2): (&[u8], Vec<u8>) = match rng.gen_range(0..3) {
            0 => (&[0x01], vec![0xfe]),
            1 => (&[0x01], [vec![0xff; 31], vec![0x00]].concat()),
            _ => (&[0xfe], [vec![0xff; 31], vec![0x00]].concat()),
        };
        // y first (kept, and also stored on its own), then x
        c.extend([0x60, 0x24, 0x35]);
        push(&mut c, &m2);
        c.push(0x16);
        if rng.gen_bool(0.7) {
            c.extend([0x80, 0x60, 0x07, 0x55]);
        }
        c.extend([0x60, 0x44, 0x35]);
        push(&mut c, m1);
        c.push(0x16);
        if rng.gen_bool(0.3) {
            c.extend([0x80, 0x60, 0x08, 0x55]);
        }
        c.extend([0x17, 0x60, slot, 0x55]);
    }
    c.push(0x00);
    c
}

fn dataflow_program(rng: &mut StdRng) -> Vec<u8> {
    fn key(rng: &mut StdRng, c: &mut Vec<u8>) {
        match rng.gen_range(0..10) {
            0..=3 => c.extend([0x60, rng.gen_range(5..10)]),
            4..=7 => {
                let slot = rng.gen_range(1..4u8);
                c.extend([0x60, 0x00, 0x35, 0x60, 0x00, 0x52, 0x60, slot, 0x60, 0x20, 0x52, 0x60, 0x40, 0x60, 0x00, 0x20]);
                if rng.gen_bool(0.5) {
                    c.extend([0x60, rng.gen_range(1..3), 0x01]);
                }
            }
            8 => c.extend([0x60, 0x04, 0x60, 0x00, 0x52, 0x60, 0x20, 0x60, 0x00, 0x20, 0x60, 0x04, 0x35, 0x01]),
            _ => {
                // a dynamic array whose data base is sometimes computed at run time and sometimes the pushed
                // literal keccak(slot) - for slot 4 (a hash the tool knows) and slot 20000 (one it does not)
                let slot: u64 = if rng.gen_bool(0.5) { 4 } else { 20000 };
                if rng.gen_bool(0.5) {
                    let mut w = [0u8; 32];
                    w[24..].copy_from_slice(&slot.to_be_bytes());
                    c.push(0x7f);
                    c.extend(sha3::Keccak256::digest(w));
                } else {
                    c.extend([0x61, (slot >> 8) as u8, slot as u8, 0x60, 0x00, 0x52, 0x60, 0x20, 0x60, 0x00, 0x20]);
                }
                c.extend([0x60, 0x04, 0x35, 0x01]);
            }
        }
    }
    let mut c: Vec<u8> = Vec::new();
    for _ in 0..rng.gen_range(1..4) {
        match rng.gen_range(0..8) {
            0 => c.extend([0x60, 0x24, 0x35]),
            1 => c.push(0x33),
            2 => c.extend([0x34, 0x15]),
            _ => {
                key(rng, &mut c);
                c.push(0x54);
            }
        }
        for _ in 0..rng.gen_range(1..4) {
            c.push(0x80);
            match rng.gen_range(0..8) {
                0 | 1 => {}
                2 | 3 => c.extend([0x60, 8 * rng.gen_range(1..20u8), 0x1c, 0x60, 0xff, 0x16]),
                4 => c.extend([0x60, 8 * rng.gen_range(0..20u8), 0x1c, 0x61, 0xff, 0xff, 0x16]),
                5 => {
                    c.push(0x73);
                    c.extend([0xff; 20]);
                    c.push(0x16);
                }
                6 => c.push(0x15),
                _ => c.extend([0x60, 0xff, 0x16]),
            }
            key(rng, &mut c);
            c.push(0x55);
            // now and then the running value itself becomes a condition of it: t = iszero(v), lt(v, 5), eq(v, 0) ...
            if rng.gen_bool(0.3) {
                match rng.gen_range(0..4) {
                    0 | 1 => c.push(0x15),
                    2 => c.extend([0x60, 0x05, 0x10]),
                    _ => c.extend([0x60, 0x00, 0x14]),
                }
            }
        }
        c.push(0x50);
    }
    c.push(0x00);
    c
}

pub fn determinism(o: &Opts) -> R<()> {
    use crate::{progen, vmrun};
    let seed: u64 = o.num("seed", 1);
    let nprog: usize = o.num("programs", 100);
    let runs: usize = o.num("runs", 8);
    let real_runs: usize = o.num("real-runs", 3);
    let max_real: usize = o.num("max-real-bytes", 3000);
    let mut rng = StdRng::seed_from_u64(seed ^ 0xc02);
    let mut w = Ndjson::create(&o.str("trace")?)?;
    w.put(&json!({"ev": "begin"}));
    let mut progs: Vec<(String, Vec<u8>, usize)> = Vec::new();
    // the program on which the pinned tree was order-dependent: slot 0 used as a dynamic array and
    // written with a bool and an address
    progs.push(("known-order-dependent".into(), crate::util::unhex("60006000526020600020600035016001905536156000553360005500")?, runs * 3));
    // a slot written whole with a fixed-width non-numeric value and read through several sub-words
    for i in 0..(nprog / 4).max(6) {
        let mut c: Vec<u8> = vec![0x60, 0x00, 0x54]; // sload(0)
        let reads = 2 + i % 2;
        for k in 0..reads {
            // every third program: all the reads start at the same bit and differ in width
            let off = if i % 3 == 2 { [0u8, 8, 160][(i / 3) % 3] } else { [0u8, 8, 16, 24, 160][(i + k) % 5] };
            c.push(0x80); // dup
            if off > 0 {
                c.extend([0x60, off, 0x1c]);
            }
            if i % 3 == 2 {
                match k % 3 {
                    0 => c.extend([0x60, 0xff, 0x16]),
                    1 => c.extend([0x61, 0xff, 0xff, 0x16]),
                    _ => c.extend([0x63, 0xff, 0xff, 0xff, 0xff, 0x16]),
                }
            } else {
                c.extend([0x60, 0xff, 0x16]);
            }
            c.extend([0x60, 5 + k as u8, 0x55]);
        }
        c.push(0x50);
        match i % 3 {
            0 => c.extend([0x34, 0x15]),       // iszero(callvalue): a bool
            1 => c.push(0x33),                 // caller: an address
            _ => c.extend([0x34, 0x15, 0x15]), // iszero(iszero(..))
        }
        c.extend([0x60, 0x00, 0x55, 0x00]);
        progs.push(("whole-write-subword-reads".into(), c, runs * 3));
    }
    // values flowing between slots, mapping elements, struct words and array elements, whole and in parts
    for _ in 0..nprog {
        progs.push(("dataflow".into(), dataflow_program(&mut rng), runs * 2));
    }
    for _ in 0..nprog {
        progs.push(("packed-rewrite".into(), packed_rewrite_program(&mut rng), runs * 3));
    }
    for _ in 0..nprog {
        let p = if rng.gen_bool(0.6) { crate::idioms::random_contract(&mut rng).1 } else { progen::any(&mut rng).code };
        progs.push(("generated".into(), p, runs));
    }
    if let Some(p) = o.get("corpus") {
        let v: J = serde_json::from_str(&std::fs::read_to_string(p).map_err(|e| e.to_string())?).map_err(|e| e.to_string())?;
        for c in v.as_array().ok_or("corpus")? {
            let code = crate::util::unhex(c["hex"].as_str().unwrap_or(""))?;
            if code.len() >= 100 && code.len() <= max_real {
                progs.push((format!("real:{}", c["name"].as_str().unwrap_or("?")), code, real_runs));
            }
        }
    }
    let lim = progen::Limits { l: 3, f: 4, g: 30_000_000, perm: true };
    let mut unstable = 0usize;
    let mut total_runs = 0usize;
    for (name, code, n) in &progs {
        let mut seen: BTreeMap<String, usize> = BTreeMap::new();
        for _ in 0..*n {
            // a poll budget 45 times the largest count seen on the pinned tree: an analysis that does not end is not
            // repeated (halting is C03 / C14's question, and they ask it under budgets of their own)
            let wd = ScriptedWatchdog::new(16, None, 20_000);
            let r = vmrun::analyze(code, &lim, wd.clone());
            if wd.exhausted.get() {
                *seen.entry("stopped".to_string()).or_insert(0) += 1;
                total_runs += 1;
                break;
            }
            let key = match &r {
                // conflict explanations are not part of the result (they quote type-variable numbers)
                Ok(Ok(l)) => format!("ok:{}", J::Array(crate::layouts::entries_json(l).into_iter().map(|mut e| { e.as_object_mut().map(|o| o.remove("idx")); e }).collect())),
                Ok(Err(_)) => "err".to_string(),
                Err(p) => format!("panic:{p}"),
            };
            *seen.entry(key).or_insert(0) += 1;
            total_runs += 1;
        }
        if seen.len() > 1 {
            unstable += 1;
        }
        w.put(&json!({"ev": "repeat", "name": name, "hex": hex::encode(code), "n": n, "distinct": seen.len(),
                      "outcomes": seen.iter().map(|(k, c)| json!({"count": c, "result": k.chars().take(300).collect::<String>()})).collect::<Vec<_>>()}));
    }
    w.finish();
    println!("{}", json!({"programs": progs.len(), "runs": total_runs, "order_dependent_programs": unstable}));
    Ok(())
}

// ------------------------------------------------------------------------------------------------
// The (Packed, Packed) arm of `merge` against PackedMerge.tla

/// `packed-replay`: every pair of span shapes enumerated by `PackedGen.tla` (one unit = 32 bits) is built with fresh
/// type variables and combined by the real `unification::merge`; the resulting spans, equalities and judgements are
/// written with small variable numbers for `PackedTrace.tla`.
pub fn packed_replay(o: &Opts) -> R<()> {
    let cases = std::fs::read_to_string(o.str("cases")?).map_err(|e| e.to_string())?;
    let mut w = Ndjson::create(&o.str("out")?)?;
    w.put(&json!({"ev": "begin"}));
    let unit = 32usize;
    let (mut n, mut panics) = (0u64, 0u64);
    for line in cases.lines().filter(|l| !l.trim().is_empty()) {
        let c: J = serde_json::from_str(line).map_err(|e| e.to_string())?;
        let mut state = TypeCheckerState::empty();
        let parent = unsafe { state.allocate_ty_var() };
        let mut names: std::collections::HashMap<TypeVariable, usize> = std::collections::HashMap::new();
        let mut name = |v: TypeVariable, names: &mut std::collections::HashMap<TypeVariable, usize>| -> usize {
            let k = names.len() + 1;
            *names.entry(v).or_insert(k)
        };
        let share: Option<(usize, usize)> = c["share"].as_array().filter(|a| a.len() == 2).map(|a| (a[0].as_u64().unwrap() as usize, a[1].as_u64().unwrap() as usize));
        let mut shared_var: Option<TypeVariable> = None;
        let mut build = |shape: &J, state: &mut TypeCheckerState, names: &mut std::collections::HashMap<TypeVariable, usize>| -> (TE, Vec<J>) {
            let mut spans = Vec::new();
            let mut desc = Vec::new();
            for iv in shape.as_array().unwrap() {
                let (a, b) = (iv[0].as_u64().unwrap() as usize, iv[1].as_u64().unwrap() as usize);
                let v = if share == Some((a, b)) {
                    *shared_var.get_or_insert_with(|| unsafe { state.allocate_ty_var() })
                } else {
                    unsafe { state.allocate_ty_var() }
                };
                spans.push(Span::new(v, a * unit, (b - a) * unit));
                desc.push(json!([a * unit, (b - a) * unit, name(v, names)]));
            }
            (TE::Packed { types: spans, is_struct: false }, desc)
        };
        let (pa, da) = build(&c["a"], &mut state, &mut names);
        let (pb, db) = build(&c["b"], &mut state, &mut names);
        // spans in either order of declaration: the encoding is a set
        let res = guarded(|| unification::merge(pa.clone(), pb.clone(), parent, &mut state));
        n += 1;
        let mut rec = json!({"ev": "packed", "a": da, "b": db});
        match res {
            Ok(m) => {
                let spans: Vec<J> = match &m.expression {
                    TE::Packed { types, .. } => types.iter().map(|s| json!([s.offset, s.size, name(s.typ, &mut names)])).collect(),
                    _ => vec![],
                };
                rec["kind"] = json!(if matches!(m.expression, TE::Packed { .. }) { "packed" } else { "other" });
                rec["out"] = json!({
                    "spans": spans,
                    "eqs": m.equalities.iter().map(|e| json!([name(e.left, &mut names), name(e.right, &mut names)])).collect::<Vec<_>>(),
                    "judgs": m.judgements.iter().map(|j| {
                        let sp: Vec<J> = match &j.expr {
                            TE::Packed { types, .. } => types.iter().map(|s| json!([s.offset, s.size, name(s.typ, &mut names)])).collect(),
                            _ => vec![json!([-1, -1, -1])],
                        };
                        json!({"var": name(j.tv, &mut names), "spans": sp})
                    }).collect::<Vec<_>>(),
                });
            }
            Err(p) => {
                panics += 1;
                rec["kind"] = json!("panic");
                rec["out"] = json!({"spans": [], "eqs": [], "judgs": []});
                rec["msg"] = json!(p);
            }
        }
        w.put(&rec);
    }
    w.finish();
    println!("{}", json!({"cases": n, "panics": panics}));
    Ok(())
}

// ------------------------------------------------------------------------------------------------
// From the resolved type of a slot to its layout entries, against Flatten.tla

/// `flatten-replay`: every tree enumerated by `FlattenGen.tla` is stated as typing judgements about the constant slot 5
/// (a word is `bytesN`), the real `TypeChecker::unify` resolves it and builds the layout, and the entries are written
/// for `FlattenTrace.tla`.
pub fn flatten_replay(o: &Opts) -> R<()> {
    use storage_layout_extractor::{
        tc::{Config as TcConfig, TypeChecker},
        vm::value::{known::KnownWord, Provenance, RSV, RSVD},
        watchdog::LazyWatchdog,
    };
    fn state_tree(tc: &mut TypeChecker, var: TypeVariable, t: &J) {
        let a = t.as_array().unwrap();
        if a[0] == "w" {
            let w = a[1].as_u64().unwrap() as usize;
            unsafe { tc.state_mut() }.infer(var, TE::Word { width: Some(w), usage: WordUse::Bytes });
        } else {
            let mut spans = Vec::new();
            for s in a[1].as_array().unwrap() {
                let child = unsafe { tc.state_mut().allocate_ty_var() };
                state_tree(tc, child, &s[2]);
                spans.push(Span::new(child, s[0].as_u64().unwrap() as usize, s[1].as_u64().unwrap() as usize));
            }
            unsafe { tc.state_mut() }.infer(var, TE::Packed { types: spans, is_struct: false });
        }
    }
    let cases = std::fs::read_to_string(o.str("cases")?).map_err(|e| e.to_string())?;
    let mut w = Ndjson::create(&o.str("out")?)?;
    w.put(&json!({"ev": "begin"}));
    let (mut n, mut failed) = (0u64, 0u64);
    for line in cases.lines().filter(|l| !l.trim().is_empty()) {
        let c: J = serde_json::from_str(line).map_err(|e| e.to_string())?;
        let tree = c["tree"].clone();
        let res = guarded(|| {
            let mut tc = TypeChecker::new(TcConfig::default(), LazyWatchdog.in_rc());
            let key = RSV::new_known_value(0, KnownWord::from(5usize), Provenance::Synthetic, None);
            let slot = RSV::new_synthetic(1, RSVD::StorageSlot { key });
            let root = unsafe { tc.state_mut() }.register(slot);
            state_tree(&mut tc, root, &tree);
            tc.unify().map_err(|e| format!("{e:?}"))
        });
        n += 1;
        let mut rec = json!({"ev": "flatten", "tree": tree});
        match res {
            Ok(Ok(layout)) => {
                rec["res"] = json!("ok");
                rec["entries"] = json!(layout.slots().iter().map(|s| {
                    let t = crate::layouts::type_json(&s.typ);
                    let k = t["k"].as_str().unwrap_or("").to_string();
                    let width: u64 = match k.as_str() {
                        "uint" | "int" | "number" | "bytes" | "bits" => t["n"].as_u64().unwrap_or(0),
                        "address" => 160,
                        "bool" => 8,
                        "selector" => 32,
                        "function" => 192,
                        _ => 0,
                    };
                    json!({"offset": s.offset, "width": width, "kind": k})
                }).collect::<Vec<_>>());
            }
            Ok(Err(e)) => {
                failed += 1;
                rec["res"] = json!("err");
                rec["msg"] = json!(e.chars().take(200).collect::<String>());
                rec["entries"] = json!([]);
            }
            Err(p) => {
                failed += 1;
                rec["res"] = json!("panic");
                rec["msg"] = json!(p);
                rec["entries"] = json!([]);
            }
        }
        w.put(&rec);
    }
    w.finish();
    println!("{}", json!({"cases": n, "failed": failed}));
    Ok(())
}
