//! C20: JSON round trips of layout entries through the crate's serde
//! implementations, recorded for `LayoutJsonTrace.tla`.

use ethnum::U256;
use rand::{rngs::StdRng, seq::SliceRandom, Rng, SeedableRng};
use serde_json::{json, Value as J};
use storage_layout_extractor::{
    layout::StorageSlot,
    tc::abi::{AbiType, StructElement},
    utility::U256Wrapper,
};

use crate::util::{guarded, Ndjson, Opts, R};

/// [k, n, sub, offs, len] as in LayoutJson.tla
fn full_json(t: &AbiType) -> J {
    let opt = |o: &Option<usize>| o.map_or(0, |v| v as u64);
    let leaf = |k: &str, n: u64| json!({"k": k, "n": n, "sub": [], "offs": [], "len": []});
    match t {
        AbiType::Any => leaf("any", 0),
        AbiType::Number { size } => leaf("number", opt(size)),
        AbiType::UInt { size } => leaf("uint", opt(size)),
        AbiType::Int { size } => leaf("int", opt(size)),
        AbiType::Address => leaf("address", 0),
        AbiType::Selector => leaf("selector", 0),
        AbiType::Function => leaf("function", 0),
        AbiType::Bool => leaf("bool", 0),
        AbiType::Bytes { length } => leaf("bytes", opt(length)),
        AbiType::Bits { length } => leaf("bits", opt(length)),
        AbiType::DynBytes => leaf("dyn_bytes", 0),
        AbiType::InfiniteType => leaf("infinite", 0),
        AbiType::ConflictedType { conflicts, .. } => leaf("conflict", conflicts.len() as u64),
        AbiType::Array { size, tp } => json!({"k": "array", "n": 0, "sub": [full_json(tp)], "offs": [], "len": size.0.to_be_bytes().to_vec()}),
        AbiType::DynArray { tp } => json!({"k": "dyn_array", "n": 0, "sub": [full_json(tp)], "offs": [], "len": []}),
        AbiType::Mapping { key_type, value_type } => {
            json!({"k": "mapping", "n": 0, "sub": [full_json(key_type), full_json(value_type)], "offs": [], "len": []})
        }
        AbiType::Struct { elements } => json!({
            "k": "struct", "n": 0, "sub": elements.iter().map(|e| full_json(&e.typ)).collect::<Vec<_>>(),
            "offs": elements.iter().map(|e| e.offset).collect::<Vec<_>>(), "len": [],
        }),
    }
}

fn from_full(v: &J) -> Option<AbiType> {
    let n = v["n"].as_u64()? as usize;
    let opt = if n == 0 { None } else { Some(n) };
    let sub = |i: usize| from_full(&v["sub"][i]).map(Box::new);
    Some(match v["k"].as_str()? {
        "any" => AbiType::Any,
        "number" => AbiType::Number { size: opt },
        "uint" => AbiType::UInt { size: opt },
        "int" => AbiType::Int { size: opt },
        "address" => AbiType::Address,
        "selector" => AbiType::Selector,
        "function" => AbiType::Function,
        "bool" => AbiType::Bool,
        "bytes" => AbiType::Bytes { length: opt },
        "bits" => AbiType::Bits { length: opt },
        "dyn_bytes" => AbiType::DynBytes,
        "infinite" => AbiType::InfiniteType,
        "conflict" => AbiType::ConflictedType {
            conflicts: (0..n).map(|i| format!("conflict {i}")).collect(),
            reasons:   (0..n).map(|i| format!("reason \"{i}\"")).collect(),
        },
        "array" => {
            let bytes: Vec<u8> = v["len"].as_array()?.iter().map(|b| b.as_u64().unwrap() as u8).collect();
            AbiType::Array {
                size: U256Wrapper(U256::from_be_bytes(bytes.try_into().ok()?)),
                tp:   sub(0)?,
            }
        }
        "dyn_array" => AbiType::DynArray { tp: sub(0)? },
        "mapping" => AbiType::Mapping {
            key_type:   sub(0)?,
            value_type: sub(1)?,
        },
        "struct" => AbiType::Struct {
            elements: v["sub"]
                .as_array()?
                .iter()
                .zip(v["offs"].as_array()?)
                .map(|(s, o)| Some(StructElement::new(o.as_u64()? as usize, from_full(s)?)))
                .collect::<Option<Vec<_>>>()?,
        },
        _ => return None,
    })
}

/// tags and field names of the JSON text, recursively (component types only)
fn shape(v: &J) -> J {
    match v {
        J::String(tag) => json!({"tag": tag, "fields": [], "sub": []}),
        J::Object(o) if o.len() == 1 => {
            let (tag, body) = o.iter().next().unwrap();
            let mut fields = Vec::new();
            let mut sub = Vec::new();
            if let J::Object(b) = body {
                // serde_json keeps insertion order only with a feature; the declared order is what matters
                for (k, val) in b {
                    fields.push(k.clone());
                    match k.as_str() {
                        "type" | "key_type" | "value_type" => sub.push((k.clone(), shape(val))),
                        "elements" => {
                            for (i, el) in val.as_array().into_iter().flatten().enumerate() {
                                sub.push((format!("elements{i:04}"), shape(&el["type"])));
                            }
                        }
                        _ => {}
                    }
                }
            }
            // canonical field order as declared in the enum (serde_json's map may sort keys)
            let order = ["size", "length", "type", "key_type", "value_type", "elements", "conflicts", "reasons"];
            fields.sort_by_key(|f| order.iter().position(|o| o == f).unwrap_or(99));
            sub.sort_by_key(|(k, _)| (order.iter().position(|o| k.starts_with(o)).unwrap_or(99), k.clone()));
            json!({"tag": tag, "fields": fields, "sub": sub.into_iter().map(|(_, s)| s).collect::<Vec<_>>()})
        }
        other => json!({"tag": format!("?{other}"), "fields": [], "sub": []}),
    }
}

fn len_strings_ok(v: &J) -> bool {
    // every array length inside the type is written like an index: 0x + 64 lower-case hex digits
    match v {
        J::Object(o) => o.iter().all(|(k, val)| {
            if k == "array" {
                let s = val["size"].as_str().unwrap_or("");
                s.len() == 66 && s.starts_with("0x") && s[2..].chars().all(|c| c.is_ascii_digit() || ('a'..='f').contains(&c)) && len_strings_ok(val)
            } else {
                len_strings_ok(val)
            }
        }),
        J::Array(a) => a.iter().all(len_strings_ok),
        _ => true,
    }
}

fn record(t: &AbiType, index: U256, offset: usize, src: &str) -> J {
    let slot = StorageSlot::new(U256Wrapper(index), offset, t.clone());
    let r = guarded(|| {
        let text = serde_json::to_string(&slot).map_err(|e| e.to_string())?;
        let back: Result<StorageSlot, _> = serde_json::from_str(&text);
        // the other ways JSON reaches a reader: through a reader over bytes, and through a value tree
        let back = back.map_err(|e| e.to_string()).and_then(|b| {
            let via_reader: StorageSlot = serde_json::from_reader(text.as_bytes()).map_err(|e| format!("from_reader: {e}"))?;
            let tree = serde_json::to_value(&slot).map_err(|e| format!("to_value: {e}"))?;
            let via_value: StorageSlot = serde_json::from_value(tree).map_err(|e| format!("from_value: {e}"))?;
            if via_reader != b || via_value != b {
                return Err("the JSON entry points disagree on what the text denotes".to_string());
            }
            Ok(b)
        });
        Ok::<_, String>((text, back))
    });
    let idx = index.to_be_bytes().to_vec();
    let mut rec = json!({"ev": "json", "src": src, "type": full_json(t), "idx": idx, "offset": offset});
    match r {
        Ok(Ok((text, back))) => {
            let val: J = serde_json::from_str(&text).unwrap_or(J::Null);
            rec["text"] = json!(text.chars().take(400).collect::<String>());
            rec["index_chars"] = json!(val["index"].as_str().unwrap_or("").chars().map(|c| c.to_string()).collect::<Vec<_>>());
            rec["top_fields"] = json!(["index", "offset", "type"].iter().filter(|k| val.get(**k).is_some()).collect::<Vec<_>>());
            if val.as_object().map_or(0, |o| o.len()) != 3 {
                rec["top_fields"] = json!(val.as_object().map(|o| o.keys().cloned().collect::<Vec<_>>()).unwrap_or_default());
            }
            rec["shape"] = shape(&val["type"]);
            rec["len_chars_ok"] = json!(len_strings_ok(&val["type"]));
            match back {
                Ok(b) => {
                    rec["ok"] = json!(true);
                    rec["eq"] = json!(b == slot);
                    rec["type_back"] = full_json(&b.typ);
                    rec["idx_back"] = json!(b.index.0.to_be_bytes().to_vec());
                    rec["offset_back"] = json!(b.offset);
                }
                Err(e) => {
                    rec["ok"] = json!(false);
                    rec["eq"] = json!(false);
                    rec["err"] = json!(e);
                    rec["type_back"] = json!({});
                    rec["idx_back"] = json!([]);
                    rec["offset_back"] = json!(0);
                }
            }
        }
        Ok(Err(e)) | Err(e) => {
            rec["ok"] = json!(false);
            rec["eq"] = json!(false);
            rec["err"] = json!(e);
            rec["type_back"] = json!({});
            rec["idx_back"] = json!([]);
            rec["offset_back"] = json!(0);
            rec["index_chars"] = json!([]);
            rec["top_fields"] = json!([]);
            rec["shape"] = json!({});
            rec["len_chars_ok"] = json!(false);
        }
    }
    rec
}

fn boundary_words(rng: &mut StdRng) -> Vec<U256> {
    let one = U256::ONE;
    let mut v = vec![U256::ZERO, one, U256::from(0x42u8), U256::from(0xffu8), one << 64, (one << 64) - one, one << 128, (one << 128) + one,
                     (one << 128) - one, one << 160, one << 255, U256::MAX, U256::MAX - (one << 128) + U256::from(5u8), (one << 200) + (one << 100),
                     U256::from_be_bytes([0x36, 0x08, 0x94, 0xa1, 0x3b, 0xa1, 0xa3, 0x21, 0x06, 0x67, 0xc8, 0x28, 0x49, 0x2d, 0xb9, 0x8d, 0xca, 0x3e, 0x20, 0x76, 0xcc, 0x37, 0x35, 0xa9, 0x20, 0xa3, 0xca, 0x50, 0x5d, 0x38, 0x2b, 0xbc])];
    for n in [129u32, 130, 192, 224, 248] {
        v.push(one << n);
    }
    for _ in 0..6 {
        let mut b = [0u8; 32];
        rng.fill(&mut b[..]);
        v.push(U256::from_be_bytes(b));
    }
    v
}

fn random_type(rng: &mut StdRng, depth: usize, words: &[U256]) -> AbiType {
    let opt = |rng: &mut StdRng| *[None, Some(8usize), Some(32), Some(160), Some(256), Some(7)].choose(rng).unwrap();
    if depth == 0 || rng.gen_bool(0.3) {
        return match rng.gen_range(0..13) {
            0 => AbiType::Any,
            1 => AbiType::Number { size: opt(rng) },
            2 => AbiType::UInt { size: opt(rng) },
            3 => AbiType::Int { size: opt(rng) },
            4 => AbiType::Address,
            5 => AbiType::Selector,
            6 => AbiType::Function,
            7 => AbiType::Bool,
            8 => AbiType::Bytes { length: opt(rng) },
            9 => AbiType::Bits { length: opt(rng) },
            10 => AbiType::DynBytes,
            11 => AbiType::InfiniteType,
            _ => {
                let n = rng.gen_range(0..3);
                AbiType::ConflictedType {
                    conflicts: (0..n).map(|i| format!("c{i} \"quoted\" \\ back")).collect(),
                    reasons:   (0..rng.gen_range(0..3)).map(|i| format!("r{i}\n")).collect(),
                }
            }
        };
    }
    match rng.gen_range(0..4) {
        0 => AbiType::Array {
            size: U256Wrapper(*words.choose(rng).unwrap()),
            tp:   Box::new(random_type(rng, depth - 1, words)),
        },
        1 => AbiType::DynArray { tp: Box::new(random_type(rng, depth - 1, words)) },
        2 => AbiType::Mapping {
            key_type:   Box::new(random_type(rng, depth - 1, words)),
            value_type: Box::new(random_type(rng, depth - 1, words)),
        },
        _ => AbiType::Struct {
            elements: (0..rng.gen_range(0..4)).map(|i| StructElement::new(i * 64, random_type(rng, depth - 1, words))).collect(),
        },
    }
}

pub fn trace(o: &Opts) -> R<()> {
    let seed: u64 = o.num("seed", 1);
    let n_random: usize = o.num("random", 500);
    let mut rng = StdRng::seed_from_u64(seed ^ 0xc20);
    let mut w = Ndjson::create(&o.str("out")?)?;
    w.put(&json!({"ev": "begin"}));
    let words = boundary_words(&mut rng);
    let mut n = 0usize;
    if let Some(p) = o.get("cases") {
        for (i, line) in std::fs::read_to_string(p).map_err(|e| e.to_string())?.lines().filter(|l| !l.trim().is_empty()).enumerate() {
            let c: J = serde_json::from_str(line).map_err(|e| e.to_string())?;
            let Some(t) = from_full(&c["type"]) else { return Err(format!("bad type case {line}")) };
            let idx = words[i % words.len()];
            w.put(&record(&t, idx, [0usize, 8, 128, 255][i % 4], "model"));
            n += 1;
        }
    }
    // every boundary index x a few offsets on a plain type
    for idx in &words {
        for off in [0usize, 1, 255] {
            w.put(&record(&AbiType::UInt { size: Some(256) }, *idx, off, "indices"));
            n += 1;
        }
    }
    for _ in 0..n_random {
        let depth = rng.gen_range(1..=5);
        let t = random_type(&mut rng, depth, &words);
        let idx = if rng.gen_bool(0.5) { *words.choose(&mut rng).unwrap() } else {
            let mut b = [0u8; 32];
            rng.fill(&mut b[..]);
            U256::from_be_bytes(b)
        };
        w.put(&record(&t, idx, rng.gen_range(0..256), "random"));
        n += 1;
    }
    w.finish();
    println!("{}", json!({"entries": n}));
    Ok(())
}
