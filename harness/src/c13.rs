//! C13: every poll index at which the watchdog may start saying stop, for
//! programs that spend their time in each polled loop.

use rand::{rngs::StdRng, Rng, SeedableRng};
use serde_json::{json, Value as J};
use storage_layout_extractor::{
    verif::{self, Event},
    watchdog::LazyWatchdog,
};

use crate::{
    progen::{self, assemble, Item, Limits},
    util::{unhex, Ndjson, Opts, R},
    vmrun::{analyze, layout_json, ScriptedWatchdog},
};

fn p1(v: u8) -> Item {
    Item::Push(vec![v])
}

fn p2(v: u16) -> Item {
    Item::Push(vec![(v >> 8) as u8, (v & 0xff) as u8])
}

/// Programs that spend their time in each of the polled loops.
pub fn programs(rng: &mut StdRng, thorough: bool) -> Vec<(String, Vec<u8>)> {
    let mut v: Vec<(String, Vec<Item>)> = Vec::new();
    // at least 8 iterations of 32 bytes, so that intervals up to 7 are exercised inside one loop
    let size = |rng: &mut StdRng| -> u16 { *[0x100u16, 0x140, 0x180].get(rng.gen_range(0..3)).unwrap() };
    let tail = |n: u8| -> Vec<Item> {
        let mut t = Vec::new();
        for i in 0..n {
            t.extend([p1(i), Item::Op(progen::MLOAD), p1(i), Item::Op(progen::SSTORE)]);
        }
        t.push(Item::Op(progen::STOP));
        t
    };
    // CALLDATACOPY(dest, offset, size)
    let mut c = vec![p2(size(rng)), p1(0), p1(0), Item::Op(0x37)];
    c.extend(tail(2));
    v.push(("calldatacopy".into(), c));
    // CODECOPY
    let mut c = vec![p2(size(rng)), p1(0), p1(0), Item::Op(0x39)];
    c.extend(tail(2));
    v.push(("codecopy".into(), c));
    // EXTCODECOPY(addr, dest, offset, size)
    let mut c = vec![p2(size(rng)), p1(0), p1(0), Item::Op(progen::CALLER), Item::Op(0x3c)];
    c.extend(tail(1));
    v.push(("extcodecopy".into(), c));
    // RETURNDATACOPY
    let mut c = vec![p2(size(rng)), p1(0), p1(0), Item::Op(0x3e)];
    c.extend(tail(1));
    v.push(("returndatacopy".into(), c));
    // CALL(gas, addr, value, argOff, argSize, retOff, retSize)
    let mut c = vec![p2(size(rng)), p1(0), p1(0), p1(0), p1(0), Item::Op(progen::CALLER), Item::Op(0x5a), Item::Op(0xf1), Item::Op(progen::POP)];
    c.extend(tail(1));
    v.push(("call-return-data".into(), c));
    // two copies on both sides of a fork (a stop in one thread's copy, then the other thread)
    let mut c = vec![Item::Op(progen::CALLDATASIZE), Item::PushLabel { label: 0, width: 2, high: 0, delta: 0 }, Item::Op(progen::JUMPI)];
    c.extend([p2(0x80), p1(0), p1(0), Item::Op(0x37), p1(0), Item::Op(progen::MLOAD), p1(1), Item::Op(progen::SSTORE), Item::Op(progen::STOP)]);
    c.push(Item::Label(0));
    c.extend([p2(0xa0), p1(0), p1(0), Item::Op(0x39), p1(0), Item::Op(progen::MLOAD), p1(2), Item::Op(progen::SSTORE), Item::Op(progen::STOP)]);
    v.push(("copies-on-both-branches".into(), c));
    // many short copies: no single instance of the loop is as long as the larger intervals, the work is in their number
    let mut c = Vec::new();
    for i in 0..10u8 {
        let op = if i % 2 == 0 { 0x37 } else { 0x39 };
        c.extend([p1(32 * (1 + i % 3)), p1(0), p2(32 * u16::from(i)), Item::Op(op)]);
    }
    c.extend(tail(1));
    v.push(("many-short-copies".into(), c));
    // many slots: lifting / assignment / inference / unification / layout loops
    let mut c = Vec::new();
    for i in 0..(if thorough { 14 } else { 8 }) {
        c.extend([p1(i), Item::Op(progen::SLOAD), Item::Push(vec![0xff; 20]), Item::Op(progen::AND), p1(i + 20), Item::Op(progen::SSTORE)]);
    }
    c.push(Item::Op(progen::STOP));
    v.push(("many-slots".into(), c));
    let mut out: Vec<(String, Vec<u8>)> = v.into_iter().map(|(n, i)| (n, assemble(&i))).collect();
    // main-loop heavy programs from the shared generator
    for _ in 0..(if thorough { 6 } else { 2 }) {
        let p = progen::loops(rng);
        out.push((p.family, p.code));
    }
    out
}

fn result_class(r: &Result<Result<storage_layout_extractor::StorageLayout, String>, String>) -> (&'static str, J) {
    match r {
        Ok(Ok(l)) => ("layout", layout_json(l)),
        Ok(Err(e)) if e.contains("StoppedByWatchdog") => ("stopped", J::Null),
        Ok(Err(_)) => ("error", J::Null),
        Err(_) => ("panic", J::Null),
    }
}

struct Run {
    class:  &'static str,
    layout: J,
    polls:  u64,
    events: Vec<J>,
}

fn monitored(code: &[u8], lim: &Limits, every: usize, stop_from: Option<u64>) -> Run {
    let wd = ScriptedWatchdog::new(every, stop_from, 5_000_000);
    verif::start();
    let r = analyze(code, lim, wd.clone());
    let evs = verif::take();
    let (class, layout) = result_class(&r);
    let mut events = Vec::with_capacity(evs.len());
    for e in evs {
        if let Event::LoopIter { site } = e {
            match site {
                "poll:go" => events.push(json!({"ev": "poll", "stop": false})),
                "poll:stop" => events.push(json!({"ev": "poll", "stop": true})),
                s => events.push(json!({"ev": "iter", "site": s})),
            }
        }
    }
    Run {
        class,
        layout,
        polls: wd.polls.get(),
        events,
    }
}

pub fn trace(o: &Opts) -> R<()> {
    let seed: u64 = o.num("seed", 1);
    let thorough = o.flag("thorough");
    let shards: usize = o.num("shards", 1);
    let prefix = o.str("out")?;
    let max_polls: u64 = o.num("max-polls", if thorough { 700 } else { 120 });
    let mut rng = StdRng::seed_from_u64(seed ^ 0xc13);
    let mut ws = Vec::new();
    for s in 0..shards {
        let mut w = Ndjson::create(&format!("{prefix}.{s}.ndjson"))?;
        w.put(&json!({"ev": "begin"}));
        ws.push(w);
    }
    let mut progs = programs(&mut rng, thorough);
    if let Some(p) = o.get("corpus") {
        let v: J = serde_json::from_str(&std::fs::read_to_string(p).map_err(|e| e.to_string())?).map_err(|e| e.to_string())?;
        for c in v.as_array().ok_or("corpus")? {
            let code = unhex(c["hex"].as_str().unwrap_or(""))?;
            if (100..if thorough { 2000 } else { 260 }).contains(&code.len()) {
                progs.push((format!("real:{}", c["name"].as_str().unwrap_or("?")), code));
            }
        }
    }
    let intervals: Vec<usize> = if thorough { vec![1, 2, 3, 4, 7, 10, 64, 100, 1000] } else { vec![1, 2, 3, 10, 100] };
    let mut runs = 0usize;
    let mut interrupted = 0usize;
    let mut summary = Vec::new();
    let mut unstable = 0usize;
    // generated programs under both error modes (a stop raised inside an instruction travels through the
    // VM's error handling, which differs between them); real contracts under the default mode
    let cases: Vec<(&String, &Vec<u8>, bool)> = progs
        .iter()
        .flat_map(|(n, c)| if n.starts_with("real:") { vec![(n, c, false)] } else { vec![(n, c, false), (n, c, true)] })
        .collect();
    for (name, code, perm) in cases {
        let lim = Limits {
            l: 2,
            f: 2,
            g: 30_000_000,
            perm,
        };
        let lim = &lim;
        let name = &format!("{name}{}", if perm { " (permissive)" } else { "" });
        // the unmonitored result
        let lazy = analyze(code, lim, std::rc::Rc::new(LazyWatchdog));
        let (lazy_class, lazy_layout) = result_class(&lazy);
        // The unmonitored result itself must be stable for "same as unmonitored" to mean anything
        // (order-dependence of the result is C02's business, not C13's).
        let stable = (0..3).all(|_| {
            let again = analyze(code, lim, std::rc::Rc::new(LazyWatchdog));
            let (c, l) = result_class(&again);
            c == lazy_class && l == lazy_layout
        });
        if !stable {
            unstable += 1;
        }
        for every in &intervals {
            let base = monitored(code, lim, *every, None);
            let n = base.polls;
            let same = !stable || (base.class == lazy_class && base.layout == lazy_layout);
            let w = &mut ws[runs % shards];
            w.put(&json!({"ev": "wbegin", "I": every, "k": -1, "name": name, "hex": hex::encode(code), "polls": n}));
            for e in &base.events {
                w.put(e);
            }
            w.put(&json!({"ev": "wend", "res": base.class, "same": same}));
            runs += 1;
            // every poll index (exhaustive when small, stratified beyond)
            let ks: Vec<u64> = if n <= max_polls {
                (0..n).collect()
            } else {
                let mut v: Vec<u64> = (0..20).chain(n - 20..n).collect();
                for _ in 0..(max_polls.saturating_sub(40)) {
                    v.push(rng.gen_range(0..n));
                }
                v.sort_unstable();
                v.dedup();
                v
            };
            for k in &ks {
                let r = monitored(code, lim, *every, Some(*k));
                let w = &mut ws[runs % shards];
                w.put(&json!({"ev": "wbegin", "I": every, "k": k, "name": name, "hex": hex::encode(code), "polls": n}));
                for e in &r.events {
                    w.put(e);
                }
                let same_k = !stable || (r.class == lazy_class && r.layout == lazy_layout);
                w.put(&json!({"ev": "wend", "res": r.class, "same": same_k}));
                runs += 1;
                interrupted += 1;
            }
            summary.push(json!({"program": name, "I": every, "polls": n, "stop_points": ks.len(), "unmonitored": lazy_class}));
        }
    }
    let mut recs = 0;
    for w in ws {
        recs += w.finish();
    }
    println!("{}", json!({"runs": runs, "interrupted_runs": interrupted, "records": recs, "programs": progs.len(), "unstable_programs": unstable, "summary": summary}));
    Ok(())
}
