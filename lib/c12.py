"""C12 — decided by Idioms.tla / SlotFlow.tla / Layout.tla: see lib/layout_checks.py."""
import layout_checks

PROP = "C12"


def run(tier, seed):
    return layout_checks.run(PROP, tier, seed)


def replay(path, seed):
    return layout_checks.replay(PROP, path, seed)
