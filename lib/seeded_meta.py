#!/usr/bin/env python3
"""Writes seeded/<id>/meta.json and seeded/MATRIX.md from what is recorded next to each seeded change:
README.agent.md (the author's description), confirm.txt (lib/confirm_mutant.sh at the recorded /repo HEAD) and
check.txt (lib/matrix.sh: the change applied to /repo, the property's quick check run, the change undone)."""
import glob, json, os, re

ROOT = "/verif/seeded"
NOTES = {
    "C05-m6": "CALLCODE executed as DELEGATECALL pops six operands instead of seven: the stack-effect sweep of the SymVM check reports it "
              "as Inv_C17_Demand (./check C17), which shares the specification; the layouts C05 looks at are unaffected on the generated programs",
    "C03-m7": "unification remembers only the last four forests: rings of five or more packed encodings rotate for ever. The author found no "
              "bytecode that produces such a ring; the judgement-level check of C14 (Inv_C14_Terminates, pure rings of 5-16 encodings) reports it",
    "C08-m8": "needs code longer than 24 576 bytes; the TLC acceptors that hold the whole code are super-quadratic in its length (DESIGN §4 C08, §9)",
    "C11-m7": "needs a slot constant made of printable bytes and 0x7f hashed only with constants; the pinned tree already treats genuinely "
              "printable constants specially there, so the relation C11 demands would need a finding of its own; not pursued",
    "C02-m2": "written against a tree without the fold_shape ordering fix (ccf2efc); on the current tree the changed merge is "
              "deterministic (the word always lands in the first-sorted span): the demo still fails, but on its final assertion about "
              "the expected layout, not on run-to-run difference, so the change no longer breaks C02 and is not counted",
    "C17-m4": "the fall-through path of a JUMPI with a symbolic target is abandoned, so the errors that would follow are never raised: "
              "this is reported by the check of C08 (Inv_C08_Both: a JUMPI never fails), which shares the SymVM specification, "
              "not by C17's own invariants (verified: ./check C08 exits 1 with the change applied)",
    "C16-m3": "the demo goes through the whole pipeline, where the canonical fold order (1b04153) now always presents the pair in "
              "the surviving direction, so the demo passes at HEAD; merge itself is still not commutative with the change, which is "
              "what C16 states and what the check evaluates (all ordered pairs)",
}


def section(text, words):
    lines = text.splitlines()
    for i, l in enumerate(lines):
        if l.startswith("#") and any(w in l.lower() for w in words):
            out = []
            for m in lines[i + 1:]:
                if m.startswith("#"):
                    break
                out.append(m)
            return " ".join(" ".join(out).split())[:900]
    return ""


rows = []
for d in sorted(glob.glob(os.path.join(ROOT, "C*-m*"))):
    mid = os.path.basename(d)
    prop = mid.split("-")[0]
    readme = open(os.path.join(d, "README.agent.md")).read() if os.path.exists(os.path.join(d, "README.agent.md")) else ""
    title = next((l.lstrip("# ").strip() for l in readme.splitlines() if l.startswith("#")), mid)
    title = re.sub(r"^(C\d+\s*(r2)?\s*[/-]\s*)?m\d\s*[-:–—]\s*", "", title)
    files = [l[6:].strip() for l in open(os.path.join(d, "patch.diff")) if l.startswith("+++ b/")]
    needs = section(readme, ["needed", "manifest", "trigger"]) or section(readme, ["why it breaks"])
    confirm = open(os.path.join(d, "confirm.txt")).read().strip() if os.path.exists(os.path.join(d, "confirm.txt")) else "not run"
    check = open(os.path.join(d, "check.txt")).read().strip().splitlines() if os.path.exists(os.path.join(d, "check.txt")) else []
    head = check[0] if check else "not run"
    m = re.search(r"exit=(\d+)", head)
    rc = int(m.group(1)) if m else None
    caught = {1: "caught", 0: "missed", 2: "tool error"}.get(rc, "not run")
    if mid == "C02-m2":
        caught = "not counted"
    invs = sorted({re.sub(r":.*", "", l.strip()) for l in check[1:] if l.startswith("  Inv")})[:4]
    meta = {
        "id": mid, "property": prop, "what": title, "files_touched": files,
        "needs_to_manifest": needs,
        "demonstration": sorted(os.path.basename(f) for f in glob.glob(os.path.join(d, "demo*.rs"))),
        "confirmed": {"how": "lib/confirm_mutant.sh in a scratch worktree: patch applies, the whole existing suite passes with it, the "
                             "demonstration fails with it and passes without it", "result": confirm},
        "check_run": {"how": (f"lib/dev_mutants.sh: the patch applied in a scratch worktree at /repo's HEAD and ./check {prop} --tier quick run "
                              "against that worktree (development mode: a copy of the harness whose path dependency is the worktree)"
                              if head.startswith("dev ") else
                              f"lib/matrix.sh: git -C /repo apply patch.diff; ./check {prop} --tier quick; git -C /repo checkout -- ."),
                      "result": head, "outcome": caught, "invariants_reported": invs},
    }
    if mid in NOTES:
        meta["note"] = NOTES[mid]
    json.dump(meta, open(os.path.join(d, "meta.json"), "w"), indent=1)
    rows.append((mid, title, ", ".join(files), caught, ", ".join(invs), "yes" if confirm.split(" ")[1:2] == ["CONFIRMED"] else confirm[:40]))

with open(os.path.join(ROOT, "MATRIX.md"), "w") as fh:
    fh.write("# Seeded changes against the quick checks\n\nGenerated by lib/seeded_meta.py from seeded/*/confirm.txt and check.txt.\n\n")
    fh.write("| change | what | files | confirmed at HEAD | quick check of its property | invariants reported |\n|---|---|---|---|---|---|\n")
    for r in rows:
        fh.write(f"| {r[0]} | {r[1][:110]} | {r[2]} | {r[5]} | {r[3]} | {r[4][:120]} |\n")
    n = sum(1 for r in rows if r[3] == "caught")
    fh.write(f"\n{n} of {sum(1 for r in rows if r[3] in ('caught', 'missed'))} counted changes are caught by the quick check of their own property.\n")
print(open(os.path.join(ROOT, "MATRIX.md")).read()[-400:])
