"""C04 / C05 / C06 / C11 / C12 — layout-level properties, decided by Idioms.tla, SlotFlow.tla and Layout.tla:

 spec -> impl: IdiomsGen (TLC) enumerates ground-truth contract descriptions (every single variable over the
               parameter grid: 5 kinds, mapping depths 1-4 with address/word keys, packed splits of 2-6 fields, small
               and > 2^128 slots, read / write / both; and pairs at distinct slots); the harness's assembler compiles
               each, the real pipeline analyses it, and Idioms!Expected judges the layout (C04).
 impl -> spec: for every analysed program (those, random contracts of 1-12 variables, mask/shift programs with
               shift amounts and mask positions anywhere in 0..2^256, storage-free look-alike hashing, look-alike
               hashes stored as values, literal keys of every magnitude behind forks and before errors, control-flow
               programs, mutated real contracts) the layout and the key terms of every storage access the VM
               performed are recorded and LayoutTrace.tla checks Inv_C12_Sorted / Inv_C12_InSlot, Inv_C05_NoPhantom,
               Inv_C06_NoMissed, and the relational Inv_C11_Union / Inv_C11_Rename on composed / renumbered contracts.
"""
import json
import os
from concurrent.futures import ThreadPoolExecutor

import corpus
import symvm
from common import (SPEC, WORK, ToolError, Verdict, harness, log, printed, run_tlc, validate_trace, workdir)


def pipeline(tier, seed):
    key = f"{symvm.tree_hash()}-{tier}-{seed}"
    cache = os.path.join(WORK, f"layout-cache-{key}.json")
    if os.path.exists(cache):
        log(f"[layout] using cached result {os.path.basename(cache)}")
        return json.load(open(cache))
    wd = workdir("layout")
    thorough = tier == "thorough"
    with open(os.path.join(SPEC, "_IdiomsGen.cfg"), "w") as fh:
        fh.write(f"SPECIFICATION Spec\nCONSTANT Full = {'TRUE' if thorough else 'FALSE'}\nINVARIANT Emit\nCHECK_DEADLOCK FALSE\n")
    try:
        r = run_tlc("IdiomsGen", cfg="_IdiomsGen.cfg", workers=4, timeout=1200)
    finally:
        os.remove(os.path.join(SPEC, "_IdiomsGen.cfg"))
    if r.rc != 0:
        raise ToolError(f"IdiomsGen failed: {r.error_lines[:3]}")
    descs = os.path.join(wd, "descs.ndjson")
    n = 0
    with open(descs, "w") as fh:
        for c in printed(r.out_path, "CASE"):
            fh.write(json.dumps(c) + "\n")
            n += 1
    if n == 0:
        raise ToolError("IdiomsGen printed no contract descriptions")
    shards = 12 if thorough else 4
    cpath = corpus.write_corpus(os.path.join(wd, "corpus.json"))
    args = ["layout-run", "--seed", seed, "--shards", shards, "--out", os.path.join(wd, "l"), "--descs", descs, "--corpus", cpath]
    args += ["--random", 6000, "--programs", 9000, "--pairs", 1500, "--max-real-bytes", 6000] if thorough else \
            ["--random", 250, "--programs", 840, "--pairs", 100, "--max-real-bytes", 1200]
    p = harness(args, timeout=3400)
    info = json.loads(p.stdout.strip().splitlines()[-1])
    log(f"[layout] {n} model-enumerated contracts; {info['programs']} programs analysed ({info['analysed_ok']} ok): {info['families']}")
    paths = [os.path.join(wd, f"l.{s}.ndjson") for s in range(shards)]

    def one(s):
        return validate_trace("LayoutTrace", paths[s], name=f"LayoutTrace-{s}", timeout=3400, heap="6g")

    with ThreadPoolExecutor(max_workers=min(shards, 6)) as ex:
        verdicts = list(ex.map(one, range(shards)))
    viol = []
    states = r.distinct
    trans = r.generated
    cnt = {"layouts": 0, "ok": 0, "bad": 0}
    for s, tv in enumerate(verdicts):
        if tv.matched < tv.records:
            raise ToolError(f"LayoutTrace could not consume record {tv.matched + 1} of {paths[s]}: {str(tv.first_unmatched)[:300]} ({tv.tlc.out_path})")
        states += tv.tlc.distinct
        trans += tv.tlc.generated
        st = list(printed(tv.tlc.out_path, "TRACE"))[-1].get("cnt", {})
        for k in cnt:
            cnt[k] += int(st.get(k, 0))
        for x in tv.viol:
            rec = x.get("record", {})
            viol.append({"inv": sorted(x["inv"]), "src": rec.get("src", rec.get("ev")), "hex": rec.get("hex"),
                         "vars": rec.get("vars"), "entries": [{"slot": e["slot"], "offset": e["offset"], "type": e["type"]}
                                                               for e in rec.get("entries", [])][:12],
                         "ev": rec.get("ev"), "res": rec.get("res")})
    sample = None
    with open(paths[0]) as fh:
        fh.readline()
        sample = json.loads(fh.readline())
        sample = {k: sample[k] for k in ("src", "hex", "vars", "res") if k in sample}
    res = {"states": states, "transitions": trans, "descs": n, "info": info, "viol": viol, "cnt": cnt, "sample": sample}
    with open(cache, "w") as fh:
        json.dump(res, fh)
    return res


def run(prop, tier, seed):
    v = Verdict(prop, tier, seed)
    res = pipeline(tier, seed)
    mine = [x for x in res["viol"] if any(i.startswith("Inv_" + prop) for i in x["inv"])]
    for x in mine:
        inv = "+".join(i for i in x["inv"] if i.startswith("Inv_" + prop))
        v.violation(f"{inv}:{x['src']}",
                    f"{inv} fails on program {str(x['hex'])[:160]} (family {x['src']}); "
                    f"layout {json.dumps(x['entries'])[:300]}" + (f"; variables {json.dumps(x['vars'])[:300]}" if x.get("vars") else ""),
                    {"kind": "program", "hex": x["hex"], "vars": x.get("vars"), "invariants": x["inv"]})
    log(f"[{prop}] LayoutTrace: {res['cnt']}; {len(res['viol'])} failing records reported ({len(mine)} for {prop})")
    stor = None
    if prop == "C06":
        import vmstate
        stor = vmstate.run(tier, seed)
        vmstate.report(prop, v, stor)
    lift = None
    if prop in ("C04", "C12"):
        import liftmodel
        lift = liftmodel.run(tier, seed)
        liftmodel.report(prop, v, lift)
    flat = None
    if prop in ("C12", "C04"):
        import flattenmodel
        flat = flattenmodel.run(tier, seed)
        flattenmodel.report(prop, v, flat)
    packed = None
    if prop == "C12":
        import packedmodel
        packed = packedmodel.run(tier, seed)
        packedmodel.report(prop, v, packed)
    cov = {
        "states": res["states"],
        "transitions": res["transitions"],
        "traces_validated_against_impl": res["cnt"]["layouts"],
        "programs_analysed_ok": res["cnt"]["ok"],
        "model_enumerated_contracts": res["descs"],
        "families": res["info"]["families"],
        "exhaustive": False,
        "rule": "contracts enumerated by IdiomsGen + seeded generators; a program contributes when its analysis succeeds",
        "samples": [res["sample"]],
    }
    if flat:
        cov["flatten_model"] = flattenmodel.coverage(flat)
        cov["states"] += flat["states"]
    if packed:
        cov["packed_merge_model"] = packedmodel.coverage(packed)
        cov["states"] += packed["states"]
    if lift:
        cov["lifting_model"] = liftmodel.coverage(lift)
        cov["states"] += lift["states"]
    if stor:
        cov["storage_model"] = vmstate.coverage(stor)
        cov["states"] += stor["states"]
    return v.finish("model_checking" if prop in ("C04", "C05", "C06") else "exploration" if prop == "C11" else "model_checking", 
                    cov | ({"evaluations": res["info"]["programs"], "distinct_nontrivial": res["cnt"]["ok"]} if prop == "C11" else {}),
                    ["TLC + community modules", "the harness's assembler implements the idiom templates of Idioms.tla",
                     "key terms are read from ExecutionResult::all_values(); the derivations (folded constants, keccak "
                     "pre-images below 10000, sums/differences of two constants of one key) are computed by the harness"])


def replay(prop, path, seed):
    from common import read_json as _rj
    _doc = _rj(path)
    if _doc["replay"].get("kind") == "flatten-tree":
        import flattenmodel
        from common import Verdict as _V2
        _v2 = _V2(prop, _doc.get("tier", "quick"), _doc.get("seed", seed))
        _n2 = flattenmodel.report(prop, _v2, flattenmodel.run(_doc.get("tier", "quick"), _doc.get("seed", seed)))
        print(json.dumps({"flatten_violations": _n2}))
        if _n2:
            print(f"VIOLATION property={prop} replay={path}")
        return 1 if _n2 else 0
    if _doc["replay"].get("kind") == "packed-pair":
        import packedmodel
        from common import Verdict as _V
        _v = _V(prop, _doc.get("tier", "quick"), _doc.get("seed", seed))
        _n = packedmodel.report(prop, _v, packedmodel.run(_doc.get("tier", "quick"), _doc.get("seed", seed)))
        print(json.dumps({"packed_merge_violations": _n}))
        if _n:
            print(f"VIOLATION property={prop} replay={path}")
        return 1 if _n else 0
    if _doc["replay"].get("kind") == "lift-term":
        # one term of LiftGen: run it alone through the real passes and LiftTrace
        wd = workdir("lift-replay")
        cp, tp = os.path.join(wd, "case.ndjson"), os.path.join(wd, "lift.ndjson")
        with open(cp, "w") as fh:
            fh.write(json.dumps({"fam": _doc["replay"]["fam"], "term": _doc["replay"]["term"]}) + "\n")
        harness(["lift-replay", "--cases", cp, "--out", tp])
        tv = validate_trace("LiftTrace", tp)
        bad = [i for x in tv.viol for i in x["inv"] if i.startswith("Inv_" + prop)]
        print(json.dumps({"term": _doc["replay"]["term"], "violations": bad}))
        if bad:
            print(f"VIOLATION property={prop} replay={path}")
        return 1 if bad else 0
    from common import read_json
    rp = read_json(path)["replay"]
    wd = workdir("layout-replay")
    tp = os.path.join(wd, "one.ndjson")
    harness(["layout-one", "--hex", rp["hex"], "--out", tp])
    tv = validate_trace("LayoutTrace", tp)
    bad = [x for x in tv.viol if any(i.startswith("Inv_" + prop) for i in x["inv"])]
    print(json.dumps({"hex": rp["hex"], "violations": [x["inv"] for x in tv.viol]}))
    if bad:
        print(f"VIOLATION property={prop} replay={path}")
        return 1
    return 0
