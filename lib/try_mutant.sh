#!/bin/bash
# try_mutant.sh <patch.diff> <check args...> : applies the patch to /repo, runs ./check, ALWAYS undoes it.
P=$1; shift
cd /repo && git diff --quiet || { echo "/repo not clean"; exit 2; }
git -C /repo apply "$P" || { echo "patch does not apply to /repo"; exit 2; }
cd /verif && ./check "$@"; RC=$?
git -C /repo checkout -- .
echo "check exit=$RC"
exit $RC
