#!/bin/bash
# confirm_mutant.sh <worktree> <mutant-dir> : confirms in the scratch worktree that
#  (1) the patch applies and the full existing suite passes with it,
#  (2) the demonstration fails with it, (3) the demonstration passes without it.
# Prints CONFIRMED or REJECTED:<why>. Leaves the worktree clean.
set -u
WT=$1; M=$2
export CARGO_TARGET_DIR=$WT/target CARGO_NET_OFFLINE=true
cd "$WT" || exit 2
git checkout -q -- . ; rm -f tests/zz_demo.rs
git apply --check "$M/patch.diff" || { echo "REJECTED:patch does not apply"; exit 1; }
git apply "$M/patch.diff"
DEMO=$(ls "$M"/demo*.rs 2>/dev/null | head -1)
[ -z "$DEMO" ] && { echo "REJECTED:no demo .rs"; git checkout -q -- .; exit 1; }
cargo test --workspace --no-fail-fast --offline > "$M/suite_with_patch.log" 2>&1
if grep -qE "^test result: FAILED|error(\[E[0-9]+\])?:|could not compile" "$M/suite_with_patch.log"; then
  echo "REJECTED:existing suite fails or does not compile with the patch"; git checkout -q -- .; exit 1; fi
PASSED=$(grep -E "^test result: ok" "$M/suite_with_patch.log" | awk '{s+=$4} END {print s}')
cp "$DEMO" tests/zz_demo.rs
cargo test --offline --test zz_demo > "$M/demo_with_patch.log" 2>&1; RC1=$?
git checkout -q -- .
cargo test --offline --test zz_demo > "$M/demo_without_patch.log" 2>&1; RC2=$?
rm -f tests/zz_demo.rs
if [ $RC1 -eq 0 ]; then echo "REJECTED:demo passes with the patch"; exit 1; fi
if [ $RC2 -ne 0 ]; then echo "REJECTED:demo fails without the patch"; exit 1; fi
echo "CONFIRMED suite_passed=$PASSED demo_with_patch=FAIL demo_without_patch=PASS"
