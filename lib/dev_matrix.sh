#!/bin/bash
# dev_matrix.sh <seeded id>: runs the quick check of the change's property against a scratch worktree of /repo's HEAD with
# seeded/<id>/patch.diff applied (development mode, see dev_mutants.sh; /repo itself is not touched) and records the
# outcome in seeded/<id>/check.txt.  Several can run side by side: ls seeded | xargs -P 5 -n 1 lib/dev_matrix.sh
ID=$1; P=${ID%%-*}
D=/verif/seeded/$ID
[ -f "$D/patch.diff" ] || exit 0
WT=/tmp/wt/mx-$ID; DEV=/tmp/dev/mx-$ID
HEAD=$(git -C /repo rev-parse HEAD)
rm -rf "$WT" "$DEV"; git -C /repo worktree prune
git -C /repo worktree add -q --detach "$WT" "$HEAD" || exit 2
if ! git -C "$WT" apply "$D/patch.diff" 2>/dev/null; then
  echo "dev head=${HEAD:0:7} check=$P tier=quick exit= patch does not apply to HEAD" > "$D/check.txt"
else
  mkdir -p "$DEV"; rsync -a --exclude target /verif/harness "$DEV/"; rsync -a /verif/spec "$DEV/"
  sed -i "s|path = \"/repo\"|path = \"$WT\"|" "$DEV/harness/Cargo.toml"
  T0=$(date +%s)
  OUT=$(cd /verif && SLE_VERIF_DEV=$DEV SLE_VERIF_DEV_REPO=$WT ./check $P --tier quick 2>&1); RC=$?
  T1=$(date +%s)
  { echo "dev head=${HEAD:0:7} verif=$(git -C /verif rev-parse --short HEAD) check=$P tier=quick exit=$RC wall=$((T1-T0))s";
    echo "$OUT" | grep -E "VIOLATION|^  Inv|ToolError|TOOL-ERROR|rror:" | cut -c1-400 | head -8; } > "$D/check.txt"
fi
git -C /repo worktree remove --force "$WT" 2>/dev/null; rm -rf "$WT" "$DEV"
echo "$ID $(head -1 $D/check.txt | grep -o 'exit=[0-9]*')"
