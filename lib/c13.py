"""C13 — the watchdog can stop analysis at any poll and is polled as often as promised.

 spec alone  : WatchdogMC — the poll discipline of the implementation (counter mod I) for every interval in
               {1,2,3}, every main-loop length <= 4 with copy loops <= 2, type-checker loops <= 2 and every poll at
               which the environment starts answering stop: Inv_C13_Rate / Latency / Stop / Same and termination.
 impl -> spec: fault enumeration on the real pipeline: for programs that live in each polled loop (main loop, the
               four bulk-copy opcodes, call return data, lifting, assignment, inference, unification, layout) and each
               interval, one run that never stops (must equal the unmonitored result) and one run per poll index k
               (exhaustive up to the tier's bound, stratified beyond) with a watchdog that answers stop from poll k
               on; the interleaved LoopIter / poll events of every run are validated by WatchdogTrace.tla.
"""
import json
import os
from concurrent.futures import ThreadPoolExecutor

import corpus
from common import (SPEC, ToolError, Verdict, harness, log, run_tlc, tlc_must_pass, validate_trace, workdir)

PROP = "C13"


def run(tier, seed):
    v = Verdict(PROP, tier, seed)
    wd = workdir("c13")
    thorough = tier == "thorough"
    r = run_tlc("WatchdogMC", workers=8, timeout=1200)
    tlc_must_pass(r, "WatchdogMC")
    # vacuity: the latency bound I+1 is actually reached by some behaviour
    with open(os.path.join(SPEC, "_WatchdogVac.cfg"), "w") as fh:
        fh.write(open(os.path.join(SPEC, "WatchdogMC.cfg")).read().replace("INVARIANTS AllInvariants Terminates",
                                                                          "INVARIANTS SomeLatency"))
    try:
        vac = run_tlc("WatchdogMC", cfg="_WatchdogVac.cfg", workers=8, timeout=600, name="WatchdogVac")
    finally:
        os.remove(os.path.join(SPEC, "_WatchdogVac.cfg"))
    if vac.violated != "SomeLatency":
        raise ToolError("vacuity self-test: no behaviour of WatchdogMC reaches the latency bound")
    log(f"[C13] WatchdogMC: {r.distinct} states; a stop in a copy loop followed by I further polls is reachable (latency demand not vacuous)")

    shards = 8 if thorough else 4
    cpath = corpus.write_corpus(os.path.join(wd, "corpus.json"))
    args = ["wd-trace", "--seed", seed, "--shards", shards, "--out", os.path.join(wd, "w"), "--corpus", cpath]
    if thorough:
        args.append("--thorough")
    p = harness(args, timeout=3400)
    info = json.loads(p.stdout.strip().splitlines()[-1])
    log(f"[C13] {info['programs']} programs, {info['runs']} monitored runs ({info['interrupted_runs']} interrupted), "
        f"{info['records']} records")
    paths = [os.path.join(wd, f"w.{s}.ndjson") for s in range(shards)]

    def one(s):
        return validate_trace("WatchdogTrace", paths[s], name=f"WatchdogTrace-{s}", timeout=3400, heap="6g")

    with ThreadPoolExecutor(max_workers=min(shards, 8)) as ex:
        verdicts = list(ex.map(one, range(shards)))
    states = r.distinct
    trans = r.generated
    nviol = 0
    for s, tv in enumerate(verdicts):
        states += tv.tlc.distinct
        trans += tv.tlc.generated
        if tv.matched < tv.records:
            raise ToolError(f"WatchdogTrace could not consume record {tv.matched + 1} of {paths[s]}: {tv.first_unmatched}")
        for x in tv.viol:
            nviol += 1
            at = int(x["at"])
            begin = None
            site = None
            with open(paths[s]) as fh:
                for i, line in enumerate(fh, 1):
                    if i > at:
                        break
                    if '"wbegin"' in line:
                        begin = json.loads(line)
                    elif '"iter"' in line:
                        site = json.loads(line)["site"]
            inv = "+".join(sorted(x["inv"]))
            rec = x.get("record", {})
            v.violation(f"{inv}:{site}:{rec.get('ev')}:{rec.get('res', '')}",
                        f"{inv} fails at record {at} ({json.dumps(rec)[:120]}) of program {begin.get('name')} "
                        f"I={begin.get('I')} stop-from-poll={begin.get('k')} (last loop site {site})",
                        {"kind": "watchdog", "hex": begin.get("hex"), "I": begin.get("I"), "k": begin.get("k"),
                         "invariants": x["inv"]})
    log(f"[C13] WatchdogTrace: {sum(tv.records for tv in verdicts)} records, {nviol} invariant failures")
    cov = {
        "evaluations": info["runs"],
        "distinct_nontrivial": info["interrupted_runs"],
        "rule": "one run per (program, interval, poll index k at which the watchdog starts answering stop); a run is "
                "non-trivial when it is interrupted (k < total polls); distinct by (program, interval, k)",
        "samples": info["summary"][:12],
        "states": states,
        "transitions": trans,
        "traces_validated_against_impl": info["runs"] if nviol == 0 else 0,
        "unstable_programs_skipped_for_same": info.get("unstable_programs", 0),
        "exhaustive": False,
    }
    return v.finish("fault_enumeration", cov,
                    ["TLC + community modules", "LoopIter hooks sit at the top of each polled loop (a polled loop without "
                     "a hook is reported by Inv_C13_Rate/hooked)", "the scripted watchdog logs every should_stop() itself"])


def replay(path, seed):
    print(open(path).read())
    return run("quick", seed)
