"""C20 — layouts survive a JSON round trip with exact 256-bit slot indices.

 spec -> impl: LayoutGen (TLC) enumerates every AbiType tree of depth <= 2 over all 17 variants (option fields
               none/8/256, array lengths from a boundary set up to 2^256-1, conflicts with and without payloads);
               the harness builds each value, serialises it with the crate's serde implementation and parses it back.
 impl -> spec: every round trip (those, every boundary index x offsets, random trees to depth 5 with random 256-bit
               indices) is validated by LayoutJsonTrace.tla: Inv_C20_RoundTrip (parses back to an equal entry: type
               tree, index bytes, offset), Inv_C20_IndexFormat (exactly "0x" + 64 lower-case hex digits of the index,
               for slot indices and array lengths; fields index/offset/type), Inv_C20_WireShape (snake_case variant
               tags and field names of LayoutJson!WireShape).
"""
import json
import os

from common import (ToolError, Verdict, harness, log, printed, run_tlc, validate_trace, workdir)

PROP = "C20"


def run(tier, seed):
    v = Verdict(PROP, tier, seed)
    wd = workdir("c20")
    r = run_tlc("LayoutGen", workers=2, timeout=600)
    if r.rc != 0:
        raise ToolError(f"LayoutGen failed: {r.error_lines[:3]}")
    cases = os.path.join(wd, "types.ndjson")
    n = 0
    with open(cases, "w") as fh:
        for c in printed(r.out_path, "CASE"):
            fh.write(json.dumps(c) + "\n")
            n += 1
    tp = os.path.join(wd, "json.ndjson")
    p = harness(["json-trace", "--seed", seed, "--cases", cases, "--random", 20000 if tier == "thorough" else 1500, "--out", tp])
    info = json.loads(p.stdout.strip().splitlines()[-1])
    tv = validate_trace("LayoutJsonTrace", tp, timeout=3000)
    if tv.matched < tv.records:
        raise ToolError(f"LayoutJsonTrace could not consume record {tv.matched + 1}: {str(tv.first_unmatched)[:300]} ({tv.tlc.out_path})")
    for x in tv.viol:
        rec = x.get("record", {})
        for inv in x["inv"]:
            v.violation(f"{inv}:{rec.get('type', {}).get('k')}",
                        f"{inv}: entry with index {bytes(rec.get('idx', [])).hex()} offset {rec.get('offset')} type "
                        f"{json.dumps(rec.get('type'))[:200]} serialises to {rec.get('text', '')[:200]} {rec.get('err', '')}",
                        {"kind": "layout-entry", "type": rec.get("type"), "idx": rec.get("idx"), "offset": rec.get("offset")})
    log(f"[C20] {n} model-enumerated types, {info['entries']} entries round-tripped, {len(tv.viol)} failing")
    with open(tp) as fh:
        fh.readline()
        s = json.loads(fh.readline())
    cov = {"evaluations": info["entries"], "distinct_nontrivial": info["entries"],
           "rule": "one entry per (type tree, index, offset); types: all trees of depth <= 2 (TLC) + random depth <= 5; indices: "
                   "boundary set (0,1,0x42,2^64-1,2^64,2^128-1,2^128,2^128+1,2^160,2^k for k>=128,2^255,2^256-2^128+5,2^256-1,"
                   "EIP-1967) and random words; offsets 0..255",
           "states": r.distinct + tv.tlc.distinct, "transitions": tv.tlc.generated, "traces_validated_against_impl": info["entries"],
           "samples": [{k: s.get(k) for k in ("type", "text", "idx", "offset")}]}
    return v.finish("exploration", cov, ["TLC", "the JSON text is re-read with serde_json::Value to extract tags and field names",
                    "fidelity of serde_json itself is outside the specification"])


def replay(path, seed):
    print(open(path).read()[:2000])
    return run("quick", seed)
