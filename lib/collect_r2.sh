#!/bin/bash
# collect_r2.sh <Cxx> [suffix=r2]: copies /tmp/wt/<Cxx><suffix>/mutants/m* to the next free /verif/seeded/<Cxx>-m<N> and removes the worktree
P=$1; S=${2:-r2}
i=1; while [ -d /verif/seeded/$P-m$i ]; do i=$((i+1)); done
for m in /tmp/wt/${P}${S}/mutants/m*; do
  [ -d "$m" ] || continue
  D=/verif/seeded/$P-m$i; mkdir -p $D
  cp $m/patch.diff $D/ 2>/dev/null
  n=0
  for f in $m/*.rs; do [ -f "$f" ] && { if [ $n -eq 0 ]; then cp "$f" $D/demo.rs; else cp "$f" $D/demo_$n.rs; fi; n=$((n+1)); }; done
  [ -f $m/README.md ] && cp $m/README.md $D/README.agent.md
  echo "$D: $(ls $D | tr '\n' ' ')"
  i=$((i+1))
done
git -C /repo worktree remove --force /tmp/wt/${P}${S} 2>/dev/null; rm -rf /tmp/wt/${P}${S}
