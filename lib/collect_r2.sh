#!/bin/bash
# collect_r2.sh <Cxx>: copies /tmp/wt/<Cxx>r2/mutants/m1,m2 to /verif/seeded/<Cxx>-m3,-m4 and removes the worktree
P=$1; i=3
for m in /tmp/wt/${P}r2/mutants/m*; do
  [ -d "$m" ] || continue
  D=/verif/seeded/$P-m$i; mkdir -p $D
  cp $m/patch.diff $D/ 2>/dev/null
  for f in $m/*.rs; do [ -f "$f" ] && cp "$f" $D/demo_$(basename $f | sed 's/^demo_\?//'); done
  [ -f $m/README.md ] && cp $m/README.md $D/README.agent.md
  ls $D | tr '\n' ' '; echo
  i=$((i+1))
done
git -C /repo worktree remove --force /tmp/wt/${P}r2 2>/dev/null; rm -rf /tmp/wt/${P}r2
