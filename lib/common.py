"""Shared plumbing for the checks: building the harness against /repo's working tree,
running TLC, extracting what TLC printed, evidence files, known findings, verdicts."""
import hashlib
import json
import os
import re
import shutil
import subprocess
import sys
import time

VERIF = os.path.dirname(os.path.dirname(os.path.abspath(__file__)))
SPEC = os.path.join(VERIF, "spec")  # overridden below in development mode
# Development aid only (never set by the registered commands): SLE_VERIF_DEV=<dir> runs the checks with the harness
# copy in <dir>/harness (which may depend on a scratch worktree) and keeps work files, evidence and replays under <dir>.
_DEV = os.environ.get("SLE_VERIF_DEV")
HARNESS = os.path.join(_DEV or VERIF, "harness")
WORK = os.path.join(_DEV or VERIF, "work")
EVIDENCE = os.path.join(_DEV or VERIF, "evidence")
REPLAYS = os.path.join(_DEV or VERIF, "replays")
REPO = os.environ.get("SLE_VERIF_DEV_REPO", "/repo") if _DEV else "/repo"
if _DEV and os.path.isdir(os.path.join(_DEV, "spec")):
    SPEC = os.path.join(_DEV, "spec")
TLA_JAR = "/opt/veriftools/tla/tla2tools.jar"
CM_JAR = None

OFFLINE_ENV = {"CARGO_NET_OFFLINE": "true"}


class ToolError(Exception):
    """The tooling itself failed (exit 2); never reported as a violation."""


def log(msg):
    print(msg, flush=True)


def workdir(name):
    d = os.path.join(WORK, name)
    shutil.rmtree(d, ignore_errors=True)
    os.makedirs(d, exist_ok=True)
    return d


_built = {}


def build_harness(profile="release"):
    """(Re)builds the harness; cargo notices edits under /repo through the path dependency."""
    if profile in _built:
        return _built[profile]
    env = dict(os.environ, **OFFLINE_ENV)
    cmd = ["cargo", "build", "--offline", "--quiet"]
    if profile == "release":
        cmd.append("--release")
    t0 = time.time()
    p = subprocess.run(cmd, cwd=HARNESS, env=env, capture_output=True, text=True)
    if p.returncode != 0:
        sys.stderr.write(p.stderr[-4000:])
        raise ToolError("harness build failed (does /repo still compile with --cfg sle_verif?)")
    exe = os.path.join(HARNESS, "target", "release" if profile == "release" else "debug", "sle-verif")
    _built[profile] = exe
    log(f"[build] harness ({profile}) in {time.time() - t0:.1f}s")
    return exe


def harness(args, profile="release", timeout=3600, check=True, env_extra=None, mem_gb=16):
    exe = build_harness(profile)
    env = dict(os.environ)
    if env_extra:
        env.update(env_extra)
    # Contain runaway allocations of the code under test.
    pre = f"ulimit -v {mem_gb * 1024 * 1024}; exec "
    cmd = pre + " ".join(_q(a) for a in [exe] + [str(a) for a in args])
    try:
        p = subprocess.run(["bash", "-c", cmd], capture_output=True, text=True, timeout=timeout, env=env)
    except subprocess.TimeoutExpired:
        raise ToolError(f"harness timed out: {args[:3]}")
    if check and p.returncode != 0:
        sys.stderr.write(p.stderr[-4000:])
        raise ToolError(f"harness failed ({p.returncode}): {args[:3]}")
    return p


def _q(s):
    return "'" + str(s).replace("'", "'\\''") + "'"


class TlcResult:
    def __init__(self):
        self.rc = None
        self.out = ""
        self.generated = 0
        self.distinct = 0
        self.depth = 0
        self.ok = False
        self.violated = None  # name of violated invariant/property
        self.error_lines = []
        self.printed = []  # tuples printed with PrintT(<<"TAG", ...>>)
        self.wall = 0.0
        self.coverage = {}


def run_tlc(module, cfg=None, workers=4, simulate=None, depth=None, env=None, timeout=3600,
            heap="4g", deque=False, name=None, coverage=False, extra=None, keep_out=False):
    """Runs TLC on spec/<module>.tla with spec/<cfg>. Returns a TlcResult."""
    name = name or module
    md = workdir("tlc-" + name)
    cfg = cfg or (module + ".cfg")
    jopts = f"-Xss1g -Xmx{heap}"
    if deque:
        jopts += " -Dtlc2.tool.queue.IStateQueue=StateDeque"
    e = dict(os.environ)
    e["JAVA_TOOL_OPTIONS"] = jopts
    if env:
        e.update({k: str(v) for k, v in env.items()})
    cmd = ["tlc", "-workers", str(workers), "-metadir", md, "-cleanup", "-noGenerateSpecTE",
           "-config", os.path.join(SPEC, cfg)]
    if simulate:
        cmd += ["-simulate", f"num={simulate}"]
    if depth:
        cmd += ["-depth", str(depth)]
    if coverage:
        cmd += ["-coverage", "1"]
    if extra:
        cmd += extra
    cmd.append(os.path.join(SPEC, module + ".tla"))
    outp = os.path.join(md, "tlc.out")
    t0 = time.time()
    with open(outp, "w") as fh:
        try:
            p = subprocess.run(cmd, cwd=md, env=e, stdout=fh, stderr=subprocess.STDOUT, timeout=timeout)
            rc = p.returncode
        except subprocess.TimeoutExpired:
            rc = -9
    r = TlcResult()
    r.rc = rc
    r.wall = time.time() - t0
    r.out_path = outp
    with open(outp, errors="replace") as fh:
        text = fh.read()
    r.out = text if (keep_out or len(text) < 4_000_000) else text[-200000:]
    m = re.findall(r"(\d+) states generated, (\d+) distinct states found", text)
    if m:
        r.generated, r.distinct = int(m[-1][0]), int(m[-1][1])
    m = re.search(r"depth of the complete state graph search is (\d+)", text)
    if m:
        r.depth = int(m.group(1))
    m = re.search(r"Invariant (\S+) is violated", text)
    if m:
        r.violated = m.group(1)
    m2 = re.search(r"Action property (\S+) is violated|Temporal properties were violated|property (\S+) is violated", text)
    if m2 and not r.violated:
        r.violated = m2.group(1) or m2.group(2) or "temporal"
    r.ok = (rc == 0) and ("No error has been found" in text or "Finished computing" in text or simulate is not None)
    r.error_lines = [l for l in text.splitlines() if l.startswith("Error:") or "Exception" in l][:20]
    if coverage:
        for mm in re.finditer(r"<(\w+) line \d+, col \d+ to line \d+, col \d+ of module (\w+)>: (\d+):(\d+)", text):
            r.coverage[mm.group(2) + "!" + mm.group(1)] = (int(mm.group(3)), int(mm.group(4)))
    return r


def printed(path_or_text, tag, is_path=True):
    """Yields the JSON payloads TLC printed as <<"TAG", "<json>">> lines."""
    prefix = f'<<"{tag}", '
    fh = open(path_or_text, errors="replace") if is_path else path_or_text.splitlines()
    try:
        for line in fh:
            if line.startswith(prefix):
                body = line.rstrip("\n")
                body = body[len(prefix):]
                if body.endswith(">>"):
                    body = body[:-2].rstrip()
                try:
                    inner = json.loads(body)  # TLA string escapes are JSON-compatible
                    yield json.loads(inner) if isinstance(inner, str) else inner
                except Exception:
                    continue
    finally:
        if is_path:
            fh.close()


def tlc_must_pass(r, what):
    if r.violated:
        raise ToolError(f"{what}: the specification itself violates {r.violated} (see {r.out_path})")
    if not r.ok:
        raise ToolError(f"{what}: TLC failed rc={r.rc}: {r.error_lines[:3]} (see {r.out_path})")


# ----------------------------------------------------------------------------------------------
# Trace validation
# ----------------------------------------------------------------------------------------------

class TraceVerdict:
    def __init__(self):
        self.accepted = False
        self.records = 0
        self.matched = 0
        self.first_unmatched = None  # the first record TLC could not explain (dict)
        self.invariant = None        # named invariant violated, if any
        self.viol = []               # [{at (1-based record), inv [names], record}] reported by the acceptor
        self.tlc = None


def validate_trace(module, trace_path, cfg=None, env=None, timeout=3600, heap="4g", name=None):
    """Runs a *Trace.tla acceptor on an NDJSON trace.
    Convention: the acceptor consumes exactly one record per step, its POSTCONDITION prints
    <<"TRACE", "<json {matched, records}>">> and fails when matched < records."""
    nrec = sum(1 for _ in open(trace_path))
    e = {"TRACE": trace_path}
    if env:
        e.update(env)
    r = run_tlc(module, cfg=cfg, workers=1, env=e, timeout=timeout, heap=heap, deque=True,
                name=name or module)
    v = TraceVerdict()
    v.tlc = r
    v.records = nrec
    stats = list(printed(r.out_path, "TRACE"))
    if r.violated and r.violated != "temporal":
        v.invariant = r.violated
    if stats:
        v.matched = int(stats[-1].get("matched", 0))
        v.viol = stats[-1].get("viol", []) or []
    else:
        m = re.search(r"depth of the complete state graph search is (\d+)", r.out)
        v.matched = (int(m.group(1)) - 1) if m else 0
    if r.rc == -9:
        raise ToolError(f"trace validation timed out on {trace_path}")
    if not stats and not v.invariant and r.rc != 0 and not re.search(r"depth of the complete", r.out):
        raise ToolError(f"trace validation failed to run: rc={r.rc} {r.error_lines[:3]} (see {r.out_path})")
    v.accepted = (v.invariant is None) and v.matched >= nrec and r.rc == 0 and not v.viol
    if v.viol:
        want = {int(x["at"]) - 1: x for x in v.viol}
        with open(trace_path) as fh:
            for i, line in enumerate(fh):
                if i in want:
                    try:
                        want[i]["record"] = json.loads(line)
                    except Exception:
                        want[i]["record"] = {"raw": line[:500]}
    if v.matched < nrec and r.rc != 0 and not v.viol and not stats:
        pass
    if not v.accepted and v.matched < nrec:
        idx = v.matched  # 0-based index of first unmatched record
        with open(trace_path) as fh:
            for i, line in enumerate(fh):
                if i == idx:
                    try:
                        v.first_unmatched = json.loads(line)
                    except Exception:
                        v.first_unmatched = {"raw": line}
                    v.first_unmatched["_index"] = i
                    break
    return v


# ----------------------------------------------------------------------------------------------
# Known findings, violations, evidence
# ----------------------------------------------------------------------------------------------

def load_known():
    p = os.path.join(VERIF, "known_findings.json")
    if not os.path.exists(p):
        return []
    return json.load(open(p)).get("findings", [])


class Verdict:
    """Collects violations of one property during a check run."""

    def __init__(self, prop, tier, seed):
        self.prop = prop
        self.tier = tier
        self.seed = seed
        self.t0 = time.time()
        self.violations = []   # (signature, description, replay dict)
        self.known_hits = {}   # finding id -> description
        self.known = [k for k in load_known() if k["property"] == prop and k.get("status") == "finding"]
        self.notes = []

    def violation(self, sig, what, replay):
        """sig: a string identifying the *shape* of the failure; matched against known findings."""
        for k in self.known:
            pats = k.get("signatures", [])
            if any(re.fullmatch(p, sig) for p in pats):
                self.known_hits.setdefault(k["id"], k["what"])
                return False
        self.violations.append((sig, what, replay))
        return True

    def finish(self, level, coverage, assumptions=None):
        os.makedirs(EVIDENCE, exist_ok=True)
        os.makedirs(REPLAYS, exist_ok=True)
        for kid, what in sorted(self.known_hits.items()):
            print(f"KNOWN-FINDING: property={self.prop} {kid}: {what}")
        seen = set()
        for sig, what, replay in self.violations:
            if sig in seen:
                continue
            seen.add(sig)
            h = hashlib.sha1((sig + json.dumps(replay, sort_keys=True, default=str)).encode()).hexdigest()[:10]
            path = os.path.join(REPLAYS, f"{self.prop}-{h}.json")
            with open(path, "w") as fh:
                json.dump({"property": self.prop, "signature": sig, "what": what, "tier": self.tier,
                           "seed": self.seed, "replay": replay}, fh, indent=1, default=str)
            print(f"VIOLATION property={self.prop} replay={path}")
            print(f"  {sig}: {what}")
        ev = {
            "property_id": self.prop,
            "tier": self.tier,
            "seed": self.seed,
            "level": level,
            "coverage": coverage,
            "assumptions": assumptions or [],
            "wall_s": round(time.time() - self.t0, 2),
            "violations": len(seen),
            "known_findings_observed": sorted(self.known_hits),
            "notes": self.notes,
        }
        with open(os.path.join(EVIDENCE, f"{self.prop}.json"), "w") as fh:
            json.dump(ev, fh, indent=1, default=str)
        log(f"[{self.prop}] {self.tier}: {len(seen)} violation(s), {len(self.known_hits)} known finding(s), "
            f"{ev['wall_s']}s")
        return 1 if seen else 0


def write_ndjson(path, records):
    with open(path, "w") as fh:
        for r in records:
            fh.write(json.dumps(r) + "\n")


def read_json(path):
    with open(path) as fh:
        return json.load(fh)
