#!/usr/bin/env python3
"""Prints the prompt given to a fresh sub-agent asked to break one property (nothing from /verif leaks)."""
import json, sys
pid = sys.argv[1]
wt = sys.argv[2]
import glob, os
tried = []
for d in sorted(glob.glob(f'/verif/seeded/{pid}-m*')):
    r = os.path.join(d, 'README.agent.md')
    if os.path.exists(r):
        h = next((l for l in open(r) if l.startswith('#')), '').lstrip('# ').strip()
        f = next((l[6:].strip() for l in open(os.path.join(d, 'patch.diff')) if l.startswith('+++ b/')), '')
        tried.append(f'  - {h} ({f})')
TRIED = ('\nEarlier testers already delivered the following changes for this property; yours must break it through DIFFERENT code sites or mechanisms:\n' + '\n'.join(tried) + '\n') if len(sys.argv) > 3 and tried else ''
p = next(json.loads(l) for l in open('/verif/properties.jsonl') if json.loads(l)['id'] == pid)
print(f"""You are testing how well a verification effort can detect regressions in the Rust library smlxl/storage-layout-extractor (it disassembles EVM bytecode, symbolically executes it, runs lifting passes and unification-based type inference, and recovers contract storage layouts).

You have your own scratch git worktree of the repository at {wt} (work ONLY there; never touch /repo or /verif; there is no network; use `cargo ... --offline`). To keep build output contained run cargo with `CARGO_TARGET_DIR={wt}/target`.

Here is a semantic property the library is supposed to satisfy:

  Title: {p['title']}
  Statement: {p['statement']}
  Quantified over: {p['quantifier']['text']}

Your task: produce TWO independent, realistic changes to the library's source (under src/) that each BREAK this property while
  (a) still compiling without new errors,
  (b) still passing the complete existing test suite unchanged (`cargo test --workspace --no-fail-fast --offline`; it takes ~2-4 minutes; do not edit or delete existing tests), and
  (c) looking like a plausible bug a maintainer could introduce (a refactor slip, an off-by-one, a wrong operand order, a dropped guard, an optimisation that is wrong in a corner) - not sabotage such as panicking on a magic constant.
Prefer changes that need something SPECIFIC to manifest - a particular multi-step sequence of operations, an unusual input or boundary constant, a particular configuration, or two cooperating sites that each look fine alone - rather than ones ordinary use would expose at once. The two changes should break the property through different mechanisms / code sites.
{TRIED}
For each change i in {{1,2}} deliver, inside {wt}/mutants/m<i>/:
  - patch.diff : `git diff` of the change against the worktree's HEAD (the patch must apply with `git apply` to a clean checkout of HEAD),
  - a demonstration: either an integration test file (e.g. demo.rs, to be dropped into tests/) or a small example program, that FAILS with the change applied and PASSES without it, using only the crate's public API,
  - README.md : what the change is, why it breaks the property, exactly what is needed for it to manifest, and the exact commands you ran (with outcomes) showing: existing suite passes with the change; demo fails with the change; demo passes without it.
Leave the worktree itself at clean HEAD when done (git checkout -- . ; remove any demo you copied into tests/), keeping only the mutants/ directory (untracked). Remove {wt}/target when you are finished to free disk space.

Report back briefly: for each change, the one-line description, files touched, and what is needed to trigger it. If you could only find one valid change, deliver one and say so.""")
