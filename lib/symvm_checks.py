"""C03 / C08 / C17 — all three are decided by SymVM.tla:

 spec alone  : SymVMMC (the mirror) — every program of <= 4/5 tokens over a 12-token alphabet x L,F in {1,2}
               x {strict, permissive}: the envelope invariants Inv_C03_*, Inv_C08_*, Inv_C17_*, the termination
               variant and "every stuck state is finished" hold in every reachable state.
 spec -> impl: every terminal state of the mirror is replayed on the real VM (result class, number of errors,
               number of stored states, set of executed offsets must agree).
 impl -> spec: generated programs (loops, fork bombs, jump tables, bad jumps of every kind, dead code behind
               halting instructions, stack under/overflow, gas exhaustion) x limits x modes are executed by the
               real VM with hooks on, and SymVMTrace.tla evaluates every invariant at every event.
 vacuity     : the mirror with a named deviation (fork-entry-unchecked, jumpi-store-always,
               selfdestruct-continues) must violate the invariants.
"""
import json
import os
import re

import halting
import symvm
import vmstate
from common import (SPEC, WORK, ToolError, Verdict, harness, log, printed, read_json, run_tlc, tlc_must_pass, workdir)


def _mc_cfg(tokens, dev, ls="{1, 2}", fs="{1, 2}", gs="{30000000}"):
    return f"""SPECIFICATION MCSpec
CONSTANTS
  MaxTokens = {tokens}
  Ls = {ls}
  Fs = {fs}
  Gs = {gs}
  Dev = {dev}
INVARIANTS AllInvariants Inv_C03_Variant Inv_C03_Terminates Emit
CHECK_DEADLOCK FALSE
"""


def run_mc(tier, seed):
    key = f"{symvm.tree_hash()}-{tier}"
    cache = os.path.join(WORK, f"symvm-mc-cache-{key}.json")
    if os.path.exists(cache):
        log(f"[symvm] using cached model-checking result {os.path.basename(cache)}")
        return json.load(open(cache))
    wd = workdir("symvm-mc")
    tokens = 5 if tier == "thorough" else 4
    with open(os.path.join(SPEC, "_SymVMMC.cfg"), "w") as fh:
        fh.write(_mc_cfg(tokens, "{}"))
    try:
        r = run_tlc("SymVMMC", cfg="_SymVMMC.cfg", workers=14, timeout=3400, heap="16g", name="SymVMMC")
    finally:
        os.remove(os.path.join(SPEC, "_SymVMMC.cfg"))
    tlc_must_pass(r, "SymVMMC")
    cases = os.path.join(wd, "cases.ndjson")
    n = 0
    sample = None
    with open(cases, "w") as fh:
        for c in printed(r.out_path, "CASE"):
            fh.write(json.dumps(c) + "\n")
            n += 1
            if c.get("states", 0) > 1 and sample is None:
                sample = c
    out = os.path.join(wd, "replay.json")
    harness(["vm-replay", "--cases", cases, "--out", out], timeout=3000)
    rep = read_json(out)
    log(f"[symvm] SymVMMC: {r.distinct} states, {n} terminal cases replayed on the real VM, "
        f"{rep['mismatching']} disagree ({rep['cases_with_forks']} with forks, {rep['cases_with_errors']} failing)")
    # vacuity: each named deviation must be caught by the invariants
    devs = {}
    for dev in ("fork-entry-unchecked", "jumpi-store-always", "selfdestruct-continues"):
        with open(os.path.join(SPEC, "_SymVMMCdev.cfg"), "w") as fh:
            fh.write(_mc_cfg(4, '{"%s"}' % dev))
        try:
            d = run_tlc("SymVMMC", cfg="_SymVMMCdev.cfg", workers=8, timeout=1200, heap="8g", name="SymVMMC-dev")
        finally:
            os.remove(os.path.join(SPEC, "_SymVMMCdev.cfg"))
        devs[dev] = d.violated
        if d.violated != "AllInvariants":
            raise ToolError(f"vacuity self-test: deviation {dev} was not caught by the invariants ({d.violated})")
    log(f"[symvm] deviations caught by the invariants: {sorted(devs)}")
    res = {"states": r.distinct, "transitions": r.generated, "cases": n, "replay": rep, "tokens": tokens,
           "sample": sample, "deviations_caught": sorted(devs)}
    with open(cache, "w") as fh:
        json.dump(res, fh)
    return res


def run(prop, tier, seed):
    v = Verdict(prop, tier, seed)
    mc = run_mc(tier, seed)
    # Disagreements between the mirror and the code are not violations by themselves (the mirror follows
    # today's implementation); the disagreeing programs are pushed through the envelope, which decides.
    extra = [{"hex": m["hex"], "family": "mirror-disagreement", "L": m["L"], "F": m["F"], "G": m["G"], "perm": m["perm"]}
             for m in mc["replay"]["mismatches"]]
    res = symvm.run_pipeline(tier, seed, extra_programs=extra or None)
    mine = symvm.report(prop, v, res)
    if extra and not res["viol"]:
        v.notes.append(f"SPEC-DRIFT: {len(extra)} programs behave differently from the mirror model but satisfy "
                       f"every envelope invariant, e.g. {extra[0]}")
        log(f"SPEC-DRIFT: the code deviates from the mirror (SymVMMC) on {mc['replay']['mismatching']} cases without "
            f"violating a property")
    cfgres = None
    if prop == "C08":
        import cfgmodel
        cfgres = cfgmodel.run(tier, seed)
        cfgmodel.report(prop, v, cfgres)
    halt = halting.run(v, tier, seed) if prop == "C03" else None
    stack = None
    if prop == "C17":
        stack = vmstate.run(tier, seed)
        vmstate.report(prop, v, stack)
    st = res["stats"]
    log(f"[{prop}] SymVMTrace: {res['records']} records, {len(res['viol'])} invariant failures ({len(mine)} for {prop})")
    cov = {
        "states": mc["states"] + res["states"],
        "transitions": mc["transitions"] + res["transitions"],
        "traces_validated_against_impl": res["info"]["runs"] if not res["viol"] else res["info"]["runs"] - len(res["viol"]),
        "model_cases_replayed_into_impl": mc["cases"],
        "model_cases_disagreeing": mc["replay"]["mismatching"],
        "deviations_caught_by_invariants": mc["deviations_caught"],
        "trace_event_counts": st,
        "families": res["info"]["families"],
        "mode_pairs": res["info"]["mode_pairs"],
        "exhaustive": False,
        "rule": f"model: every program of <= {mc['tokens']} tokens over 12 tokens x L,F in {{1,2}} x 2 modes; traces: "
                f"{res['info']['runs']} runs of generated programs (blocks with legal/illegal jumps of 11 kinds, loops of 8 "
                "kinds, error programs of 9 kinds, gas programs) under limits L in 1..12, F in 1..60, G in 150..30M, both modes",
        "samples": [mc["sample"], {"violations": [symvm.classify(x) for x in res["viol"]][:5]}],
    }
    if cfgres:
        cov["cfg_model"] = {k: cfgres[k] for k in ("programs", "exact", "families")}
        cov["states"] += cfgres["states"]
        cov["rule"] += "; executed offsets of generated programs against Cfg!MayReach (CfgTrace.tla)"
    if stack:
        cov["operand_stack_model"] = vmstate.coverage(stack)
        cov["states"] += stack["states"]
        cov["rule"] += "; operand stack: StackMC (all histories of <= 6 calls, capacity 3) and random histories on the real Stack validated by StackTrace.tla"
    if halt:
        cov["whole_analysis_halting"] = halt
        cov["states"] += halt["states"]
        cov["rule"] += ("; whole analysis: one analyze() per (cyclic-type / cyclic-dataflow / control-flow / idiom program, random "
                        "configuration) in a child process under a poll budget of 2M and a 90 s bound per case")
    return v.finish("model_checking", cov,
                    ["TLC + community modules", "hooks report what happened (cross-checked by the hook-free 'finish' "
                     "observation: stored states, max visit count, executed offsets)",
                     "the jump operand reported by the JumpOperand hook is the value the instruction found (C07/C09 cover its correctness)"])
