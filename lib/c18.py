"""C18 — symbolic values stay within the size limit and report their true size.

 impl -> spec: programs that grow values (loops that square, add, hash, shift-or a running value; idiom contracts;
               control-flow programs) run on the real VM under value-size limits from 1 to 1000; every node of every
               value the VM produced - of its constant-folded form, of the form the type checker's lifting passes
               leave it in, and of that form folded - is measured (recorded size() vs. nodes
               actually contained), and ValueTrace.tla checks Inv_C18_Accounting (recorded = contained, everywhere) and
               Inv_C18_Limit (instruction results have at most `limit` nodes).
"""
import json
import os

from common import (ToolError, Verdict, harness, log, printed, validate_trace, workdir)

PROP = "C18"


def run(tier, seed):
    v = Verdict(PROP, tier, seed)
    wd = workdir("c18")
    n = 4000 if tier == "thorough" else 400
    tp = os.path.join(wd, "sizes.ndjson")
    p = harness(["sizes-trace", "--seed", seed, "--programs", n, "--out", tp], timeout=3000)
    info = json.loads(p.stdout.strip().splitlines()[-1])
    tv = validate_trace("ValueTrace", tp, timeout=3000)
    if tv.matched < tv.records:
        raise ToolError(f"ValueTrace could not consume record {tv.matched + 1}: {str(tv.first_unmatched)[:300]}")
    for x in tv.viol:
        rec = x.get("record", {})
        for inv in x["inv"]:
            bad_pairs = [p for p in rec.get("pairs", []) if p[0] != p[1]][:5]
            over = [t for t in rec.get("tops", []) if t["count"] > rec.get("limit", 0)][:5]
            v.violation(inv, f"{inv} on program {rec.get('hex', '')[:120]} with limit {rec.get('limit')}: "
                             f"(recorded, contained) {bad_pairs}; over the limit {over}",
                        {"kind": "program", "hex": rec.get("hex"), "limit": rec.get("limit")})
    with open(tp) as fh:
        fh.readline()
        s = json.loads(fh.readline())
    log(f"[C18] {info['programs']} programs, {info['values']} values, {info['opaque_leaves_seen']} opaque leaves seen")
    cov = {"evaluations": info["programs"], "distinct_nontrivial": info["programs"],
           "rule": "one run per (generated program, value-size limit in {1,2,3,5,8,16,20,50,64,100,250,251,1000}); "
                   "non-trivial: every program executes and produces values; all nodes of all values are measured, as produced, folded, lifted and lifted-then-folded",
           "values_measured": info["values"], "lifted_values_measured": info.get("lifted_values", 0), "opaque_leaves_seen": info["opaque_leaves_seen"],
           "states": tv.tlc.distinct, "transitions": tv.tlc.generated, "traces_validated_against_impl": info["programs"],
           "samples": [{k: s[k] for k in ("hex", "limit", "values")}]}
    return v.finish("model_checking", cov, ["TLC", "sizes are read through size() and children() of the public value API"])


def replay(path, seed):
    print(open(path).read()[:2000])
    return run("quick", seed)
