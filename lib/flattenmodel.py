"""From the resolved type of a slot to its layout entries (TypeChecker::unify, abi_type_for_impl) against Flatten.tla.

 spec -> impl: FlattenGen (TLC) enumerates resolved slot types as trees of depth <= 2 over a word of 6 (quick) / 8
               (thorough) units of 32 bits: packed encodings of <= 2 spans, each span a word or a packed encoding of
               its own, with holes below, between and above the fields.  The harness states each tree as typing
               judgements about a constant slot and runs the real unifier and layout builder.
 impl -> spec: FlattenTrace.tla judges the entries:
                 Inv_C12_InSlot/flatten, Inv_C12_Sorted/flatten   -> C12
                 Inv_C04_Expected/flatten   a leaf without an entry of its width at the sum of the offsets on its way -> C04
                 Inv_C01_Total/flatten      the conversion failed on a well-formed type                              -> C01
"""
import json
import os

import symvm
from common import WORK, ToolError, harness, log, printed, run_tlc, validate_trace, workdir


def run(tier, seed):
    key = f"{symvm.tree_hash()}-{tier}"
    cache = os.path.join(WORK, f"flatten-cache-{key}.json")
    if os.path.exists(cache):
        return json.load(open(cache))
    wd = workdir("packed")
    r = run_tlc("FlattenGen", cfg="FlattenGenFull.cfg" if tier == "thorough" else "FlattenGen.cfg", workers=1, timeout=1200)
    if r.rc != 0:
        raise ToolError(f"FlattenGen failed: {r.error_lines[:3]}")
    cases = os.path.join(wd, "cases.ndjson")
    n = 0
    with open(cases, "w") as fh:
        for c in printed(r.out_path, "CASE"):
            fh.write(json.dumps(c) + "\n")
            n += 1
    if n == 0:
        raise ToolError("FlattenGen printed no trees")
    tp = os.path.join(wd, "packed.ndjson")
    p = harness(["flatten-replay", "--cases", cases, "--out", tp], timeout=1200)
    info = json.loads(p.stdout.strip().splitlines()[-1])
    tv = validate_trace("FlattenTrace", tp, timeout=3000)
    if tv.matched < tv.records:
        raise ToolError(f"FlattenTrace could not consume record {tv.matched + 1}: {str(tv.first_unmatched)[:300]}")
    stat = list(printed(tv.tlc.out_path, "TRACE"))[-1].get("cnt", {})
    viol = []
    for x in tv.viol:
        rec = x.get("record", {})
        for inv in x["inv"]:
            if inv.startswith("Harness/"):
                raise ToolError(f"flatten-replay: {inv} on {json.dumps(rec.get('tree'))[:300]}")
        viol.append({"inv": sorted(x["inv"]), "tree": rec.get("tree"), "entries": rec.get("entries"), "res": rec.get("res"), "msg": rec.get("msg")})
    if int(stat.get("nested", 0)) == 0:
        raise ToolError("flatten-replay: no nested tree was converted - the harness does not reach the layout builder")
    res = {"states": r.distinct + tv.tlc.distinct, "transitions": r.generated + tv.tlc.generated, "trees": n,
           "nested_trees": int(stat.get("nested", 0)), "failed": info["failed"], "viol": viol}
    log(f"[flatten] {n} resolved slot types from FlattenGen converted by the real layout builder "
        f"({res['nested_trees']} nested); {len(viol)} rejected by FlattenTrace")
    with open(cache, "w") as fh:
        json.dump(res, fh)
    return res


def coverage(res):
    return {k: res[k] for k in ("trees", "nested_trees", "failed")}


def report(prop, v, res):
    n = 0
    for x in res["viol"]:
        for inv in x["inv"]:
            if inv.startswith("Inv_" + prop):
                v.violation(f"{inv}",
                            f"{inv}: the slot type {json.dumps(x['tree'])[:300]} (spans [offset, size, type]) is laid out as "
                            f"{json.dumps(x['entries'])[:300]} ({x['res']} {str(x.get('msg') or '')[:100]}), which Flatten.tla does not allow",
                            {"kind": "flatten-tree", "tree": x["tree"]})
                n += 1
    return n
