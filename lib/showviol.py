#!/usr/bin/env python3
"""showviol.py <trace.ndjson> <at> [context]: prints records around a 1-based record index and the run's reset."""
import json, sys
path, at = sys.argv[1], int(sys.argv[2])
ctx = int(sys.argv[3]) if len(sys.argv) > 3 else 6
lines = open(path).read().splitlines()
reset = None
for i in range(at - 1, -1, -1):
    r = json.loads(lines[i])
    if r.get("ev") == "reset":
        reset = r; break
if reset:
    print("RESET", {k: reset[k] for k in reset if k != "code"})
for i in range(max(0, at - 1 - ctx), min(len(lines), at + 2)):
    print(("=> " if i == at - 1 else "   ") + str(i + 1), lines[i][:400])
