"""C17 — decided by SymVM.tla: see lib/symvm.py (trace validation) and lib/symvm_mc.py (model checking)."""
import symvm
import symvm_checks

PROP = "C17"


def run(tier, seed):
    return symvm_checks.run(PROP, tier, seed)


def replay(path, seed):
    return symvm.replay_one(PROP, path, seed)
