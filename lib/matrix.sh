#!/bin/bash
# matrix.sh [mutant ids...]: runs each seeded change against the quick check of its property
# (apply to /repo, check, undo) and records the outcome in seeded/<id>/check.txt
cd /verif
IDS="$@"; [ -z "$IDS" ] && IDS=$(ls seeded | grep -E '^C[0-9]+-m[0-9]+$')
for m in $IDS; do
  P=${m%%-*}
  T0=$(date +%s)
  OUT=$(lib/try_mutant.sh /verif/seeded/$m/patch.diff $P --tier quick 2>&1)
  RC=$(echo "$OUT" | grep -oE "check exit=[0-9]+" | cut -d= -f2)
  T1=$(date +%s)
  { echo "head=$(git -C /repo rev-parse --short HEAD) verif=$(git -C /verif rev-parse --short HEAD) check=$P tier=quick exit=$RC wall=$((T1-T0))s";
    echo "$OUT" | grep -E "VIOLATION|KNOWN-FINDING|^  Inv|not clean|does not apply|ToolError|tool error" | cut -c1-500 | head -8; } > seeded/$m/check.txt
  echo "$m exit=$RC $((T1-T0))s"
  git -C /repo checkout -q -- . 2>/dev/null
done
echo MATRIX-DONE
