#!/bin/bash
# dev_mutants.sh <Cxx> <worktree> [check ids...]: for every <worktree>/mutants/m*:
#   1. moves the worktree to /repo's HEAD and confirms the change there (confirm_mutant.sh: the suite passes with it,
#      the demonstration fails with it and passes without it),
#   2. applies the patch in the worktree and runs the quick check(s) against that worktree in development mode
#      (SLE_VERIF_DEV: a copy of the harness whose path dependency is the worktree) - /repo itself is never touched,
#      so several of these can run side by side,
#   3. writes <mutant>/confirm.txt and <mutant>/check.txt.
# The registered commands never use development mode; the final word on a kept change is lib/matrix.sh on /repo.
P=$1; WT=$2; shift 2; CHECKS="${@:-$P}"
HEAD=$(git -C /repo rev-parse HEAD)
git -C "$WT" checkout -q -- . ; git -C "$WT" checkout -q --detach "$HEAD" || exit 2
DEV=/tmp/dev/$P; rm -rf "$DEV"; mkdir -p "$DEV"
rsync -a --exclude target /verif/harness "$DEV/"
rsync -a /verif/spec "$DEV/"   # checks write scratch cfgs next to the specs: every run gets its own copy
sed -i "s|path = \"/repo\"|path = \"$WT\"|" "$DEV/harness/Cargo.toml"
for M in "$WT"/mutants/m*; do
  [ -f "$M/patch.diff" ] || continue
  [ -n "${ONLY:-}" ] && [ "$(basename $M)" != "$ONLY" ] && continue
  [ -n "${SKIP_CONFIRM:-}" ] || /verif/lib/confirm_mutant.sh "$WT" "$M" > "$M/confirm.txt" 2>&1
  echo "$(basename $M) confirm: $(tail -1 $M/confirm.txt)"
  git -C "$WT" checkout -q -- . ; rm -f "$WT/tests/zz_demo.rs"
  git -C "$WT" apply "$M/patch.diff" || { echo "apply failed" > "$M/check.txt"; continue; }
  : > "$M/check.txt"
  for C in $CHECKS; do
    T0=$(date +%s)
    OUT=$(cd /verif && SLE_VERIF_DEV=$DEV SLE_VERIF_DEV_REPO=$WT ./check $C --tier quick 2>&1); RC=$?
    T1=$(date +%s)
    { echo "dev head=${HEAD:0:7} verif=$(git -C /verif rev-parse --short HEAD) check=$C tier=quick exit=$RC wall=$((T1-T0))s";
      echo "$OUT" | grep -E "VIOLATION|^  Inv|ToolError|tool error|rror:" | cut -c1-400 | head -8; } >> "$M/check.txt"
    echo "$(basename $M) check $C exit=$RC $((T1-T0))s"
  done
  git -C "$WT" checkout -q -- .
done
rm -rf "$DEV" "$WT/target"
echo DEV-DONE $P
