"""C03, the half after execution: "lifting, inference and unification then finish on whatever values execution
produced".  Every (program, configuration) is analysed in a child process under a watchdog that never asks to
stop but counts polls (poll interval 1); PipelineTrace.tla judges each recorded run (Inv_C03_AnalysisHalts: a
terminal state of the typestate was reached within the poll budget).  A child that dies (unbounded recursion
overflows the native stack) or sits on one case for more than the time bound has not halted: violation attributed
to the case in flight, and the run resumes after it.

Programs: crafted cyclic-type programs, cyclic dataflow programs (storage locations feeding each other through
whole words, sub-words and shifts over 1-3 base slots used as word, dynamic array and mapping at once),
control-flow programs, idiom contracts; each under a random valid configuration.
"""
import json
import os

from c01 import _child
from common import ToolError, build_harness, log, printed, validate_trace, workdir


def run(v, tier, seed):
    wd = workdir("c03-halt")
    exe = build_harness("release")
    progress = os.path.join(wd, "progress.json")
    n = 6000 if tier == "thorough" else 1500
    skip, part, traces, crashes, info = 0, 0, [], [], None
    while True:
        tp = os.path.join(wd, f"halt.{part}.ndjson")
        ok, case, msg = _child(exe, ["halt-run", "--seed", seed, "--programs", n, "--out", tp, "--progress", progress,
                                     "--skip", skip], progress, tp)
        traces.append(tp)
        if ok:
            info = json.loads(msg.strip().splitlines()[-1])
            break
        if case is None:
            raise ToolError(f"the harness child failed before its first case: {msg}")
        crashes.append(case)
        v.violation(f"Inv_C03_AnalysisHalts/{'hang' if 'no result' in msg else 'abort'}:{case.get('family')}",
                    f"the analysis did not finish ({msg}) on input {case.get('hex', '')[:200]} (family {case.get('family')}) "
                    f"under {case.get('cfg')}",
                    {"kind": "bytes+config", "hex": case.get("hex"), "cfg": case.get("cfg")})
        skip = int(case["index"]) + 1
        part += 1
        if part > 40:
            raise ToolError("too many crashes of the harness child; giving up")
    runs = states = 0
    max_polls = 0
    for tp in traces:
        if not os.path.exists(tp) or os.path.getsize(tp) == 0:
            continue
        good = []
        for ln in open(tp).read().splitlines():
            try:
                e = json.loads(ln)
                good.append(ln)
                max_polls = max(max_polls, int(e.get("polls", 0)))
            except Exception:
                break
        if not good:
            continue
        if not good[0].startswith('{"ev":"begin"'):
            good.insert(0, '{"ev":"begin"}')
        with open(tp, "w") as fh:
            fh.write("\n".join(good) + "\n")
        tv = validate_trace("PipelineTrace", tp, name="PipelineTrace-halt", timeout=3000)
        if tv.matched < tv.records:
            raise ToolError(f"PipelineTrace could not consume record {tv.matched + 1} of {tp}: {str(tv.first_unmatched)[:300]}")
        runs += tv.records - 1
        states += tv.tlc.distinct
        for x in tv.viol:
            rec = x.get("record", {})
            for inv in x["inv"]:
                v.violation(f"{inv}:{rec.get('family')}",
                            f"{inv}: analyze() was still running after {rec.get('polls')} polls (budget {rec.get('budget')}, outcome "
                            f"{rec.get('outcome')}) on input {rec.get('hex', '')[:200]} (family {rec.get('family')}) under {rec.get('cfg')}",
                            {"kind": "bytes+config", "hex": rec.get("hex"), "cfg": rec.get("cfg")})
    log(f"[C03] whole-analysis halting: {runs} runs ({info['families'] if info else '?'}), at most {max_polls} polls per run, "
        f"{len(crashes)} process-level failures")
    return {"analysis_runs": runs, "analysis_families": info["families"] if info else {}, "max_polls_per_run": max_polls,
            "process_level_failures": len(crashes), "states": states}
