"""What MANIFEST.json claims, per property (consumed by gen_manifest.py)."""

NOT_APPLICABLE = {}

CHECKS = {
    "C19": dict(
        category="model_checking",
        text="TLC builds the complete depth-bounded state graph of the abstract partition-with-bags model "
             "(DisjointSet.tla) and the finite-map model (VectorMap.tla) over a 4-element universe; every operation "
             "sequence up to length 4/5 (quick) or 5/6-canonical/7 (thorough) is replayed through the real DisjointSet "
             "(counting monoid and the production HashSet monoid) and VectorMap, comparing each call's result and the "
             "projected state at every step; random 400-operation histories over 64 elements are accepted by the TLA+ "
             "trace specifications.",
        note="Exhaustive to the stated depth over 4 elements and 2 data atoms; sampled beyond. Trusted: TLC, the "
             "projection through the public API (values/find/get_data on a clone; iter/len/get).",
        technique="TLA+ model; TLC state graph replayed path-by-path into the real structure; TLC trace validation "
                  "of recorded histories",
        ref="DESIGN.md §4 C19"),
    "C10": dict(
        category="model_checking",
        text="Disasm.tla specifies the disassembler as a streaming state machine (ReadOp/ReadImm/EndComplete/"
             "EndTruncated); TLC checks one-entry-per-byte, losslessness, immediates-are-not-instructions and existence "
             "of an accepting end for every byte string up to length 5/6 over a class alphabet, and every terminal "
             "state is replayed into the real disassembler; observations of the real disassembler on all 1-byte "
             "strings, (all) 2-byte strings, every opcode x truncation, PUSHes of JUMPDESTs, random strings up to "
             "24 KiB and truncated real contracts are validated by DisasmTrace.tla with the named invariants "
             "Inv_C10_Total/OnePerByte/RoundTrip/Classes.",
        note="Opcodes.tla is written from the Shanghai table, not from the tool; entries are observed through "
             "ExecutionThread::instruction + downcasts. Exhaustive for lengths 1-2 in the thorough tier.",
        technique="TLA+ state machine model-checked by TLC; terminal states replayed into the code; TLC trace "
                  "validation of recorded observations",
        ref="DESIGN.md §4 C10"),
    "C03": dict(
        category="model_checking",
        text="SymVM.tla specifies VM::execute as a scheduler of threads with one action per critical section "
             "(Operand, Fork, StoreErr, Exec, Advance, Finish) and states the bounds as invariants over the code bytes "
             "and limits: Inv_C03_Visits (<= L executions per instruction per thread, inherited on fork), Inv_C03_Forks, "
             "Inv_C03_Threads (<= 1 + F x |JUMPDEST|), Inv_C03_Gas (no step beyond the gas limit; gas accumulated and "
             "inherited), Inv_C03_Halts, plus the termination variant. TLC checks them on the mirror model for every "
             "program of <= 4/5 tokens x small limits, replays every terminal state on the real VM, and validates "
             "recorded executions of generated programs (loops, nested loops, self-jumps, jump tables, stack-growing "
             "loops, fork bombs, read-mask-write loops, spaghetti control flow, loops re-entered from elsewhere) under L 1..12, F 1..60, G 150..30M event by event.",
        note="The half after execution (lifting, inference, unification finish) is decided by whole-analysis runs in a "
             "child process under a poll budget and a time bound, judged by PipelineTrace.tla (Inv_C03_AnalysisHalts) on "
             "crafted cyclic-type, cyclic-dataflow, control-flow and idiom programs. Trusted: TLC, the hooks (cross-checked "
             "against the public-API observation of stored states).",
        technique="TLA+ scheduler model; TLC model checking of the mirror; replay of TLC behaviours on the VM; TLC trace "
                  "validation of hook-recorded executions",
        ref="DESIGN.md §4 C03"),
    "C08": dict(
        category="model_checking",
        text="Same specification as C03: Inv_C08_Edge (the pointer moves only by fall-through or by a JUMP/JUMPI whose "
             "full 256-bit operand is the offset of a JUMPDEST at an instruction boundary per Disasm), Inv_C08_Halt "
             "(nothing executes after STOP/RETURN/REVERT/SELFDESTRUCT/INVALID/unassigned bytes, errors, unresolved "
             "jumps), Inv_C08_Both (a JUMPI with a valid target forks unless a limit forbids it, a JUMPI with a bad "
             "target still falls through, a path is only abandoned for a reason the limits give). Checked on the mirror "
             "for all small programs, replayed (executed-offset sets must agree), and on recorded executions of "
             "programs with 11 kinds of legal/illegal constant and computed targets and dead code behind halts. Cfg.tla computes, from the code bytes alone, an over-approximation of the offsets the EVM can reach; CfgTrace.tla checks that every offset the real VM executed on generated programs lies in it (Inv_C08_Edge/cfg) and, for far-jump programs with constant targets, that nothing reachable is left out (Inv_C08_Both/cfg). SymVM.tla also tracks the constants the code itself computes for jump targets (AbsStep: PUSH, PC, CODESIZE, DUP/SWAP/POP, ADD/SUB/MUL), so that the operand a jump finds is compared with what the code computes (computed-target programs: PC-relative, jump tables, from CODESIZE).",
        note="The operand value is the constant the instruction found (JumpOperand hook); its correctness as a "
             "denotation is C07/C09's business.",
        technique="TLA+ scheduler model; TLC model checking; replay; TLC trace validation",
        ref="DESIGN.md §4 C08"),
    "C17": dict(
        category="model_checking",
        text="Same specification: Inv_C17_Demand (stack under/overflow computed from the spec's own depth tracking, bad "
             "constant jump targets and gas exhaustion must raise), Inv_C17_Policy (strict records every raised error; "
             "permissive never records a bad jump target - JUMP or JUMPI - and still records everything else), "
             "Inv_C17_Located, Inv_C17_Finish (execute() fails iff something was recorded and lists exactly that; "
             "strict Ok implies permissive Ok with the same layout, two-run record). Bad jumps are classified by the "
             "specification from the code bytes and operand, not by the tool's error variant.",
        note="Both modes x every error source are enumerated by the mirror for small programs and sampled by generated "
             "programs (9 error families incl. overflow through each pushing opcode class). The operand stack is specified on "
             "its own (Stack.tla): StackMC checks all histories of <= 6 calls over capacity 3, and random call histories on the "
             "real Stack near both edges (empty, 1024) are validated by StackTrace.tla (Inv_C17_Demand/stack-model).",
        technique="TLA+ scheduler model; TLC model checking; replay; TLC trace validation",
        ref="DESIGN.md §4 C17"),
    "C13": dict(
        category="fault_enumeration",
        text="Watchdog.tla specifies the poll discipline (Begin/Iter/Poll/End) with the invariants Inv_C13_Rate (never "
             "more than I iterations of a polled loop without a poll; every poll inside a known polled loop), "
             "Inv_C13_Latency (a stop answered to the main loop or a type-checker loop ends the analysis at once; a stop "
             "answered to a copy loop is followed by at most I main-loop iterations, at most I+1 polls and no later "
             "stage), Inv_C13_Stop (stopped-by-watchdog error, never a layout), Inv_C13_Same (a watchdog that never stops "
             "does not change the result). TLC checks them on the mirror of the implementation's counters for all small "
             "loop sizes x intervals x stop points; on the real pipeline one run per (program, interval, poll index k) is "
             "recorded with the LoopIter hooks and a scripted watchdog and every run is validated by WatchdogTrace.tla.",
        note="Exhaustive over k up to 120 (quick) / 700 (thorough) polls per (program, interval), stratified beyond; "
             "programs whose unmonitored result is itself unstable (C02) are excluded from the 'same result' demand.",
        technique="TLA+ poll-discipline model checked by TLC; fault enumeration over every poll index on the real "
                  "pipeline with TLC trace validation of the recorded LoopIter/poll events",
        ref="DESIGN.md §4 C13"),
    "C16": dict(
        category="model_checking",
        text="TypeLattice.tla defines the evidence domain, the pairwise Merge (written from the merge table), the "
             "normalisation the statement allows (conflict payloads dropped, least representative under emitted "
             "equalities) and the laws; TLC evaluates commutativity on all 1600 ordered pairs and associativity on all "
             "64000 ordered triples of the statement's 40-element domain and classifies every failing triple; the real "
             "merge is evaluated on the same pairs and triples in both groupings and LatticeTrace.tla checks "
             "Inv_C16_Comm / Inv_C16_Assoc on every record and the agreement of every pair with the specification.",
        note="Exhaustive over the stated finite domain in both tiers. Two families of grouping-dependence are genuine "
             "defects of the design and are listed in known_findings.json (FamilyA, FamilyB); anything outside them is a "
             "violation. Packed encodings are outside this domain.",
        technique="TLA+ lattice specification evaluated exhaustively by TLC; TLC trace validation of the real merge table",
        ref="DESIGN.md §4 C16"),
    "C14": dict(
        category="model_checking",
        text="Unify.tla specifies the unifier as Seed + Round over an abstract forest (partition with one evidence set per "
             "class) using TypeLattice!Merge, with the iteration order of each evidence set as a parameter. UnifyMC "
             "explores, as a powerset construction, every configuration reachable under every order for all judgement "
             "sets of <= 3/4 judgements over 3 variables and checks termination, Inv_C14_One, Inv_C14_Eq (declared "
             "equalities, transitively) and Inv_C14_Components (component equalities demanded inside clean classes of the "
             "full congruence closure). Every set is replayed on the real unifier (outcome must be the model's), and "
             "random sets of up to 40 variables with packed spans, cyclic evidence (self-referential spans, cycles through several packed "
             "encodings), deep chains of nested constructors are validated by UnifyTrace.tla; every variable of the state, including "
             "those the unifier allocated, must be known to the resulting forest. The combination of two packed encodings is specified on its own (PackedMerge.tla: the common refinement of two span partitions; every input span's variable is tied to exactly the refined spans within it, re-based to its start): PackedGen enumerates every pair of encodings of <= 2 spans (quick) or <= 3 spans (thorough) over 6 units, the real merge combines each, and PackedTrace.tla checks Inv_C14_Components/packed-merge.",
        note="""Packed encodings are outside the model's alphabet: for judgement sets that contain them only the order-independent post-conditions (termination, one expression, declared equalities, determinism) are evaluated.""",
        technique="TLA+ unifier model (powerset construction over fold orders) checked by TLC; replay into the real "
                  "unifier; TLC trace validation of projected forests",
        ref="DESIGN.md §4 C14"),
    "C15": dict(
        category="model_checking",
        text="TypeLattice.tla gives the specificity order, Contradictory and the join (fold of Merge, shown order-"
             "independent on clean evidence by Inv_CleanConfluent); Unify.tla states Inv_C15_Join (a clean class "
             "resolves to its join, never a conflict; words exactly) and Inv_C15_Conflict (a class that declared "
             "equalities make plainly contradictory resolves to a conflict). Checked by TLC on all small judgement sets, "
             "replayed on the real unifier, and validated on random sets including sets generated from a hidden ground-"
             "truth typing by weakening, with and without one injected contradiction.",
        note="""Packed encodings are outside the model's alphabet: for judgement sets that contain them only the order-independent post-conditions (termination, one expression, declared equalities, determinism) are evaluated.""",
        technique="TLA+ lattice + unifier model checked by TLC; replay; TLC trace validation",
        ref="DESIGN.md §4 C15"),
    "C02": dict(
        category="model_checking",
        text="Inv_C02_Confluent on Unify.tla: the set of configurations reachable under any iteration order collapses to "
             "one outcome for every enumerated judgement set in the design as implemented (canonical fold order), while "
             "the deviation HashOrder is shown by TLC to be order-dependent. On the real code, every enumerated set is "
             "unified 4-6 times and every generated / real contract is analysed 3-10 times in one process (fresh hash "
             "seeds per HashMap/HashSet instance, shuffled insertion order); UnifyTrace.tla checks Inv_C02_Deterministic "
             "(one distinct result: class and layout incl. order) on every record.",
        note="Iteration orders are explored naturally (fresh RandomState keys per collection instance) rather than through "
             "a permutation hook; the model quantifies over all orders of the unifier's fold, which is the order-sensitive "
             "step. Other collections (value collection, rule set) are covered only by the repeated whole-pipeline runs.",
        technique="TLA+ unifier model with nondeterministic fold order (confluence as a state predicate); TLC trace "
                  "validation of repeated runs of the real code",
        ref="DESIGN.md §4 C02"),
    "C04": dict(
        category="model_checking",
        text="Idioms.tla specifies ground-truth contracts (variables of kind word / address-masked word / mapping of depth "
             "1-4 with address or word keys / dynamic array / packed word of 2-6 byte-aligned fields, at arbitrary slots, "
             "read, written or both from separate dispatch branches; packed writes through SHL or MUL by 2^k; slots of every magnitude "
             "incl. string-named ones) and Expected(v, layout): an entry at the right slot "
             "whose kind matches - mapping of exactly the right depth with 20-byte keys/values where masked, dynamic "
             "array, packed entries at the right bit offsets with the right widths. IdiomsGen (TLC) enumerates every "
             "single variable over the grid and pairs at distinct slots; the harness assembles each description, the real "
             "pipeline analyses it and LayoutTrace.tla evaluates Inv_C04_Expected; random contracts of 1-12 variables "
             "extend the enumeration. The word-level lifting passes are also judged term by term (Lift.tla: bit provenance of 666/2900 terms enumerated by LiftGen - field reads moved down four ways and masked, packed writes of 1-3 fields, read-modify-write chains): Inv_C04_Expected/lift-bits, /lift-packed, /lift-packed-update. FlattenTrace.tla checks on every tree FlattenGen enumerates that every leaf of the resolved type is reported at its offset with its width (Inv_C04_Expected/flatten).",
        note="Expected is deliberately weaker than type equality (kind, depth, offsets, widths, 20-byte-ness). One "
             "genuine shortfall is a known finding (fields of a packed variable that are only ever written, through a left shift).",
        technique="TLA+ generator model enumerated by TLC and replayed into the real pipeline; TLC trace validation of the layouts",
        ref="DESIGN.md §4 C04"),
    "C05": dict(
        category="model_checking",
        text="SlotFlow.tla: Inv_C05_NoPhantom - every slot of a returned layout is attributable to the key term of a storage "
             "access the VM performed (constants in key terms closed under the documented derivations: folding, keccak of "
             "constant data incl. the proxy-string forms, pre-image of keccak(n) for n < 10000, +/- a constant); a program "
             "without storage accesses yields an empty layout. Evaluated by LayoutTrace.tla on every analysed program: "
             "storage-free look-alike hashing (computed and as pushed literals), look-alike hashes used as values, idiom contracts, "
             "mutated real contracts. Cfg.tla decides from the code bytes which storage instructions the EVM can possibly execute: a program none of whose SLOAD/SSTORE bytes is reachable (dead-storage family: after halting instructions, bad constant jumps of six kinds, inside the data of a truncated trailing PUSH) must have an empty layout whatever the tool itself executed (Inv_C05_NoPhantom/dead-storage).",
        note="The derivation closure is computed by the harness from ExecutionResult::all_values(). Known finding: a "
             "look-alike hash inside the VALUE operand of a store.",
        technique="TLA+ monitor specification; TLC trace validation of recorded key terms and layouts",
        ref="DESIGN.md §4 C05"),
    "C06": dict(
        category="model_checking",
        text="SlotFlow.tla: Inv_C06_NoMissed - every literal-constant key of an executed SLOAD/SSTORE/unwritten read (other "
             "than keccak(n), n < 10000) on any explored path has an entry at exactly that 256-bit index when the analysis "
             "succeeds; checked by LayoutTrace.tla on programs with keys of every magnitude (small, >= 2^64, >= 2^128, "
             "2^256-1, EIP-1967) read-only / write-only / mixed, with values up to and just beyond the size limit, behind forks and "
             "before errors, and on all other corpora. Literal keys right next to the hash of a small slot number (keccak(n) +- k) and one SSTORE / SLOAD instruction shared by several call sites with different literal keys are part of the literal-key family.",
        note="Indices are compared as full 64-digit hex words. The storage of a path is also specified on its own (Storage.tla): "
             "random call histories on the real Storage are validated by StorageTrace.tla; a read of a never-written key that the "
             "storage does not remember is Inv_C06_NoMissed/storage-model.",
        technique="TLA+ monitor specification; TLC trace validation",
        ref="DESIGN.md §4 C06"),
    "C11": dict(
        category="exploration",
        text="Two-run relational acceptor in LayoutTrace.tla: Inv_C11_Union (layout(A||B) = layout(A) union layout(B) for "
             "fragments with disjoint slot sets behind a dispatcher, both orders) and Inv_C11_Rename (an injective "
             "renumbering of the slot constants, incl. small -> > 2^128 and changed PUSH width, renumbers the entries and "
             "changes no type or offset; incl. renumberings onto slots congruent modulo 2^64 and onto string-named slots), on generated "
             "idiom fragments under three control-flow shapes (dispatcher, chain of guards, straight-line code).",
        note="The specification contributes the fragment generator (Idioms) and the relational acceptor, not a model of "
             "inference; a hyperproperty over two or three runs.",
        technique="TLA+ relational acceptor over recorded layouts of composed / renumbered generated contracts",
        ref="DESIGN.md §4 C11"),
    "C12": dict(
        category="model_checking",
        text="Layout.tla: Inv_C12_Sorted (entries ordered by 256-bit index compared as byte sequences, then bit offset) and "
             "Inv_C12_InSlot (offset < 256 and offset + width <= 256 when the width is known) evaluated by LayoutTrace.tla "
             "on every successful analysis of every corpus, in particular mask-and-shift programs with shift amounts and "
             "mask positions from {0, 8, 248, 255, 256, 257, 300, 2^32, 2^64-1, 2^64, 2^255, 2^256-1} through SHR/SHL/SAR/"
             "DIV/MUL, SIGNEXTEND with every boundary constant in either position, nested packed idioms and mutated real contracts. Lift.tla's InWord is evaluated on every term LiftGen enumerates after the real lifting passes ran on it (Inv_C12_InSlot/lift), including positions that leave the word; packed-dataflow programs (fields with holes, shared values packed again high up in other slots, reads that cut fields) and bulk copies of computed constant size extend the generated layouts. PackedMerge.tla / PackedTrace.tla check on every enumerated pair of packed encodings that the spans the real merge returns stay within the inputs' extent and that every piece it places in a span's variable lies within that span's width (Inv_C12_InSlot/packed-merge). Flatten.tla specifies how a resolved slot type becomes layout entries (the leaves of nested packed encodings, each at the sum of the offsets on its way down); FlattenGen enumerates 1 782 / 14 095 trees of depth <= 2, the real unifier and layout builder convert each, and FlattenTrace.tla checks Inv_C12_InSlot/flatten and Inv_C12_Sorted/flatten.",
        note="Width is defined for every AbiType of known width.",
        technique="TLA+ layout well-formedness invariants; TLC trace validation",
        ref="DESIGN.md §4 C12"),
    "C09": dict(
        category="model_checking",
        text="Word.tla specifies 256-bit EVM arithmetic as limb arithmetic (ADD..SAR and EXP as functions, DIV/MOD/SDIV/SMOD "
             "as relations checked with a quotient hint) and is model-checked against native arithmetic modulo B^N for all "
             "operand pairs at small (B,N), including uniqueness of the relations; Value.tla specifies folding node by node "
             "(the exact EVM constant when every folded operand is constant, otherwise the same operator over the folded "
             "operands in the same positions). The real constant_fold is applied to every sub-tree of generated trees "
             "(21 operators x boundary pairs, opaque operands in each position, depth <= 4) and ValueTrace.tla checks "
             "Inv_C09_Meaning on every node plus idempotence and totality.",
        note="Word.tla at (256,32) is trusted by uniformity with the exhaustively checked small instances.",
        technique="TLA+ word/term specification model-checked at small widths; TLC trace validation of the real folder node by node",
        ref="DESIGN.md §4 C09"),
    "C18": dict(
        category="model_checking",
        text="Value.tla / ValueTrace.tla: Inv_C18_Accounting (the size a node reports equals the nodes it contains, for every "
             "node of every value the VM produced, of its folded form and of the form TypeChecker::lift leaves it in) and Inv_C18_Limit (instruction results have at most "
             "value_size_limit nodes) on programs that grow values (squaring, adding, hashing, shift-or loops; idiom and control-flow "
             "programs) under limits 1..1000.",
        note="StorageWrite wrappers created when storage is exported are not instruction results; their operands are. "
             "Known finding: SLOAD builds its result outside the value builder.",
        technique="TLA+ size invariants; TLC trace validation of measured value trees",
        ref="DESIGN.md §4 C18"),
    "C20": dict(
        category="exploration",
        text="LayoutJson.tla describes the wire shape (index = 0x + 64 lower-case hex digits of the 32 index bytes, fields "
             "index/offset/type, snake_case variant tags and field names, recursively); LayoutGen (TLC) enumerates every "
             "AbiType tree of depth <= 2 over all 17 variants (option fields none/8/256, array lengths up to 2^256-1, "
             "conflicts with and without payloads); each is serialised with the crate's serde implementation and parsed "
             "back, and LayoutJsonTrace.tla checks Inv_C20_RoundTrip, Inv_C20_IndexFormat (slot indices and array lengths) "
             "and Inv_C20_WireShape on every entry, including random trees to depth 5 and the boundary set of indices.",
        note="The specification is a format description and a generator; fidelity of serde_json itself is outside it.",
        technique="TLA+ format specification; TLC-enumerated type trees replayed through serde; TLC trace validation of the JSON observed",
        ref="DESIGN.md §4 C20"),
    "C07": dict(
        category="translation_validation",
        text="Evm.tla is a concrete EVM for the fragment of the statement (PUSH0..32, DUP/SWAP1..16, POP, all ALU opcodes incl. "
             "ADDMOD/MULMOD/SIGNEXTEND/BYTE, PC, CODESIZE, word-aligned MSTORE/MLOAD, SLOAD/SSTORE, JUMP/JUMPI with forced "
             "decisions) written as a checker of a claimed execution over Word.tla. For every path the real VM explores on "
             "generated stack-safe loop-free constant programs (random block programs whose results are sunk into memory and "
             "storage, and the operator grid: every ALU opcode x boundary operands of its roles, ~5100 cells, a third per quick run), the path is rebuilt from the hook events, a scratch "
             "interpreter's run along it is verified step by step by Evm!Step, every node of the final symbolic stack, memory "
             "words and storage generations is given a scratch value verified by Evm!NodeClaimOK (the operator over its operands "
             "in EVM order), and EvmTrace.tla checks Inv_C07_Stack, Inv_C07_Memory, Inv_C07_Storage (exactly this path's "
             "writes, in order, one entry per slot word) and Inv_C07_Path. The memory of a path is also specified on its own (Memory.tla): MemoryMC checks every history of <= 5 / 6 calls over offsets of which two pairs agree modulo 2^64 against a concrete memory, and random histories on the real Memory (offsets agreeing in their low 16..255 bits, pushed or computed, byte stores, slices around the copy limit) are validated by MemoryTrace.tla (Inv_C07_Memory/memory-model). A fold-offset family uses every ALU result as a memory offset (XOR-ed with the expected value), so that a wrong fold of the operator moves the store.",
        note="Four genuine shortfalls are known findings, recognised by what the path did (SIGNEXTEND, overflowing ADDMOD/MULMOD, "
             "BYTE with an index >= 2^253, programs that address one slot through two key expressions); a disagreement is excused only "
             "when every disagreeing item is computed from a node built at an instruction that ran into one of them (per-node taint), "
             "and only for the invariants named in the signature.",
        technique="TLA+ concrete EVM as execution checker; per-path translation validation of the symbolic state by TLC trace "
                  "validation; TLA+ component models of the operand stack and the storage validated against recorded call histories",
        ref="DESIGN.md §4 C07"),
    "C01": dict(
        category="exploration",
        text="Pipeline.tla specifies the extractor's typestate with exactly two kinds of terminal state; RolesGen (TLC over "
             "Opcodes.tla) enumerates opcode x operand position x 14 boundary constants, assembled in three contexts; with "
             "crafted cyclic-type and load-chain programs, random bytes, opcode soup, control-flow / idiom / constant programs "
             "and mutated / truncated real contracts, each under a random valid configuration, every case is run through the 5 "
             "staged calls and analyze() in a dev-profile child process; PipelineTrace.tla replays the recorded outcomes on the "
             "typestate (Inv_C01_Total, Inv_C01_Consistent). A child that dies or sits on one case for more than 90 s is a "
             "violation attributed to the case in flight.",
        note="The specification contributes the typestate, the boundary-case generator and the acceptor; the deciding "
             "observation is 'every call returned'. Configurations stay within the bounds listed in the evidence.",
        technique="TLA+ typestate + TLC-enumerated boundary programs; process-isolated exploration with TLC trace validation of stage outcomes",
        ref="DESIGN.md §4 C01"),
}
