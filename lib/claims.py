"""What MANIFEST.json claims, per property (consumed by gen_manifest.py)."""

NOT_APPLICABLE = {}

CHECKS = {
    "C19": dict(
        category="model_checking",
        text="TLC builds the complete depth-bounded state graph of the abstract partition-with-bags model "
             "(DisjointSet.tla) and the finite-map model (VectorMap.tla) over a 4-element universe; every operation "
             "sequence up to length 4/5 (quick) or 5/6-canonical/7 (thorough) is replayed through the real DisjointSet "
             "(counting monoid and the production HashSet monoid) and VectorMap, comparing each call's result and the "
             "projected state at every step; random 400-operation histories over 64 elements are accepted by the TLA+ "
             "trace specifications.",
        note="Exhaustive to the stated depth over 4 elements and 2 data atoms; sampled beyond. Trusted: TLC, the "
             "projection through the public API (values/find/get_data on a clone; iter/len/get).",
        technique="TLA+ model; TLC state graph replayed path-by-path into the real structure; TLC trace validation "
                  "of recorded histories",
        ref="DESIGN.md §4 C19"),
    "C10": dict(
        category="model_checking",
        text="Disasm.tla specifies the disassembler as a streaming state machine (ReadOp/ReadImm/EndComplete/"
             "EndTruncated); TLC checks one-entry-per-byte, losslessness, immediates-are-not-instructions and existence "
             "of an accepting end for every byte string up to length 5/6 over a class alphabet, and every terminal "
             "state is replayed into the real disassembler; observations of the real disassembler on all 1-byte "
             "strings, (all) 2-byte strings, every opcode x truncation, PUSHes of JUMPDESTs, random strings up to "
             "24 KiB and truncated real contracts are validated by DisasmTrace.tla with the named invariants "
             "Inv_C10_Total/OnePerByte/RoundTrip/Classes.",
        note="Opcodes.tla is written from the Shanghai table, not from the tool; entries are observed through "
             "ExecutionThread::instruction + downcasts. Exhaustive for lengths 1-2 in the thorough tier.",
        technique="TLA+ state machine model-checked by TLC; terminal states replayed into the code; TLC trace "
                  "validation of recorded observations",
        ref="DESIGN.md §4 C10"),
}
