"""C15 — decided by Unify.tla / TypeLattice.tla: see lib/unify_checks.py."""
import unify_checks

PROP = "C15"


def run(tier, seed):
    return unify_checks.run(PROP, tier, seed)


def replay(path, seed):
    print(open(path).read())
    return unify_checks.run(PROP, "quick", seed)
