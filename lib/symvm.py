"""Shared pipeline for C03 / C08 / C17: generated programs -> real VM with hooks -> NDJSON ->
SymVMTrace.tla.  The result is cached per (repo tree, tier, seed) so the three checks share one run."""
import hashlib
import json
import os
import subprocess
from collections import Counter
from concurrent.futures import ThreadPoolExecutor

from common import (WORK, REPO, VERIF, ToolError, harness, log, validate_trace, workdir)

INV_PROP = {"Inv_C03": "C03", "Inv_C08": "C08", "Inv_C17": "C17"}


def tree_hash():
    h = hashlib.sha1()
    import common
    out = subprocess.run(f"git -C {common.REPO} rev-parse HEAD; git -C {common.REPO} diff HEAD; git -C {common.REPO} status --short; "
                         f"cat {common.SPEC}/[A-Z]*.tla {common.SPEC}/[A-Z]*.cfg {common.HARNESS}/src/*.rs {common.HARNESS}/Cargo.toml "
                         f"{common.VERIF}/lib/*.py {common.VERIF}/known_findings.json | sha1sum",
                         shell=True, capture_output=True, text=True).stdout
    h.update(out.encode())
    return h.hexdigest()[:16]


def trace_stats(paths):
    c = Counter()
    for p in paths:
        with open(p) as fh:
            for line in fh:
                try:
                    r = json.loads(line)
                except Exception:
                    continue
                ev = r.get("ev")
                c["ev:" + str(ev)] += 1
                if ev == "exec" and not r["ok"]:
                    c["exec-error:" + r["kind"]] += 1
                    c["exec-error-recorded" if r["recorded"] else "exec-error-tolerated"] += 1
                if ev == "advance" and r["next"] < 0:
                    for k in ("oob", "limit", "gas", "killed"):
                        if r[k]:
                            c["retire:" + k] += 1
                if ev == "operand":
                    c["operand:" + ("symbolic" if not r["word"] else "constant")] += 1
                if ev == "reset":
                    c["mode:" + ("permissive" if r["perm"] else "strict")] += 1
                if ev == "modes":
                    c[f"modes:{r['strict']}/{r['perm']}"] += 1
    return dict(c)


def run_pipeline(tier, seed, extra_programs=None, name="symvm"):
    key = f"{tree_hash()}-{tier}-{seed}"
    cache = os.path.join(WORK, f"{name}-cache-{key}.json")
    if os.path.exists(cache) and not extra_programs:
        log(f"[symvm] using cached pipeline result {os.path.basename(cache)}")
        return json.load(open(cache))
    wd = workdir(name)
    thorough = tier == "thorough"
    shards = 12 if thorough else 4
    nprog = 2500 if thorough else 220
    args = ["vm-trace-run", "--seed", seed, "--programs", nprog, "--shards", shards, "--out", os.path.join(wd, "t")]
    if extra_programs:
        pf = os.path.join(wd, "extra.ndjson")
        with open(pf, "w") as fh:
            for p in extra_programs:
                fh.write(json.dumps(p) + "\n")
        args += ["--programs-file", pf]
    p = harness(args, timeout=3000)
    info = json.loads(p.stdout.strip().splitlines()[-1])
    paths = [os.path.join(wd, f"t.{s}.ndjson") for s in range(shards)]

    def one(s):
        return validate_trace("SymVMTrace", paths[s], name=f"SymVMTrace-{s}", timeout=3400, heap="6g")

    with ThreadPoolExecutor(max_workers=min(shards, 6)) as ex:
        verdicts = list(ex.map(one, range(shards)))
    viol = []
    states = trans = 0
    for s, tv in enumerate(verdicts):
        states += tv.tlc.distinct
        trans += tv.tlc.generated
        if tv.matched < tv.records:
            raise ToolError(f"SymVMTrace could not consume record {tv.matched + 1} of {paths[s]}: "
                            f"{json.dumps(tv.first_unmatched)[:300]} (see {tv.tlc.out_path})")
        for x in tv.viol:
            # find the run this record belongs to
            at = int(x["at"])
            reset = None
            with open(paths[s]) as fh:
                for i, line in enumerate(fh, 1):
                    if i > at:
                        break
                    if '"ev":"reset"' in line:
                        reset = json.loads(line)
            rec = x.get("record", {})
            viol.append({"inv": sorted(x["inv"]), "record": rec,
                         "run": {k: reset[k] for k in reset if k != "code"} if reset else
                                {k: rec.get(k) for k in ("hex", "family", "L", "F", "G")}})
    res = {"info": info, "states": states, "transitions": trans, "viol": viol,
           "stats": trace_stats(paths), "records": sum(tv.records for tv in verdicts)}
    if not extra_programs:
        with open(cache, "w") as fh:
            json.dump(res, fh)
    return res


def classify(v):
    """A signature for a violation: invariant + the shape of the failing record."""
    rec = v["record"]
    inv = "+".join(v["inv"])
    ev = rec.get("ev", "?")
    detail = ""
    if ev == "exec":
        detail = rec.get("text", "") + (":" + rec.get("kind", "") if not rec.get("ok", True) else "")
    elif ev == "advance":
        detail = "retire" if rec.get("next", 0) < 0 else "step"
    elif ev == "storeerr":
        detail = rec.get("kind", "")
    elif ev == "modes":
        detail = f"{rec.get('strict')}/{rec.get('perm')}"
    mode = "permissive" if v["run"].get("perm") else "strict"
    return f"{inv}:{ev}:{detail}:{mode}"


def report(prop, verdict, res):
    mine = [v for v in res["viol"] if any(i.startswith("Inv_" + prop) for i in v["inv"])
            or (prop == "C03" and "Conform" in v["inv"])]
    for v in mine:
        run = v["run"]
        verdict.violation(classify(v),
                          f"{'/'.join(v['inv'])} fails at record {json.dumps({k: v['record'][k] for k in v['record'] if k not in ('code', 'word')})[:300]} "
                          f"of program {run.get('hex', '?')[:120]} (family {run.get('family')}, L={run.get('L')} F={run.get('F')} "
                          f"G={run.get('G')} perm={run.get('perm')})",
                          {"kind": "vm-program", "hex": run.get("hex"), "L": run.get("L"), "F": run.get("F"),
                           "G": run.get("G"), "perm": run.get("perm"), "invariants": v["inv"]})
    return mine


def replay_one(prop, path, seed):
    from common import read_json
    doc = read_json(path)
    rp = doc["replay"]
    if rp.get("kind") == "cfg-program":
        # programs of the Cfg.tla check derive from the seed: that check is repeated
        import cfgmodel
        from common import Verdict
        v = Verdict(prop, doc.get("tier", "quick"), doc.get("seed", seed))
        n = cfgmodel.report(prop, v, cfgmodel.run(doc.get("tier", "quick"), doc.get("seed", seed)))
        print(json.dumps({"cfg_model_violations": n}))
        if n:
            print(f"VIOLATION property={prop} replay={path}")
        return 1 if n else 0
    wd = workdir("symvm-replay")
    tp = os.path.join(wd, "one.ndjson")
    args = ["vm-one", "--hex", rp["hex"], "--L", rp["L"], "--F", rp["F"], "--G", rp["G"], "--out", tp]
    if rp.get("perm"):
        args.append("--perm")
    harness(args)
    tv = validate_trace("SymVMTrace", tp)
    bad = [x for x in tv.viol if any(i.startswith("Inv_" + prop) or i == "Conform" for i in x["inv"])]
    print(json.dumps({"hex": rp["hex"], "violations": [{"at": x["at"], "inv": x["inv"]} for x in tv.viol]}, indent=1))
    if bad:
        print(f"VIOLATION property={prop} replay={path}")
        return 1
    return 0
