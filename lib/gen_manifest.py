#!/usr/bin/env python3
"""Regenerates MANIFEST.json from claims.py (one source of truth for what is claimed)."""
import json
import os
import subprocess
import sys

sys.path.insert(0, os.path.dirname(os.path.abspath(__file__)))
from claims import CHECKS, NOT_APPLICABLE  # noqa: E402

props = [json.loads(l) for l in open('/verif/properties.jsonl')]

NA_DEFAULT = "check under construction (specification planned in DESIGN.md); not claimed yet"

hook_commits = [l.split()[0] for l in subprocess.run(
    ["git", "-C", "/repo", "log", "--format=%h %s"], capture_output=True, text=True).stdout.splitlines()
    if len(l.split(" ", 1)) > 1 and l.split(" ", 1)[1].startswith("verif:")]

man = {
    "version": 1,
    "setup_cmd": "cd /verif/harness && cargo build --offline --release && cd /verif/spec && for f in [A-Z]*.tla; do "
                 "tla-sany \"$f\" >/dev/null 2>&1 || { echo \"SANY failed: $f\"; exit 1; }; done",
    "hooks": {
        "guard": "sle_verif",
        "enable": "rustflags = [\"--cfg\", \"sle_verif\", \"--check-cfg\", \"cfg(sle_verif)\"] in "
                  "/verif/harness/.cargo/config.toml; the harness has a path dependency on /repo and is rebuilt by every check",
        "baseline_off_cmd": "cd /repo && cargo test --workspace --no-fail-fast --offline",
        "source_commits": hook_commits,
        "add_only": True,
    },
    "engines": [
        {"name": "tlc", "path": "/opt/veriftools/tla/tla2tools.jar", "serves_properties": sorted(CHECKS),
         "kind_free_text": "TLA+ model checker: bounded model checking of spec/*.tla, behaviour generation for replay, "
                           "trace validation"},
        {"name": "sle-verif", "path": "/verif/harness", "serves_properties": sorted(CHECKS),
         "kind_free_text": "Rust conformance harness (path dependency on /repo, --cfg sle_verif): replays TLC behaviours "
                           "into the real code and records NDJSON traces of the real code for TLC"},
    ],
    "checks": [],
    "notes": "All checks: ./check <id> --tier quick|thorough [--replay path]. Specification: spec/*.tla; design: DESIGN.md; "
             "known findings: known_findings.json; seeded mutants: seeded/.",
    "not_applicable": [],
}
for p in props:
    pid = p["id"]
    if pid in CHECKS:
        c = CHECKS[pid]
        man["checks"].append({
            "property_id": pid,
            "quick_cmd": f"./check {pid} --tier quick",
            "thorough_cmd": f"./check {pid} --tier thorough",
            "evidence_file": f"/verif/evidence/{pid}.json",
            "replay_cmd_template": f"./check {pid} --replay {{path}}",
            "engine": "tlc",
            "level_claimed": {"category": c["category"], "text": c["text"], "design_ref": c["ref"]},
            "level_note": c["note"],
            "technique": c["technique"],
        })
    else:
        man["not_applicable"].append({"property_id": pid, "reason": NOT_APPLICABLE.get(pid, NA_DEFAULT)})
json.dump(man, open('/verif/MANIFEST.json', 'w'), indent=1)
print("claimed:", sorted(CHECKS))
