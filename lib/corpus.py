"""Real contracts embedded in /repo (tests/*.rs constants and asset/*.json), extracted at check time."""
import glob
import json
import os
import re

from common import WORK, REPO

_cache = None


def real_contracts():
    """Returns a list of (name, hex) sorted by size."""
    global _cache
    if _cache is not None:
        return _cache
    out = {}
    for f in sorted(glob.glob(os.path.join(REPO, "tests", "*.rs"))):
        text = open(f).read()
        for i, m in enumerate(re.finditer(r'"(?:0x)?([0-9a-fA-F]{64,})"', text)):
            h = m.group(1).lower()
            if len(h) % 2 == 0:
                out[f"{os.path.basename(f)[:-3]}_{i}"] = h
    for f in sorted(glob.glob(os.path.join(REPO, "asset", "*.json"))):
        try:
            j = json.load(open(f))
            h = j["deployedBytecode"]["object"]
            h = h[2:] if h.startswith("0x") else h
            if h:
                out[os.path.basename(f)[:-5]] = h.lower()
        except Exception:
            pass
    _cache = sorted(out.items(), key=lambda kv: len(kv[1]))
    return _cache


def write_corpus(path=None):
    path = path or os.path.join(WORK, "corpus.json")
    os.makedirs(os.path.dirname(path), exist_ok=True)
    with open(path, "w") as fh:
        json.dump([{"name": n, "hex": h} for n, h in real_contracts()], fh)
    return path


if __name__ == "__main__":
    for n, h in real_contracts():
        print(n, len(h) // 2)
