"""C16 — combining typing evidence is independent of order and grouping.

 spec alone  : TypeLatticeMC evaluates commutativity and associativity (up to conflict payloads and choice of
               representative) of TypeLattice!Merge on all 1 600 ordered pairs and 64 000 ordered triples of the
               40-element evidence domain of the statement, and classifies every grouping-dependent triple.
 impl -> spec: the real unification::merge is evaluated on the same pairs and triples in both groupings (expression
               and emitted equalities recorded raw); LatticeTrace.tla normalises and checks Inv_C16_Comm and
               Inv_C16_Assoc on every record, and compares every pair with the specification's table (Mirror).
Exhaustive in both tiers.
"""
import json
import os

from common import (ToolError, Verdict, harness, log, printed, run_tlc, validate_trace, workdir)

PROP = "C16"


def run(tier, seed):
    v = Verdict(PROP, tier, seed)
    wd = workdir("c16")
    r = run_tlc("TypeLatticeMC", workers=1, timeout=1200)
    summ = list(printed(r.out_path, "SUMMARY"))
    if not summ or r.rc != 0:
        raise ToolError(f"TypeLatticeMC failed: {r.error_lines[:3]}")
    summ = summ[-1]
    log(f"[C16] specification: {summ}")
    tp = os.path.join(wd, "table.ndjson")
    p = harness(["lattice-table", "--out", tp])
    info = json.loads(p.stdout.strip().splitlines()[-1])
    tv = validate_trace("LatticeTrace", tp, timeout=1200)
    if tv.matched < tv.records:
        raise ToolError(f"LatticeTrace could not consume record {tv.matched + 1}: {tv.first_unmatched}")
    stats = list(printed(tv.tlc.out_path, "TRACE"))[-1]
    cnt = stats.get("cnt", {})
    log(f"[C16] real merge: {cnt.get('pairs')} pairs, {cnt.get('triples')} triples, {cnt.get('bad')} records violate a law")
    drift = 0
    for x in tv.viol:
        rec = x.get("record", {})
        for inv in x["inv"]:
            if inv == "Mirror":
                drift += 1
                continue
            case = {k: rec.get(k) for k in ("a", "b", "c") if k in rec}
            v.violation(inv, f"{inv}: merge gives different outcomes for {json.dumps(case)}: "
                             f"{json.dumps({k: rec.get(k) for k in ('ab', 'ba', 'left', 'right') if k in rec})}",
                        {"kind": "evidence", **case})
    # spec-level findings outside the known families (they are real iff the mirror equals the real table)
    for t in printed(r.out_path, "UNEXPLAINED"):
        v.violation("Inv_C16_Assoc", f"the specification's Merge is grouping-dependent on {json.dumps(t)} outside the known families",
                    {"kind": "evidence", **t})
    for t in printed(r.out_path, "NONCOMM"):
        v.violation("Inv_C16_Comm", f"the specification's Merge is not commutative on {json.dumps(t)}", {"kind": "evidence", **t})
    if drift:
        v.notes.append(f"SPEC-DRIFT: the real merge differs from TypeLattice!Merge on {drift}+ pairs (laws still hold there)")
        log(f"SPEC-DRIFT: real merge differs from the specification's table on {drift}+ pairs")
    if info.get("panics"):
        v.violation("panic", f"merge panicked on {info['panics']} inputs", {"kind": "evidence"})
    sample = None
    with open(tp) as fh:
        for i, line in enumerate(fh):
            if i == 5000:
                sample = json.loads(line)
    cov = {
        "states": tv.tlc.distinct + 2,
        "transitions": tv.tlc.generated,
        "traces_validated_against_impl": int(cnt.get("pairs", 0)) + int(cnt.get("triples", 0)),
        "spec_summary": summ,
        "real_records_violating_a_law": cnt.get("bad"),
        "exhaustive": True,
        "rule": "all ordered pairs (both orders compared) and all ordered triples (both groupings compared) over: Any, "
                "Bytes, Conflict, 4 free usages x widths {unknown,8,32,160,192,256}, 4 fixed-width usages, 4 mappings "
                "and 2 dynamic and 3 fixed arrays over two variables",
        "samples": [sample],
    }
    return v.finish("model_checking", cov, ["TLC + Json/IOUtils", "normalisation (conflict payloads dropped, least "
                    "representative under emitted equalities) is part of the specification"])


def replay(path, seed):
    print(open(path).read())
    return run("quick", seed)
