"""C10 — disassembly is total, lossless and keeps byte offsets.

spec alone : DisasmMC — every byte string up to length 5/6 over a class alphabet, design invariants.
spec -> impl: every terminal state TLC reaches is one replay case for the real disassembler.
impl -> spec: observations of the real disassembler on the quantifier's families (all strings of
              length 1 and 2, every opcode x every truncation, PUSHes of JUMPDESTs, random strings
              to 24 KiB, truncated real contracts) are validated by DisasmTrace.tla.
"""
import json
import os
import re
from concurrent.futures import ThreadPoolExecutor

import corpus
from common import (SPEC, ToolError, Verdict, harness, log, printed, read_json, run_tlc, tlc_must_pass,
                    validate_trace, workdir)

PROP = "C10"


def _hex(code):
    return bytes(code).hex()


def run(tier, seed):
    v = Verdict(PROP, tier, seed)
    wd = workdir("c10")
    thorough = tier == "thorough"
    maxlen = 6 if thorough else 5

    # ---- model checking of the design + case generation ------------------------------------
    cfg = open(os.path.join(SPEC, "DisasmMC.cfg")).read()
    cfg = re.sub(r"MaxLen = \d+", f"MaxLen = {maxlen}", cfg)
    with open(os.path.join(SPEC, "_DisasmMC.cfg"), "w") as fh:
        fh.write(cfg)
    try:
        r = run_tlc("DisasmMC", cfg="_DisasmMC.cfg", workers=8, timeout=3000, coverage=False)
    finally:
        os.remove(os.path.join(SPEC, "_DisasmMC.cfg"))
    tlc_must_pass(r, "DisasmMC")
    cases = os.path.join(wd, "cases.ndjson")
    n = 0
    sample_case = None
    with open(cases, "w") as fh:
        for c in printed(r.out_path, "CASE"):
            fh.write(json.dumps(c) + "\n")
            n += 1
            if n == 1000:
                sample_case = c
    if n == 0:
        raise ToolError("DisasmMC printed no cases")
    log(f"[C10] DisasmMC: {r.distinct} states, {n} terminal cases (all strings of length <= {maxlen} over 8 byte classes)")
    out = os.path.join(wd, "replay.json")
    harness(["disasm-replay", "--cases", cases, "--out", out])
    rep = read_json(out)
    log(f"[C10] replayed {rep['cases']} cases through the real disassembler: {rep['mismatching']} mismatching")
    seen = set()
    for m in rep["mismatches"]:
        if m["sig"] in seen:
            continue
        seen.add(m["sig"])
        v.violation(f"replay:{m['sig']}", f"code {m['hex']} ({m['status']}): {m['why']}",
                    {"kind": "bytes", "hex": m["hex"]})

    # ---- trace validation --------------------------------------------------------------------
    shards = 8 if thorough else 2
    cpath = corpus.write_corpus(os.path.join(wd, "corpus.json"))
    args = ["disasm-trace", "--seed", seed, "--shards", shards, "--out", os.path.join(wd, "obs"), "--corpus", cpath]
    if thorough:
        args.append("--thorough")
    p = harness(args)
    info = json.loads(p.stdout.strip().splitlines()[-1])
    log(f"[C10] recorded {info['inputs']} inputs / {info['records']} records: {info['families']}")

    def one(s):
        return validate_trace("DisasmTrace", os.path.join(wd, f"obs.{s}.ndjson"), name=f"DisasmTrace-{s}", timeout=3000)

    with ThreadPoolExecutor(max_workers=min(shards, 8)) as ex:
        verdicts = list(ex.map(one, range(shards)))
    states = r.distinct
    trans = r.generated
    accepted_inputs = 0
    for s, tv in enumerate(verdicts):
        states += tv.tlc.distinct
        trans += tv.tlc.generated
        if tv.matched < tv.records:
            raise ToolError(f"DisasmTrace could not consume record {tv.matched} of shard {s}: {tv.first_unmatched}")
        for x in tv.viol:
            rec = x.get("record", {})
            code = rec.get("code")
            hexs = _hex(code) if code else rec.get("src", "?")
            inv = ",".join(sorted(x["inv"]))
            why = rec.get("err") or rec.get("panic") or ""
            fam = rec.get("src", "?")
            trunc = ""
            if code:
                # is the last instruction a PUSH cut short?  (classification used in signatures only)
                i = 0
                while i < len(code):
                    ln = code[i] - 0x5f if 0x60 <= code[i] <= 0x7f else 0
                    if i + ln >= len(code) and ln > 0:
                        trunc = ":truncated-push-%s" % ("bare" if i == len(code) - 1 else "partial")
                    i += 1 + ln
            v.violation(f"trace:{inv}{trunc}", f"{inv} fails on code {hexs[:80]} (family {fam}) {why}",
                        {"kind": "bytes", "hex": hexs, "invariants": x["inv"]})
    if all(tv.accepted for tv in verdicts):
        accepted_inputs = info["inputs"]
    log(f"[C10] DisasmTrace: {sum(tv.matched for tv in verdicts)} records consumed, "
        f"{sum(len(tv.viol) for tv in verdicts)} invariant failures")

    cov = {
        "states": states,
        "transitions": trans,
        "traces_validated_against_impl": accepted_inputs,
        "cases_replayed_into_impl": rep["cases"],
        "entry_kinds_replayed": rep.get("entry_kinds"),
        "families": info["families"],
        "exhaustive": bool(thorough),
        "rule": f"model: all strings <= {maxlen} over {{STOP,JUMPDEST,JUMP,PUSH1,PUSH2,PUSH32,unassigned,ADD}}; "
                "traces: all 256 one-byte strings, " + ("all 65536" if thorough else "a stratified sample of") +
                " two-byte strings, every opcode x every truncation length x 4 fill bytes, PUSH chains of "
                "JUMPDEST/PUSH bytes, random strings (short; long ones up to 24576 bytes streamed byte by byte), "
                "real contracts whole and truncated at each offset within 34 bytes after a PUSH",
        "samples": [sample_case, {"trace_record_example": "see spec/DisasmTrace.tla 'whole' / 'sbyte' records"}],
    }
    return v.finish("model_checking", cov,
                    ["TLC + Json/IOUtils modules", "Opcodes.tla is the Shanghai table the tool targets",
                     "per-offset entries are read through ExecutionThread::instruction and downcasts"])


def replay(path, seed):
    rp = read_json(path)["replay"]
    wd = workdir("c10-replay")
    code = list(bytes.fromhex(rp["hex"]))
    cases = os.path.join(wd, "cases.ndjson")
    # expected classification comes from the specification: run DisasmMC? the single case is
    # re-validated through the trace acceptor instead.
    tp = os.path.join(wd, "one.ndjson")
    p = harness(["disasm-one", "--hex", rp["hex"], "--out", tp])
    tv = validate_trace("DisasmTrace", tp)
    print(json.dumps({"hex": rp["hex"], "accepted": tv.accepted, "viol": tv.viol}, indent=1, default=str))
    if not tv.accepted:
        print(f"VIOLATION property={PROP} replay={path}")
        return 1
    return 0
