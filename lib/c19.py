"""C19 — the union-find forest and its vector map match their abstract models.

spec -> impl: TLC prints the complete depth-bounded state graph of DisjointSet.tla / VectorMap.tla
              (4 elements); the harness walks EVERY operation sequence up to the tier's length
              through the real structures and compares results + projected state at every step.
impl -> spec: long random histories over 64 elements are recorded from the real structures and
              validated by the TLC trace acceptors DisjointSetTrace / VectorMapTrace.
"""
import json
import os

from common import (Verdict, ToolError, harness, log, printed, read_json, run_tlc, tlc_must_pass,
                    validate_trace, workdir, SPEC)

PROP = "C19"


def _graph(module, depth, wd):
    cfg_src = open(os.path.join(SPEC, module + ".cfg")).read()
    import re
    cfg = re.sub(r"MaxDepth = \d+", f"MaxDepth = {depth}", cfg_src)
    cfg_name = f"_{module}_{depth}.cfg"
    with open(os.path.join(SPEC, cfg_name), "w") as fh:
        fh.write(cfg)
    try:
        r = run_tlc(module, cfg=cfg_name, workers=1, name=f"{module}-d{depth}", timeout=3000, keep_out=False)
    finally:
        os.remove(os.path.join(SPEC, cfg_name))
    tlc_must_pass(r, module)
    gpath = os.path.join(wd, module + ".graph.ndjson")
    n = 0
    with open(gpath, "w") as fh:
        for e in printed(r.out_path, "EDGE"):
            fh.write(json.dumps(e) + "\n")
            n += 1
    if n == 0:
        raise ToolError(f"{module}: TLC printed no edges")
    return gpath, r, n


def _trace_violation(v, verdict, what, trace_path):
    e = v.first_unmatched or {}
    run = e.get("run")
    hist = []
    with open(trace_path) as fh:
        for line in fh:
            rec = json.loads(line)
            if rec.get("run") == run and rec.get("op") not in ("begin", "reset"):
                hist.append({k: rec[k] for k in rec if k not in ("proj", "run", "step", "pairs")})
                if rec.get("step") == e.get("step"):
                    break
    kind = "panic" if "panic" in e else "state"
    sig = f"trace:{what}:{e.get('op')}:{kind}"
    verdict.violation(sig, f"{what} history rejected by the TLA+ acceptor at step {e.get('step')} of run {run}: "
                      f"{ {k: e[k] for k in e if k not in ('proj', 'pairs')} }",
                      {"kind": "history", "structure": what, "history": hist})


def run(tier, seed):
    v = Verdict(PROP, tier, seed)
    wd = workdir("c19")
    thorough = tier == "thorough"
    ds_depth = 5 if thorough else 4
    vm_depth = 7 if thorough else 5
    cov = {"samples": []}
    states = transitions = 0
    walked = 0

    # ---- spec -> impl: exhaustive walks of the model's state graph -------------------------
    g, r, nedges = _graph("DisjointSetMC", max(ds_depth, 6 if thorough else ds_depth), wd)
    states += r.distinct
    transitions += nedges
    walks = [("bag", ds_depth, False), ("set", ds_depth, False)]
    if thorough:
        walks.append(("bag", 6, True))
    for monoid, depth, canonical in walks:
        out = os.path.join(wd, f"ds-walk-{monoid}-{depth}.json")
        args = ["ds-walk", "--graph", g, "--depth", depth, "--monoid", monoid, "--out", out]
        if canonical:
            args.append("--canonical")
        harness(args, timeout=7000)
        res = read_json(out)
        walked += res["paths"]
        log(f"[C19] DisjointSet<{monoid}> depth {depth}{' (canonical)' if canonical else ''}: "
            f"{res['paths']} paths, {res['steps']} steps, {res['graph_edges_exercised']}/{res['graph_edges']} "
            f"model transitions exercised, {res['mismatching_paths']} mismatching")
        cov.setdefault("walks", []).append({k: res[k] for k in res if k != "mismatches"} | {"monoid": monoid})
        for m in res["mismatches"]:
            s = m["shortest"]
            v.violation(f"ds:{monoid}:{m['sig']}",
                        f"DisjointSet<{monoid}> deviates from DisjointSet.tla on {m['count']} path(s); shortest: "
                        f"{json.dumps(s['path'])}: {s['detail']}",
                        {"kind": "walk", "structure": "DisjointSet", "monoid": monoid, "path": s["path"],
                         "expected": s["expected"], "actual": s["actual"]})
        if res["mismatching_paths"] == 0:
            cov["samples"].append({"structure": "DisjointSet", "monoid": monoid, "depth": depth,
                                   "paths": res["paths"]})

    g2, r2, nedges2 = _graph("VectorMapMC", 5, wd)
    states += r2.distinct
    transitions += nedges2
    out = os.path.join(wd, "vm-walk.json")
    harness(["vm-walk", "--graph", g2, "--depth", vm_depth, "--out", out], timeout=7000)
    res = read_json(out)
    walked += res["paths"]
    log(f"[C19] VectorMap depth {vm_depth}: {res['paths']} paths, {res['steps']} steps, "
        f"{res['graph_edges_exercised']}/{res['graph_edges']} model transitions exercised, "
        f"{res['mismatching_paths']} mismatching")
    cov.setdefault("walks", []).append({k: res[k] for k in res if k != "mismatches"} | {"structure": "VectorMap"})
    for m in res["mismatches"]:
        s = m["shortest"]
        v.violation(f"vm:{m['sig']}",
                    f"VectorMap deviates from VectorMap.tla on {m['count']} path(s); shortest: "
                    f"{json.dumps(s['path'])}: {s['detail']}",
                    {"kind": "walk", "structure": "VectorMap", "path": s["path"]})

    # ---- impl -> spec: random long histories validated by TLC ------------------------------
    runs = 60 if thorough else 12
    traces = 0
    for what, sub, module, extra in (("DisjointSet", "ds-trace", "DisjointSetTrace", ["--elems", 64]),
                                     ("VectorMap", "vm-trace", "VectorMapTrace", ["--keys", 64])):
        tp = os.path.join(wd, f"{sub}.ndjson")
        harness([sub, "--seed", seed, "--runs", runs, "--len", 400, "--out", tp] + extra)
        tv = validate_trace(module, tp, timeout=3000)
        states += tv.tlc.distinct
        transitions += max(tv.tlc.generated - 1, 0)
        log(f"[C19] {what} trace: {tv.matched}/{tv.records} records accepted")
        if tv.accepted:
            traces += runs
            with open(tp) as fh:
                fh.readline(); fh.readline()
                cov["samples"].append({"structure": what, "trace_record": json.loads(fh.readline())})
        else:
            _trace_violation(tv, v, what, tp)

    cov.update({
        "states": states,
        "transitions": transitions,
        "traces_validated_against_impl": traces,
        "paths_replayed_through_impl": walked,
        "exhaustive": True,
        "rule": f"every operation sequence of length <= {ds_depth} (DisjointSet, 45 ops over 4 elements x 2 atoms, "
                f"two monoids) and <= {vm_depth} (VectorMap, 17 ops over 4 keys) taken from TLC's state graph; "
                f"plus {runs} random histories x 400 ops x 64 elements per structure accepted by the TLA+ trace specs",
    })
    if not cov["samples"]:
        cov["samples"].append({"note": "all explored cases deviated; see violations"})
    return v.finish("model_checking", cov,
                    ["TLC and the Json/IOUtils community modules",
                     "the projection (values()/find()/get_data() on a clone; iter()/len()/get()) reports the real state"])


def replay(path, seed):
    rp = read_json(path)["replay"]
    print(json.dumps(rp, indent=1))
    print("re-run: ./check C19 --tier quick (the walk is exhaustive and re-finds this path deterministically)")
    return run("quick", seed)
