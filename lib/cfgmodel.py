"""Executed offsets against Cfg.tla (C08): the offsets of the `exec` events of the real VM on generated programs must be
offsets the EVM can possibly reach in that code (Cfg!MayReach, computed from the code bytes alone), and for programs
with constant targets, no loops and generous limits exactly those.
   Inv_C08_Edge/cfg   an executed offset the EVM cannot reach
   Inv_C08_Both/cfg   an EVM-reachable offset the VM did not execute (exact programs only)
Programs longer than a few hundred bytes are left out of the quick tier: the acceptor's cost grows faster than
quadratically with the code length (measured: one program of 24 600 bytes takes 5-12 minutes); the thorough tier runs
two programs longer than 24 576 bytes whose jumps aim at and beyond that offset."""
import json
import os

import symvm
from common import WORK, ToolError, harness, log, printed, validate_trace, workdir


def run(tier, seed):
    key = f"{symvm.tree_hash()}-{tier}-{seed}"
    cache = os.path.join(WORK, f"cfg-cache-{key}.json")
    if os.path.exists(cache):
        return json.load(open(cache))
    wd = workdir("cfg")
    tp = os.path.join(wd, "cfg.ndjson")
    p = harness(["cfg-trace", "--seed", seed, "--programs", 4000 if tier == "thorough" else 600,
                 "--long", 2 if tier == "thorough" else 0, "--out", tp], timeout=1200)
    info = json.loads(p.stdout.strip().splitlines()[-1])
    tv = validate_trace("CfgTrace", tp, timeout=3000)
    if tv.matched < tv.records:
        raise ToolError(f"CfgTrace could not consume record {tv.matched + 1}: {str(tv.first_unmatched)[:300]}")
    stat = list(printed(tv.tlc.out_path, "TRACE"))[-1].get("cnt", {})
    viol = [{"inv": sorted(x["inv"]), "hex": x.get("record", {}).get("hex"), "family": x.get("record", {}).get("family"),
             "executed": x.get("record", {}).get("executed"), "perm": x.get("record", {}).get("perm")} for x in tv.viol]
    res = {"states": tv.tlc.distinct, "transitions": tv.tlc.generated, "programs": int(stat.get("programs", 0)),
           "exact": int(stat.get("exact", 0)), "families": info["families"], "viol": viol}
    log(f"[cfg] {res['programs']} programs ({res['exact']} exact) checked against Cfg!MayReach; {len(viol)} rejected")
    with open(cache, "w") as fh:
        json.dump(res, fh)
    return res


def report(prop, v, res):
    n = 0
    for x in res["viol"]:
        for inv in x["inv"]:
            if inv.startswith("Inv_" + prop):
                v.violation(f"{inv}:{x['family']}",
                            f"{inv}: on program {str(x['hex'])[:200]} (family {x['family']}, permissive={x['perm']}) the VM executed offsets "
                            f"{str(x['executed'])[:200]}, which Cfg.tla does not allow",
                            {"kind": "cfg-program", "hex": x["hex"], "family": x["family"]})
                n += 1
    return n
