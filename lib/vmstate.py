"""The components of the state of one VM thread as specified components: the operand stack (Stack.tla) and the
storage of the path (Storage.tla).

 spec alone  : StackMC - every history of up to 6 calls (push / pop / read / dup / swap) over capacity 3: bounded,
               failing calls leave the stack unchanged, LIFO, dup / swap move exactly the frames they name, under- and
               overflow are reported exactly when they occur.
 impl -> spec: random call histories on the real `Stack`, starting empty and starting a few items below the capacity
               of 1024, are validated call by call by StackTrace.tla.  Two families of verdicts:
                 Inv_C17_Demand/stack-model  an under- / overflow not raised (or raised without cause), or a failing call
                                             that changed the stack                                  -> reported by C17
                 Inv_C07_Stack/stack-model   a successful call returned or left behind wrong values -> reported by C07
 Storage.tla : StorageMC - every history of up to 5 calls (store / load / generations / keys) over two keys: histories
               only grow at the end, a store appends exactly the value stored, a load changes nothing but the history of
               a never-written key (which it remembers), and returns the last value wrapped as loaded.  Random histories
               on the real `Storage` (constant keys rebuilt at varying places, symbolic keys, values that were themselves
               loaded) are validated by StorageTrace.tla:
                 Inv_C07_Storage/storage-model    -> reported by C07
                 Inv_C06_NoMissed/storage-model   -> reported by C06
 Memory.tla  : MemoryMC - every history of up to 5 (thorough: 6) calls (store / load / slice / entries) over offsets of which two pairs
               agree modulo 2^64: the memory agrees, offset by offset, with a concrete one (a load returns the last value
               stored at exactly that offset, or zero; a store is local; reads are invisible).  Random histories on the
               real `Memory` over offsets that agree in their low 16 / 32 / 41 / 63 / 64 / 65 / 128 / 255 bits, pushed or
               computed (sums and differences that fold to them), symbolic offsets, byte stores and slices of constant
               and symbolic size around the copy limit are validated by MemoryTrace.tla:
                 Inv_C07_Memory/memory-model      -> reported by C07
"""
import json
import os

import symvm
from common import WORK, ToolError, harness, log, printed, run_tlc, tlc_must_pass, validate_trace, workdir


def run(tier, seed):
    key = f"{symvm.tree_hash()}-{tier}-{seed}"
    cache = os.path.join(WORK, f"stack-cache-{key}.json")
    if os.path.exists(cache):
        return json.load(open(cache))
    wd = workdir("stack")
    mc = run_tlc("StackMC", workers=4, timeout=600, name="StackMC")
    tlc_must_pass(mc, "StackMC")
    tp = os.path.join(wd, "stack.ndjson")
    p = harness(["stack-trace", "--seed", seed, "--runs", 300 if tier == "thorough" else 60, "--len", 300, "--out", tp], timeout=1200)
    info = json.loads(p.stdout.strip().splitlines()[-1])
    tv = validate_trace("StackTrace", tp, timeout=3000)
    if tv.matched < tv.records:
        raise ToolError(f"StackTrace could not consume record {tv.matched + 1}: {str(tv.first_unmatched)[:300]}")
    viol = []
    for x in tv.viol:
        rec = x.get("record", {})
        # the history of that run up to the failing call
        hist = []
        with open(tp) as fh:
            for line in fh:
                r = json.loads(line)
                if r.get("run") == rec.get("run") and r.get("op") not in ("begin",):
                    hist.append({k: r[k] for k in r if k in ("op", "a", "fill", "res", "val", "depth")})
                    if r.get("step") == rec.get("step") and r.get("op") != "reset":
                        break
        viol.append({"inv": x["inv"], "record": rec, "history": hist[-40:]})
    # --- storage
    smc = run_tlc("StorageMC", workers=4, timeout=600, name="StorageMC")
    tlc_must_pass(smc, "StorageMC")
    sp = os.path.join(wd, "storage.ndjson")
    p2 = harness(["storage-trace", "--seed", seed, "--runs", 300 if tier == "thorough" else 60, "--len", 120, "--out", sp], timeout=1200)
    sinfo = json.loads(p2.stdout.strip().splitlines()[-1])
    stv = validate_trace("StorageTrace", sp, timeout=3000)
    if stv.matched < stv.records:
        raise ToolError(f"StorageTrace could not consume record {stv.matched + 1}: {str(stv.first_unmatched)[:300]}")
    for x in stv.viol:
        rec = x.get("record", {})
        hist = []
        with open(sp) as fh:
            for line in fh:
                r = json.loads(line)
                if r.get("run") == rec.get("run") and r.get("op") not in ("begin", "reset"):
                    hist.append({k: r[k] for k in r if k in ("op", "k", "v", "res")})
                    if r.get("step") == rec.get("step"):
                        break
        viol.append({"inv": x["inv"], "record": rec, "history": hist[-40:], "component": "storage"})
    # --- memory
    mmc = run_tlc("MemoryMC", cfg="MemoryMCFull.cfg" if tier == "thorough" else "MemoryMC.cfg", workers=4, timeout=900, name="MemoryMC")
    tlc_must_pass(mmc, "MemoryMC")
    mp = os.path.join(wd, "memory.ndjson")
    p3 = harness(["memory-trace", "--seed", seed, "--runs", 400 if tier == "thorough" else 80, "--len", 150, "--out", mp], timeout=1200)
    minfo = json.loads(p3.stdout.strip().splitlines()[-1])
    mtv = validate_trace("MemoryTrace", mp, timeout=3000)
    if mtv.matched < mtv.records:
        raise ToolError(f"MemoryTrace could not consume record {mtv.matched + 1}: {str(mtv.first_unmatched)[:300]}")
    mstat = list(printed(mtv.tlc.out_path, "TRACE"))[-1].get("cnt", {})
    for x in mtv.viol:
        rec = x.get("record", {})
        hist = []
        with open(mp) as fh:
            for line in fh:
                r = json.loads(line)
                if r.get("run") == rec.get("run") and r.get("op") not in ("begin", "reset"):
                    hist.append({k: r[k] for k in r if k in ("op", "k", "v", "n", "res")})
                    if r.get("step") == rec.get("step"):
                        break
        viol.append({"inv": x["inv"], "record": rec, "history": hist[-40:], "component": "memory"})
    res = {"states": mc.distinct + tv.tlc.distinct + smc.distinct + stv.tlc.distinct + mmc.distinct + mtv.tlc.distinct,
           "transitions": mc.generated + tv.tlc.generated + smc.generated + stv.tlc.generated + mmc.generated + mtv.tlc.generated,
           "memory_calls": minfo["calls"], "memory_runs": minfo["runs"], "memory_loads": int(mstat.get("loads", 0)),
           "memory_slices": int(mstat.get("slices", 0)), "memory_entry_drift": int(mstat.get("drift", 0)),
           "calls": info["calls"],
           "failing_calls": info["failing_calls"], "runs": info["runs"], "storage_calls": sinfo["calls"], "storage_runs": sinfo["runs"],
           "viol": viol}
    log(f"[vmstate] StackMC {mc.distinct} states, {info['calls']} calls on the real stack ({info['failing_calls']} failing); "
        f"StorageMC {smc.distinct} states, {sinfo['calls']} calls on the real storage; "
        f"MemoryMC {mmc.distinct} states, {minfo['calls']} calls on the real memory; {len(viol)} rejected")
    with open(cache, "w") as fh:
        json.dump(res, fh)
    return res


def coverage(res):
    return {k: res[k] for k in ("calls", "failing_calls", "runs", "storage_calls", "storage_runs", "memory_calls", "memory_runs",
                                "memory_loads", "memory_slices", "memory_entry_drift")}


def report(prop, v, res):
    """Adds the verdicts that belong to `prop` (C17: error discipline of the stack; C07: values; C06: remembered reads)."""
    want = {"C17": "Inv_C17_", "C07": "Inv_C07_", "C06": "Inv_C06_"}[prop]
    n = 0
    for x in res["viol"]:
        for inv in x["inv"]:
            if inv.startswith(want) and x.get("component") == "memory":
                rec = x["record"]
                v.violation(f"{inv}:{rec.get('op')}",
                            f"{inv}: the memory answered {str(rec.get('res'))[:160]} to {rec.get('op')}({rec.get('k')}, n={rec.get('n')}) at step "
                            f"{rec.get('step')} of run {rec.get('run')}, which Memory.tla does not allow: a load returns the last value "
                            f"stored at exactly that offset, or zero",
                            {"kind": "memory-history", "history": x["history"]})
                n += 1
            elif inv.startswith(want) and x.get("component") == "storage":
                rec = x["record"]
                v.violation(f"{inv}:{rec.get('op')}",
                            f"{inv}: the storage answered {str(rec.get('res'))[:120]} to {rec.get('op')}({rec.get('k')}) at step "
                            f"{rec.get('step')} of run {rec.get('run')} and then held keys {rec.get('keys')} with history "
                            f"{str(rec.get('hist'))[:200]} for the key, which Storage.tla does not allow",
                            {"kind": "storage-history", "history": x["history"]})
                n += 1
            elif inv.startswith(want):
                rec = x["record"]
                v.violation(f"{inv}:{rec.get('op')}",
                            f"{inv}: the operand stack answered {rec.get('res')} (depth {rec.get('depth')}, top {rec.get('top')}) to "
                            f"{rec.get('op')}({rec.get('a')}) at step {rec.get('step')} of run {rec.get('run')}, which Stack.tla does not allow",
                            {"kind": "stack-history", "history": x["history"]})
                n += 1
    return n
