"""The word-level lifting passes (sub-word, multiplicative shift, packed encoding) against Lift.tla.

 spec -> impl: LiftGen (TLC) enumerates terms - field reads (a value moved down four ways and masked, masks on either
               side, in place, nested, and positions that leave the word) and packed writes of 1-3 fields (masked then
               moved by multiplication, or moved then masked; OR-ed into a fresh word left- or right-nested, or as a
               read-modify-write chain of what the slot held).  The harness builds each as a real value, runs the
               crate's default lifting passes on it and writes the result back in the term language.
 impl -> spec: LiftTrace.tla judges every record by bit provenance (Lift.tla):
                 Inv_C12_InSlot/lift                 a sub-word / span outside the 256-bit word          -> C12
                 Inv_C04_Expected/lift-bits          the lifted value draws other bits than the original -> C04
                 Inv_C04_Expected/lift-packed        a packed write without the right spans              -> C04
                 Inv_C04_Expected/lift-packed-update a read-modify-write chain that lost a field         -> C04
               The harness's own translation is checked first (`Harness/describe`: the real value built from a term must
               mean what the term means) and is a tool error when it fails.
"""
import json
import os

import symvm
from common import WORK, ToolError, harness, log, printed, run_tlc, validate_trace, workdir


def run(tier, seed):
    key = f"{symvm.tree_hash()}-{tier}-{seed}"
    cache = os.path.join(WORK, f"lift-cache-{key}.json")
    if os.path.exists(cache):
        return json.load(open(cache))
    wd = workdir("lift")
    r = run_tlc("LiftGen", cfg="LiftGenFull.cfg" if tier == "thorough" else "LiftGen.cfg", workers=1, timeout=1200)
    if r.rc != 0:
        raise ToolError(f"LiftGen failed: {r.error_lines[:3]}")
    cases = os.path.join(wd, "cases.ndjson")
    n = 0
    with open(cases, "w") as fh:
        for c in printed(r.out_path, "CASE"):
            fh.write(json.dumps(c) + "\n")
            n += 1
    if n == 0:
        raise ToolError("LiftGen printed no terms")
    tp = os.path.join(wd, "lift.ndjson")
    p = harness(["lift-replay", "--cases", cases, "--out", tp], timeout=1200)
    info = json.loads(p.stdout.strip().splitlines()[-1])
    tv = validate_trace("LiftTrace", tp, timeout=3000)
    if tv.matched < tv.records:
        raise ToolError(f"LiftTrace could not consume record {tv.matched + 1}: {str(tv.first_unmatched)[:300]}")
    stat = list(printed(tv.tlc.out_path, "TRACE"))[-1].get("cnt", {})
    viol = []
    for x in tv.viol:
        rec = x.get("record", {})
        for inv in x["inv"]:
            if inv.startswith("Harness/"):
                raise ToolError(f"lift-replay: {inv} on term {json.dumps(rec.get('case'))[:300]} (outcome {rec.get('outcome')})")
        viol.append({"inv": sorted(x["inv"]), "case": rec.get("case"), "fam": rec.get("fam"), "lifted": rec.get("lifted")})
    if info["with_subword"] == 0 or info["with_packed"] == 0:
        raise ToolError("lift-replay: nothing was lifted at all - the harness does not reach the lifting passes")
    res = {"states": r.distinct + tv.tlc.distinct, "transitions": r.generated + tv.tlc.generated, "terms": n,
           "with_subword": info["with_subword"], "with_packed": info["with_packed"], "judged": int(stat.get("judged", 0)),
           "writes": int(stat.get("writes", 0)), "viol": viol}
    log(f"[lift] {n} terms from LiftGen run through the real lifting passes ({info['with_subword']} with sub-words, "
        f"{info['with_packed']} packed); {len(viol)} rejected by LiftTrace")
    with open(cache, "w") as fh:
        json.dump(res, fh)
    return res


def coverage(res):
    return {k: res[k] for k in ("terms", "with_subword", "with_packed", "judged", "writes")}


def report(prop, v, res):
    want = "Inv_" + prop
    n = 0
    for x in res["viol"]:
        for inv in x["inv"]:
            if inv.startswith(want):
                v.violation(f"{inv}:{x['fam']}",
                            f"{inv}: the lifting passes turn {json.dumps(x['case'])[:300]} into {json.dumps(x['lifted'])[:300]}, "
                            f"which Lift.tla does not allow",
                            {"kind": "lift-term", "fam": x["fam"], "term": x["case"]})
                n += 1
    return n
