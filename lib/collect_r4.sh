#!/bin/bash
# collect_r4.sh <Cxx> [suffix=r4]: copies /tmp/wt/<Cxx><suffix>/mutants/m* (patch, demonstration, the author's README, confirm.txt
# and check.txt as written by lib/dev_mutants.sh) to the next free /verif/seeded/<Cxx>-m<N>, then removes the worktree.
P=$1; S=${2:-r4}
HEAD=$(git -C /repo rev-parse --short HEAD)
i=1; while [ -d /verif/seeded/$P-m$i ]; do i=$((i+1)); done
for m in /tmp/wt/${P}${S}/mutants/m*; do
  [ -f "$m/patch.diff" ] || continue
  D=/verif/seeded/$P-m$i; mkdir -p $D
  cp $m/patch.diff $D/
  n=0
  for f in $m/*.rs; do [ -f "$f" ] && { if [ $n -eq 0 ]; then cp "$f" $D/demo.rs; else cp "$f" $D/demo_$n.rs; fi; n=$((n+1)); }; done
  [ -f $m/README.md ] && cp $m/README.md $D/README.agent.md
  [ -f $m/confirm.txt ] && echo "$HEAD $(tail -1 $m/confirm.txt)" > $D/confirm.txt
  [ -f $m/check.txt ] && cp $m/check.txt $D/check.txt
  echo "$D: $(head -1 $D/check.txt 2>/dev/null)"
  i=$((i+1))
done
git -C /repo worktree remove --force /tmp/wt/${P}${S} 2>/dev/null; rm -rf /tmp/wt/${P}${S}
