"""C09 — simplifying a symbolic expression never changes what it denotes.

 spec alone  : WordMC — Word.tla's limb arithmetic (ADD..SAR, EXP, and the DIV/MOD/SDIV/SMOD relations incl. their
               uniqueness) against native arithmetic modulo B^N, exhaustively over all operand pairs for (B,N) in
               {(4,2)} (quick) + {(4,3),(16,2)} (thorough).
 impl -> spec: real SymbolicValue trees are built (21 foldable operators x operand pairs from the boundary set, every
               operator with an opaque operand in each position, trees to depth 4 mixing constants, opaque leaves and
               non-foldable constructors), the real constant_fold is applied to every sub-tree, and ValueTrace.tla
               (Word at B=256, N=32) checks every node: Inv_C09_Meaning (the exact EVM constant, or THE SAME operator
               over the folded operands), Inv_C09_Idempotent, Inv_C09_Total.
"""
import json
import os
from concurrent.futures import ThreadPoolExecutor

from common import (SPEC, ToolError, Verdict, harness, log, printed, run_tlc, tlc_must_pass, validate_trace, workdir)

PROP = "C09"


def run(tier, seed):
    v = Verdict(PROP, tier, seed)
    wd = workdir("c09")
    thorough = tier == "thorough"
    states = trans = 0
    for cfg in (["WordMC_4_2.cfg"] + (["WordMC_4_3.cfg", "WordMC_16_2.cfg"] if thorough else [])):
        r = run_tlc("WordMC", cfg=cfg, workers=8, timeout=3000, name="WordMC-" + cfg[7:-4])
        tlc_must_pass(r, "WordMC " + cfg)
        states += r.distinct
        trans += r.generated
    log(f"[C09] WordMC: Word.tla agrees with native arithmetic on {states - 1} operand pairs")
    shards = 12 if thorough else 8
    args = ["fold-trace", "--seed", seed, "--shards", shards, "--out", os.path.join(wd, "f")]
    if thorough:
        args.append("--thorough")
    p = harness(args, timeout=3000)
    info = json.loads(p.stdout.strip().splitlines()[-1])
    paths = [os.path.join(wd, f"f.{s}.ndjson") for s in range(shards)]

    def one(s):
        return validate_trace("ValueTrace", paths[s], name=f"ValueTrace-{s}", timeout=3400, heap="4g")

    with ThreadPoolExecutor(max_workers=min(shards, 12)) as ex:
        verdicts = list(ex.map(one, range(shards)))
    nodes = folds = 0
    for s, tv in enumerate(verdicts):
        if tv.matched < tv.records:
            raise ToolError(f"ValueTrace could not consume record {tv.matched + 1} of {paths[s]}: {str(tv.first_unmatched)[:300]} ({tv.tlc.out_path})")
        st = list(printed(tv.tlc.out_path, "TRACE"))[-1].get("cnt", {})
        nodes += int(st.get("nodes", 0))
        folds += int(st.get("folds", 0))
        states += tv.tlc.distinct
        trans += tv.tlc.generated
        for x in tv.viol:
            rec = x.get("record", {})
            for inv in x["inv"]:
                root = rec.get("nodes", [{}])[-1] if rec.get("nodes") else rec.get("input", {})
                v.violation(inv, f"{inv} on a tree from family {rec.get('src')}: root {json.dumps(root)[:400]} {rec.get('panic', '')}",
                            {"kind": "value-tree", "record": rec})
    log(f"[C09] ValueTrace: {folds} trees, {nodes} nodes checked")
    sample = None
    with open(paths[0]) as fh:
        fh.readline()
        sample = json.loads(fh.readline())
    cov = {"states": states, "transitions": trans, "traces_validated_against_impl": folds, "nodes_checked": nodes,
           "boundary_values": info["boundary_values"], "exhaustive": False,
           "rule": "19 binary + 2 unary foldable operators x pairs from the boundary set (0,1,2,3,7,31,32,255,256,257,2^32,"
                   "2^32+1,2^64-1,2^64,2^128,2^255-1,2^255,2^255+1,2^256-2,2^256-1, 2^k, 2^k+-1) incl. the named corners "
                   "(MIN/-1, x/0, shifts by 255/256/257/2^255, exponents above 2^32); every operator with an opaque operand "
                   "in each position; random trees to depth 4",
           "samples": [sample]}
    return v.finish("model_checking", cov, ["TLC + community modules (Bitwise)", "Word.tla at (256,32) is trusted through its "
                    "exhaustive agreement with native arithmetic at small (B,N)", "quotient hints are untrusted and verified"])


def replay(path, seed):
    print(open(path).read()[:3000])
    return run("quick", seed)
