"""C14 / C15 / C02 — decided by Unify.tla (+ TypeLattice.tla):

 spec alone  : UnifyMC — every judgement set of <= 3/4 judgements over 3 variables and a 13-element evidence
               alphabet (words of several usages/widths, Bytes, Any, dynamic/fixed arrays, mappings incl. a cyclic
               one, equalities): termination, Inv_C14_One/Eq/Components, Inv_C15_Join/Conflict, Inv_C02_Confluent
               and "clean evidence is confluent" hold in the design as implemented (canonical fold order).
 vacuity     : with the deviation HashOrder (fold in hash-set order, the pinned tree's behaviour) TLC finds the
               order-dependent judgement sets, so the confluence / conflict invariants bite.
 spec -> impl: every enumerated judgement set is loaded into the real TypeCheckerState and unified several times
               (fresh hash seeds, reversed insertion order); each real outcome must be the model's outcome.
 impl -> spec: those runs, plus random large judgement sets (<= 40 variables, packed encodings with arbitrary spans,
               cyclic evidence), plus (C02) repeated whole-pipeline analyses of generated / real contracts are
               validated by UnifyTrace.tla, which evaluates the post-conditions on every projected forest.
"""
import json
import os

import corpus
import symvm
from common import (SPEC, WORK, ToolError, Verdict, harness, log, printed, read_json, run_tlc, tlc_must_pass,
                    validate_trace, workdir)


def _cfg(maxj, hash_order):
    return f"""SPECIFICATION Spec
CONSTANTS
  NVars = 3
  MaxJ = {maxj}
  HashOrder = {"TRUE" if hash_order else "FALSE"}
INVARIANTS Inv_C14_Terminates Inv_C14_One Inv_C14_Eq Inv_C14_Components Inv_C15_Join Inv_CleanConfluent Inv_C15_Conflict Inv_C02_Confluent Emit
CHECK_DEADLOCK FALSE
"""


def pipeline(tier, seed):
    key = f"{symvm.tree_hash()}-{tier}-{seed}"
    cache = os.path.join(WORK, f"unify-cache-{key}.json")
    if os.path.exists(cache):
        log(f"[unify] using cached result {os.path.basename(cache)}")
        return json.load(open(cache))
    wd = workdir("unify")
    thorough = tier == "thorough"
    maxj = 4 if thorough else 3
    with open(os.path.join(SPEC, "_UnifyMC.cfg"), "w") as fh:
        fh.write(_cfg(maxj, False))
    try:
        r = run_tlc("UnifyMC", cfg="_UnifyMC.cfg", workers=14, timeout=3400, heap="16g")
    finally:
        os.remove(os.path.join(SPEC, "_UnifyMC.cfg"))
    tlc_must_pass(r, "UnifyMC")
    with open(os.path.join(SPEC, "_UnifyMCdev.cfg"), "w") as fh:
        fh.write(_cfg(3, True))
    try:
        d = run_tlc("UnifyMC", cfg="_UnifyMCdev.cfg", workers=8, timeout=1200, name="UnifyMC-dev")
    finally:
        os.remove(os.path.join(SPEC, "_UnifyMCdev.cfg"))
    if d.violated not in ("Inv_C02_Confluent", "Inv_C15_Conflict"):
        raise ToolError(f"vacuity self-test: hash-order folding was not caught ({d.violated})")
    cases = os.path.join(wd, "cases.ndjson")
    n = 0
    sample = None
    with open(cases, "w") as fh:
        for c in printed(r.out_path, "CASE"):
            fh.write(json.dumps(c) + "\n")
            n += 1
            if n == 4000:
                sample = c
    out = os.path.join(wd, "replay.json")
    t1 = os.path.join(wd, "replay.ndjson")
    harness(["unify-replay", "--cases", cases, "--trace", t1, "--out", out, "--runs", 4 if not thorough else 6], timeout=3000)
    rep = read_json(out)
    log(f"[unify] UnifyMC: {r.distinct} states, {n} judgement sets; replayed x{rep['runs_per_case']} on the real unifier: "
        f"{rep['real_outcomes_outside_model']} outcomes outside the model, "
        f"{rep['cases_with_more_than_one_real_outcome']} sets with more than one real outcome; deviation HashOrder caught "
        f"by {d.violated}")
    t2 = os.path.join(wd, "random.ndjson")
    p = harness(["unify-random", "--seed", seed, "--sets", 3000 if thorough else 500, "--runs", 3, "--trace", t2], timeout=3000)
    rinfo = json.loads(p.stdout.strip().splitlines()[-1])
    t3 = os.path.join(wd, "determinism.ndjson")
    cpath = corpus.write_corpus(os.path.join(wd, "corpus.json"))
    args = ["determinism", "--seed", seed, "--corpus", cpath, "--trace", t3]
    args += ["--programs", 1500, "--runs", 10, "--real-runs", 4, "--max-real-bytes", 30000] if thorough else \
            ["--programs", 150, "--runs", 6, "--real-runs", 3, "--max-real-bytes", 4000]
    p = harness(args, timeout=3400)
    dinfo = json.loads(p.stdout.strip().splitlines()[-1])
    viol = []
    states = r.distinct
    trans = r.generated
    counts = {}
    for name, tp in (("replay", t1), ("random", t2), ("determinism", t3)):
        tv = validate_trace("UnifyTrace", tp, name=f"UnifyTrace-{name}", timeout=3000, heap="6g")
        if tv.matched < tv.records:
            raise ToolError(f"UnifyTrace could not consume record {tv.matched + 1} of {tp}: {str(tv.first_unmatched)[:300]}")
        st = list(printed(tv.tlc.out_path, "TRACE"))[-1]
        counts[name] = st.get("cnt")
        states += tv.tlc.distinct
        trans += tv.tlc.generated
        for x in tv.viol:
            rec = x.get("record", {})
            viol.append({"inv": sorted(x["inv"]), "src": name,
                         "case": {k: rec.get(k) for k in ("j", "nv", "hex", "name", "distinct", "outcomes") if k in rec},
                         "runs": rec.get("runs", [])[:2]})
    res = {"states": states, "transitions": trans, "mc_sets": n, "replay": {k: rep[k] for k in rep if k != "examples"},
           "replay_examples": rep["examples"][:5], "random": rinfo, "determinism": dinfo, "viol": viol, "counts": counts,
           "sample": sample, "maxj": maxj, "deviation_caught_by": d.violated}
    with open(cache, "w") as fh:
        json.dump(res, fh)
    return res


def run(prop, tier, seed):
    v = Verdict(prop, tier, seed)
    res = pipeline(tier, seed)
    mine = [x for x in res["viol"] if any(i.startswith("Inv_" + prop) for i in x["inv"])]
    for x in mine:
        inv = "+".join(i for i in x["inv"] if i.startswith("Inv_" + prop))
        v.violation(f"{inv}:{x['src']}", f"{inv} fails on {json.dumps(x['case'])[:400]}",
                    {"kind": "judgements" if "j" in x["case"] else "program", **x["case"]})
    if res["replay"]["real_outcomes_outside_model"] and not res["viol"]:
        v.notes.append(f"SPEC-DRIFT: {res['replay']['real_outcomes_outside_model']} real outcomes differ from the model's "
                       f"but satisfy every post-condition, e.g. {json.dumps(res['replay_examples'][:1])[:400]}")
        log("SPEC-DRIFT: the real unifier deviates from Unify.tla without violating a property")
    log(f"[{prop}] UnifyTrace: {res['counts']}; {len(res['viol'])} failing records ({len(mine)} for {prop})")
    packed = None
    if prop == "C14":
        import packedmodel
        packed = packedmodel.run(tier, seed)
        packedmodel.report(prop, v, packed)
    cov = {
        "states": res["states"],
        "transitions": res["transitions"],
        "traces_validated_against_impl": sum(int((c or {}).get("runs", 0)) for c in res["counts"].values()),
        "judgement_sets_enumerated": res["mc_sets"],
        "replay": res["replay"],
        "random_sets": res["random"],
        "determinism": res["determinism"],
        "deviation_caught_by": res["deviation_caught_by"],
        "exhaustive": False,
        "rule": f"model: all sets of <= {res['maxj']} judgements over 3 variables x 13 evidence forms + equalities; real: each "
                "set unified 4-6 times; random sets of <= 30 judgements over <= 40 variables incl. packed spans and cyclic "
                "evidence x 3 runs; whole-pipeline repeats of generated idiom contracts, control-flow programs and real contracts",
        "samples": [res["sample"]],
    }
    if packed:
        cov["packed_merge_model"] = packedmodel.coverage(packed)
        cov["states"] += packed["states"]
        cov["rule"] += "; every pair of packed encodings of <= 2 spans (quick) or <= 3 spans (thorough) over 6 units combined by the real merge (PackedMerge.tla)"
    return v.finish("model_checking", cov, ["TLC + community modules", "the forest is projected through find/get_data",
                    "fresh RandomState keys per HashSet make repeated in-process runs explore different iteration orders"])
