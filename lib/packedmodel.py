"""The (Packed, Packed) arm of `unification::merge` against PackedMerge.tla.

 spec -> impl: PackedGen (TLC) enumerates every pair of packed encodings of <= 2 spans over a word of 6 units (quick) or
               <= 3 spans over 6 units (thorough) - spans with holes, touching, nested, straddling - with distinct
               variables; the harness combines each pair with the real `merge` (one unit = 32 bits).
 impl -> spec: PackedTrace.tla judges the resulting spans, equalities and judgements against the common refinement:
                 Inv_C12_InSlot/packed-merge       spans overlap or leave the inputs' extent; a piece placed in a span's
                                                   variable leaves that span's width                           -> C12
                 Inv_C14_Components/packed-merge   the result is not the common refinement, or a span's variable is not
                                                   tied to exactly the refined spans within it, re-based      -> C14
                 Inv_C01_Total/packed-merge        the combination panicked                                   -> C01
"""
import json
import os

import symvm
from common import WORK, ToolError, harness, log, printed, run_tlc, validate_trace, workdir


def run(tier, seed):
    key = f"{symvm.tree_hash()}-{tier}"
    cache = os.path.join(WORK, f"packed-cache-{key}.json")
    if os.path.exists(cache):
        return json.load(open(cache))
    wd = workdir("packed")
    r = run_tlc("PackedGen", cfg="PackedGenFull.cfg" if tier == "thorough" else "PackedGen.cfg", workers=1, timeout=1200)
    if r.rc != 0:
        raise ToolError(f"PackedGen failed: {r.error_lines[:3]}")
    cases = os.path.join(wd, "cases.ndjson")
    n = 0
    with open(cases, "w") as fh:
        for c in printed(r.out_path, "CASE"):
            fh.write(json.dumps(c) + "\n")
            n += 1
    if n == 0:
        raise ToolError("PackedGen printed no pairs")
    tp = os.path.join(wd, "packed.ndjson")
    p = harness(["packed-replay", "--cases", cases, "--out", tp], timeout=1200)
    info = json.loads(p.stdout.strip().splitlines()[-1])
    tv = validate_trace("PackedTrace", tp, timeout=3000)
    if tv.matched < tv.records:
        raise ToolError(f"PackedTrace could not consume record {tv.matched + 1}: {str(tv.first_unmatched)[:300]}")
    stat = list(printed(tv.tlc.out_path, "TRACE"))[-1].get("cnt", {})
    viol = [{"inv": sorted(x["inv"]), "a": x.get("record", {}).get("a"), "b": x.get("record", {}).get("b"),
             "out": x.get("record", {}).get("out")} for x in tv.viol]
    if int(stat.get("refined", 0)) == 0:
        raise ToolError("packed-replay: no pair produced a refinement - the harness does not reach the packed merge")
    res = {"states": r.distinct + tv.tlc.distinct, "transitions": r.generated + tv.tlc.generated, "pairs": n,
           "pairs_with_split_spans": int(stat.get("refined", 0)), "panics": info["panics"], "viol": viol}
    log(f"[packed] {n} pairs of packed encodings from PackedGen combined by the real merge "
        f"({res['pairs_with_split_spans']} split a span); {len(viol)} rejected by PackedTrace")
    with open(cache, "w") as fh:
        json.dump(res, fh)
    return res


def coverage(res):
    return {k: res[k] for k in ("pairs", "pairs_with_split_spans", "panics")}


def report(prop, v, res):
    n = 0
    for x in res["viol"]:
        for inv in x["inv"]:
            if inv.startswith("Inv_" + prop):
                v.violation(f"{inv}",
                            f"{inv}: merge of the packed encodings {json.dumps(x['a'])} and {json.dumps(x['b'])} (spans [offset, size, "
                            f"variable]) gives {json.dumps(x['out'])[:400]}, which PackedMerge.tla does not allow",
                            {"kind": "packed-pair", "a": x["a"], "b": x["b"]})
                n += 1
    return n
