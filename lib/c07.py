"""C07 — every explored path computes what a concrete EVM computes on that path.

 spec        : Evm.tla is a concrete EVM for the fragment (PUSH0..32, DUP/SWAP1..16, POP, every ALU opcode incl.
               ADDMOD/MULMOD/SIGNEXTEND/BYTE, PC, CODESIZE, word-aligned MSTORE/MLOAD, SLOAD/SSTORE, JUMP/JUMPI with
               forced decisions) written as a checker of a claimed execution; Word.tla supplies the arithmetic
               (model-checked against native arithmetic at small widths, see C09).
 impl -> spec: stack-safe, loop-free programs over boundary constants (<= 5 JUMPI) run on the real VM with the hooks
               on; for every stored state the path is rebuilt from Exec/Fork/Advance events; a scratch interpreter
               follows it and its claims are verified step by step by Evm!Step; the final symbolic stack, memory
               words and per-key storage histories are exported with a scratch evaluation of every node, verified
               node by node (Evm!NodeClaimOK: the operator over the operands in EVM order), and EvmTrace.tla checks
               Inv_C07_Stack / Inv_C07_Memory / Inv_C07_Storage (exactly this path's writes, in order) / Inv_C07_Path.
"""
import json
import os
from concurrent.futures import ThreadPoolExecutor

from common import (ToolError, Verdict, harness, log, printed, validate_trace, workdir)

PROP = "C07"


def run(tier, seed):
    v = Verdict(PROP, tier, seed)
    wd = workdir("c07")
    thorough = tier == "thorough"
    shards = 14 if thorough else 8
    n = 4000 if thorough else 120
    p = harness(["evm-trace", "--seed", seed, "--programs", n, "--shards", shards, "--out", os.path.join(wd, "e")], timeout=3000)
    info = json.loads(p.stdout.strip().splitlines()[-1])
    paths = [os.path.join(wd, f"e.{s}.ndjson") for s in range(shards)]

    def one(s):
        return validate_trace("EvmTrace", paths[s], name=f"EvmTrace-{s}", timeout=3500, heap="4g")

    with ThreadPoolExecutor(max_workers=min(shards, 14)) as ex:
        verdicts = list(ex.map(one, range(shards)))
    states = trans = 0
    cnt = {"paths": 0, "steps": 0, "nodes": 0, "bad": 0}
    for s, tv in enumerate(verdicts):
        # two TLC steps per record
        if tv.matched < tv.records:
            raise ToolError(f"EvmTrace could not consume record {tv.matched + 1} of {paths[s]} ({tv.tlc.out_path})")
        states += tv.tlc.distinct
        trans += tv.tlc.generated
        st = list(printed(tv.tlc.out_path, "TRACE"))[-1].get("cnt", {})
        for k in cnt:
            cnt[k] += int(st.get(k, 0))
        for x in tv.viol:
            rec = x.get("record", {})
            for inv in x["inv"]:
                if inv.startswith("Harness/"):
                    raise ToolError(f"the harness's scratch interpreter was rejected by Evm.tla: {inv} on {rec.get('hex')}")
                v.violation(inv, f"{inv} on path of thread {rec.get('tid')} of program {rec.get('hex', '')[:200]}",
                            {"kind": "constant-program", "hex": rec.get("hex"), "tid": rec.get("tid"), "tags": rec.get("tags")})
    import vmstate
    stack = vmstate.run(tier, seed)
    vmstate.report(PROP, v, stack)
    states += stack["states"]
    log(f"[C07] {info['programs']} programs, {cnt['paths']} paths, {cnt['steps']} concrete steps and {cnt['nodes']} symbolic nodes verified, "
        f"{cnt['bad']} paths failing")
    sample = None
    with open(paths[0]) as fh:
        fh.readline()
        r = json.loads(fh.readline())
        sample = {"hex": r.get("hex"), "steps": len(r.get("steps", [])), "nodes": len(r.get("nodes", [])), "tags": r.get("tags")}
    cov = {"programs": info["programs"], "disagreements_checked": cnt["bad"], "paths": cnt["paths"],
           "concrete_steps_verified": cnt["steps"], "symbolic_nodes_verified": cnt["nodes"],
           "states": states, "transitions": trans, "samples": [sample],
           "operand_stack_model": vmstate.coverage(stack)}
    return v.finish("translation_validation", cov,
                    ["TLC + community modules", "Word.tla (checked against native arithmetic at small widths)",
                     "paths are rebuilt from the Exec/Fork/Advance hooks; stored states are matched to threads by retirement order",
                     "the scratch interpreter and evaluator are untrusted: every claim is verified by Evm.tla"])


def replay(path, seed):
    from common import read_json
    doc = read_json(path)
    rp = doc["replay"]
    if str(rp.get("kind", "")).endswith("-history"):
        # a call history of a component model: the histories derive from the seed, so the component run is repeated
        import vmstate
        v = Verdict(PROP, doc.get("tier", "quick"), doc.get("seed", seed))
        n = vmstate.report(PROP, v, vmstate.run(doc.get("tier", "quick"), doc.get("seed", seed)))
        print(json.dumps({"component_model_violations": n}))
        if n:
            print(f"VIOLATION property={PROP} replay={path}")
        return 1 if n else 0
    wd = workdir("c07-replay")
    tp = os.path.join(wd, "one.ndjson")
    harness(["evm-one", "--hex", rp["hex"], "--out", tp])
    tv = validate_trace("EvmTrace", tp)
    print(json.dumps({"hex": rp["hex"], "violations": [x["inv"] for x in tv.viol]}))
    known = "(/(signextend|addmod-overflow|byte-huge-offset|key-alias))+"
    import re
    bad = [i for x in tv.viol for i in x["inv"] if not re.fullmatch("Inv_C07_(Stack|Memory|Storage)" + known, i)]
    if bad:
        print(f"VIOLATION property={PROP} replay={path}")
        return 1
    return 0
