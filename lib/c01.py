"""C01 — analysis is total: it returns a layout or a structured error, never crashes.

 spec        : Pipeline.tla — the extractor's typestate with exactly two kinds of terminal state (layout, structured
               error); PipelineMC checks that every behaviour of the typestate ends in one of them.
 generators  : RolesGen (TLC) enumerates opcode x operand position x boundary constant (0, 1, 31, 32, 255, 256, 257,
               2^32, 2^56, 2^64-1, 2^64, 2^128, 2^255, 2^256-1) from Opcodes.tla; the harness assembles each in three
               contexts (direct, computed at run time, after a fork) and adds crafted cyclic-type programs, random bytes,
               opcode soup with hostile pushes, control-flow / idiom / constant programs, mutated and truncated real
               contracts, each under a random valid configuration (limits, memory-op bound, strict / permissive).
 impl -> spec: every case is driven through each staged call (under catch_unwind) and through analyze() in a CHILD
               process built in the dev profile (debug assertions and overflow checks on); the case in flight is written
               to a progress file first.  PipelineTrace.tla replays the recorded stage outcomes on the typestate
               (Inv_C01_Total: every call returned and the run ended in a terminal state; Inv_C01_Consistent: staged and
               one-call runs agree).  A child that dies (abort, native stack overflow, out of memory) or sits on one case
               for more than the time bound is a violation attributed to the case in flight, and the run resumes after it.
"""
import json
import os
import subprocess
import time

import corpus
from common import (SPEC, ToolError, Verdict, build_harness, log, printed, run_tlc, tlc_must_pass, validate_trace, workdir)

PROP = "C01"
CASE_TIMEOUT = 90


def _child(exe, args, progress, out_path):
    """Runs the harness child; returns (finished, in_flight_case or None, reason)."""
    cmd = f"ulimit -v {12 * 1024 * 1024}; exec " + " ".join("'" + str(a) + "'" for a in [exe] + args)
    p = subprocess.Popen(["bash", "-c", cmd], stdout=subprocess.PIPE, stderr=subprocess.DEVNULL, text=True)
    last_case = None
    last_change = time.time()
    while True:
        try:
            out, _ = p.communicate(timeout=2)
            break
        except subprocess.TimeoutExpired:
            try:
                cur = open(progress).read()
            except OSError:
                cur = None
            if cur != last_case:
                last_case = cur
                last_change = time.time()
            elif cur is not None and time.time() - last_change > CASE_TIMEOUT:
                p.kill()
                p.communicate()
                return False, _parse(cur), f"no result after {CASE_TIMEOUT}s"
    if p.returncode == 0:
        return True, None, out
    try:
        cur = open(progress).read()
    except OSError:
        cur = None
    return False, _parse(cur), f"child process died with status {p.returncode}"


def _parse(text):
    try:
        return json.loads(text)
    except Exception:
        return None


def run(tier, seed):
    v = Verdict(PROP, tier, seed)
    wd = workdir("c01")
    thorough = tier == "thorough"
    r = run_tlc("PipelineMC", workers=2, timeout=300)
    tlc_must_pass(r, "PipelineMC")
    g = run_tlc("RolesGen", workers=2, timeout=600)
    if g.rc != 0:
        raise ToolError(f"RolesGen failed: {g.error_lines[:3]}")
    roles = os.path.join(wd, "roles.ndjson")
    n_roles = 0
    with open(roles, "w") as fh:
        for c in printed(g.out_path, "CASE"):
            fh.write(json.dumps(c) + "\n")
            n_roles += 1
    exe = build_harness("dev")
    cpath = corpus.write_corpus(os.path.join(wd, "corpus.json"))
    progress = os.path.join(wd, "progress.json")
    skip = 0
    part = 0
    traces = []
    crashes = []
    info = None
    while True:
        tp = os.path.join(wd, f"runs.{part}.ndjson")
        args = ["total-run", "--seed", seed, "--roles", roles, "--corpus", cpath, "--random", 6000 if thorough else 700,
                "--max-real-bytes", 6000 if thorough else 1500, "--out", tp, "--progress", progress, "--skip", skip]
        ok, case, msg = _child(exe, args, progress, tp)
        traces.append(tp)
        if ok:
            info = json.loads(msg.strip().splitlines()[-1])
            break
        if case is None:
            raise ToolError(f"the harness child failed before its first case: {msg}")
        crashes.append((case, msg))
        v.violation(f"Inv_C01_Total/{'hang' if 'no result' in msg else 'abort'}:{case.get('family')}",
                    f"the analysis took the calling process down ({msg}) on input {case.get('hex', '')[:200]} "
                    f"(family {case.get('family')}) under {case.get('cfg')}",
                    {"kind": "bytes+config", "hex": case.get("hex"), "cfg": case.get("cfg")})
        skip = int(case["index"]) + 1
        part += 1
        if part > 40:
            raise ToolError("too many crashes of the harness child; giving up")
    states = r.distinct + g.distinct
    trans = r.generated
    cnt = {"runs": 0, "layouts": 0, "errors": 0, "bad": 0}
    for tp in traces:
        if not os.path.exists(tp) or os.path.getsize(tp) == 0:
            continue
        # a part that was cut short by a crash may end in a partial line
        lines = open(tp).read().splitlines()
        good = []
        for ln in lines:
            try:
                json.loads(ln)
                good.append(ln)
            except Exception:
                break
        if not good:
            continue
        if not good[0].startswith('{"ev":"begin"'):
            good.insert(0, '{"ev":"begin"}')
        with open(tp, "w") as fh:
            fh.write("\n".join(good) + "\n")
        tv = validate_trace("PipelineTrace", tp, name="PipelineTrace", timeout=3000)
        if tv.matched < tv.records:
            raise ToolError(f"PipelineTrace could not consume record {tv.matched + 1} of {tp}: {str(tv.first_unmatched)[:300]}")
        st = list(printed(tv.tlc.out_path, "TRACE"))[-1].get("cnt", {})
        for k in cnt:
            cnt[k] += int(st.get(k, 0))
        states += tv.tlc.distinct
        trans += tv.tlc.generated
        for x in tv.viol:
            rec = x.get("record", {})
            msgs = [c["msg"] for c in rec.get("calls", []) if c["res"] == "panic"] or [rec.get("analyze_msg", "")]
            stage = next((c["name"] for c in rec.get("calls", []) if c["res"] == "panic"), "analyze")
            for inv in x["inv"]:
                v.violation(f"{inv}:{stage}:{msgs[0][:60]}",
                            f"{inv} in {stage}: {msgs[0][:160]} on input {rec.get('hex', '')[:200]} (family {rec.get('family')}) "
                            f"under {rec.get('cfg')}",
                            {"kind": "bytes+config", "hex": rec.get("hex"), "cfg": rec.get("cfg")})
    log(f"[C01] {n_roles} boundary cases from RolesGen; {cnt['runs']} runs: {cnt['layouts']} layouts, {cnt['errors']} structured errors, "
        f"{cnt['bad']} failing, {len(crashes)} process-level crashes; families {info['families'] if info else '?'}")
    sample = {"note": "no completed run"}
    for tp in traces:
        try:
            with open(tp) as fh:
                fh.readline()
                s = json.loads(fh.readline())
                sample = {k: s.get(k) for k in ("family", "hex", "cfg", "analyze")}
                break
        except Exception:
            continue
    cov = {"evaluations": cnt["runs"] + len(crashes), "distinct_nontrivial": cnt["runs"],
           "rule": "one case per (input bytes, configuration); inputs: RolesGen boundary programs x 3 contexts, crafted cyclic-type "
                   "programs, random bytes, opcode soup, control-flow / idiom / constant programs, mutated and truncated real "
                   "contracts; every case runs the 5 staged calls and analyze()",
           "layouts": cnt["layouts"], "structured_errors": cnt["errors"], "process_level_crashes": len(crashes),
           "states": states, "transitions": trans, "traces_validated_against_impl": cnt["runs"],
           "samples": [sample]}
    return v.finish("exploration", cov,
                    ["dev profile (debug assertions + overflow checks) is a superset of what release users see",
                     "configurations within: iteration limit 1..12, fork limit 1..60, gas 300..30M, value size 1..1000, memory-op bound 1..4096",
                     "a case is declared hanging after 90 s without a result"])


def replay(path, seed):
    print(open(path).read()[:1500])
    return run("quick", seed)
